"""C09 — hash check reports exactly the valid pieces and never alters data:
proof obligations + correspondence (session harness over generated on-disk states, hash-result
delivery under op-list control) + property oracle."""
import hashlib
import json

import ltv
from gen import c09 as G


def run(rep, tier, seed, replay):
    # what the property leaves open is measured on the compiled code first (gen/params_c09.py reads the result)
    impl = ltv.build_harness("c09", ["c09.cc", "common/session.cc"])
    import os, subprocess
    pdir = os.path.join(ltv.BUILD, "probe")
    os.makedirs(pdir, exist_ok=True)
    env = dict(os.environ)
    env.setdefault("ASAN_OPTIONS", "detect_leaks=0")
    try:
        pr = subprocess.run([impl, "--probe"], stdout=subprocess.PIPE, stderr=subprocess.PIPE, timeout=120, env=env)
        probe = json.loads(pr.stdout.decode().strip().split("\n")[-1])
    except Exception as ex:
        probe = None
        rep.violation("the probe of the compiled code failed (%s): no policy for the model" % str(ex)[:200],
                      theorem="harness c09 --probe", found_input=False)
    if probe is not None:
        with open(os.path.join(pdir, "c09.json"), "w") as f:
            json.dump(probe, f)
        rep.cov.update(probed_policy=probe)
    coq = ltv.coq_build("C09")
    rep.cov.update(obligations=coq["obligations"], discharged=coq["discharged"], checker_cmd=coq["checker_cmd"],
                   theorems=coq["theorems"], axioms_per_theorem=coq["axioms"],
                   trusted_base=ltv.std_trusted_base(coq, [
                       "session harness (harness/common/session.{h,cc}) + harness/c09.cc: real library in-process, main thread stepped "
                       "manually; finished hash results are moved between HashQueue::m_done_chunks and a harness stash under "
                       "m_done_chunks_lock so that the op list decides when/in which order the disk thread's results arrive "
                       "(ops s/x/w skip that and run the real race with the disk thread)",
                       "modelled not verified: SHA-1 (Section variable H; the model driver instantiates it with the identity, the "
                       "harness side is OpenSSL via the library and, independently, OpenSSL in the harness for the reference verdict); "
                       "the kernel (open/O_CREAT/fstat/mmap semantics as the four file states Absent/NoDir/Bytes/Unreadable); "
                       "ranges<uint32_t> as a membership vector; ChunkManager memory limits (ENOMEM retry path not modelled); "
                       "the disk thread (HashCheckQueue/HashChunk) as 'H of the mapped bytes, delivered when the op list says'; "
                       "C18 covers the cross-thread hand-over itself",
                       "content bytes are a fixed arithmetic function of the offset, implemented in C++ and OCaml",
                       "python property oracle gen/c09.py:oracle evaluated on the implementation's output (bits vs OpenSSL verdict, "
                       "per-file size/sha1/mtime before vs after, directory entry count, reference counts after stop/close)"]))
    model = ltv.build_model("C09")
    if replay:
        cases = [json.load(open(replay))["case"]]
        stats = {"replay": 1}
    else:
        cases, stats = G.gen(seed, tier)
    mo = ltv.run_sharded(model, cases)
    io = ltv.run_sharded(impl, cases, timeout=900)
    nontrivial, mism, samples = set(), 0, []
    completed = errors = stops = 0
    for i, case in enumerate(cases):
        m = mo[i] if i < len(mo) else "MISSING"
        full = io[i] if i < len(io) else "MISSING"
        o = full.partition(" || ")[0]
        if case.startswith("G "):       # no model side: the oracle judges
            if not full.startswith("SKIPPED-AFTER-HANGS"):
                for kl, text in G.oracle(case, full):
                    rep.violation(text, case=case, model=m, impl=full, theorem="property oracle C09 (beyond 4 GiB)", klass=kl)
            continue
        # the model does not distinguish the race variants
        if " c1 " in o and ("1" in o.split(" || ")[0]):
            completed += 1
        if " s1 " in o:
            errors += 1
        if any(t[0] in "SsXx" for t in case.split("|")[2].split()):
            stops += 1
        ssl = full.partition("ssl=")[2][:64].split(" ")[0]
        if " c1 " in o and "1" in ssl and "0" in ssl:
            nontrivial.add(hashlib.sha1(case.encode()).digest())
        if len(samples) < 5 and i % 53 == 21:
            samples.append({"case": case[:300], "impl": full[:500]})
        if full.startswith("SKIPPED-AFTER-HANGS"):
            continue
        viol = G.oracle(case, full)
        if m != o:
            mism += 1
            if viol:
                kl, text = viol[0]
                rep.violation("model and implementation differ AND the property fails on the implementation: " + text,
                              case=case, model=m, impl=full, theorem="correspondence C09 (per-op snapshots, final disk)", klass=kl)
            else:
                rep.violation("correspondence broken: model and implementation differ on this input (property oracle holds on it)",
                              case=case, model=m, impl=full, theorem="correspondence C09 (per-op snapshots, final disk)",
                              found_input=False)
        else:
            for kl, text in viol:
                rep.violation(text, case=case, model=m, impl=full, theorem="property oracle C09", klass=kl)
    if not coq["ok"]:
        rep.violation("C09 proof obligations no longer check (%d/%d): %s %s" % (
            coq["discharged"], coq["obligations"], "; ".join(coq["lint"] + coq["bad_axioms"]), coq["log"][-1500:]),
            theorem="coq/C09/Properties.v", found_input=False)
    rep.cov.update(evaluations=len(cases), distinct_nontrivial=len(nontrivial),
                   rule="cases = corpus + hand list + random (layout x disk state x op pattern) + stop/close after every k "
                        "(+ exhaustive 3-piece scope in thorough); non-trivial = distinct case in which a check completed and the "
                        "on-disk state has both valid and invalid pieces",
                   samples=samples, input_distribution=stats, mismatches=mism,
                   checks_completed=completed, storage_errors=errors, cases_with_stop_or_close=stops,
                   exhaustive=(tier != "quick"))
    rep.assumptions += ["the disk does not change while a case runs (other than by the library itself)",
                        "torrent size >= 2 bytes (FileList::open's metadata special case not reached)",
                        "ChunkManager never refuses an allocation (no ENOMEM retry)",
                        "SHA-1 has no collision among the pieces of the generated cases"]
