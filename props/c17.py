"""C17 — cross-thread callbacks: proof obligations + deterministic-scheduler correspondence + property oracle.

Correspondence: the extracted Coq model (ocaml/c17_driver.ml) and the REAL torrent::system::Thread code
(harness/c17.cc, real OS threads parked at the LT_VERIF_SCHED schedule points of hooks/c17.patch and
released one step at a time by harness/common/sched.h) run the same client programs under the same
schedule (list of thread indices); per-step logs (thread, label, id words after, interrupt flags,
harness-visible events) and the final queue/flag state must be equal.

The oracle below is evaluated on the IMPLEMENTATION's log only."""
import hashlib
import json
import re

import ltv
from gen import c17 as G


def parse_case(case):
    hd, bds, progs, sched = [x.strip() for x in case.split("/")]
    bodies = [b.split() for b in bds.split(";")] if bds else []
    progs = [p.split() for p in progs.split(";")]
    return bodies, progs, sched


def oracle(case, line):
    """Property C17 on one implementation output line -> list of (klass, text)."""
    if line.startswith(("CRASH", "ERR:", "BADCASE", "MISSING", "MODEL-")):
        return [("crash", "harness/implementation crashed: " + line[:200])]
    bad = []
    bodies, progs, _ = parse_case(case)
    n = len(progs)
    steps_txt, _, tail = line.partition(" | ")
    toks = steps_txt.split()[1:]
    info = {}          # uid -> dict(tgt, kind, id, prev_post)
    posted_ret = []    # uids whose post returned, in order
    ran, ended = {}, set()
    cur = [None] * n   # callback the thread is inside
    snap = [None] * n  # (id, set(uids), own, used_handshake)
    cw_in_cb = {}      # uid -> ids on which the callback itself has begun a cancel-and-wait (mutual cancel: cannot be waited for)
    final = {}         # uid -> klass of the cancel-wait that finalised it
    queue = {(t, k): [] for t in range(n) for k in "ni"}
    batch = [[] for _ in range(n)]
    pending_post = [None] * n   # uid being posted by thread (between p and r)
    first_push = {}    # uid -> bool (pushed into an empty queue)
    interrupted = set()
    ndisp = [0] * n
    disp_oi = [[c == "D:1" for c in p if c.startswith("D:")] for p in progs]
    cur_oi = [False] * n
    last_prev = [None] * n      # (uid, prev word) at the latest pc_fetch_add of the thread
    words_prev = None
    nids = int(case.split()[1])
    words = [0] * nids
    runs_by_key = {}
    state_now = [0] * n
    queued_at_enter = {}
    pushes = skips = 0
    for tok in toks:
        f = tok.split(":")
        t = int(f[0])
        if f[1] == "-":
            continue
        label = f[1]
        words_prev = words
        words = [int(x) for x in f[2].split(",")] if f[2] else []
        state_prev = state_now
        state_now = [int(x) for x in f[3]]
        evs = f[4].split("+") if len(f) > 4 else []
        for e in evs:
            if e[0] == "p":
                m = re.match(r"p(\d+\.\d+)>(\d+)([ni])(-|\d+)$", e)
                u = m.group(1)
                info[u] = dict(tgt=int(m.group(2)), kind=m.group(3), id=None if m.group(4) == "-" else int(m.group(4)))
                pending_post[t] = u
            elif e[0] == "b":
                i = int(e.split("i")[1])
                snap[t] = [i, set(u for u in posted_ret if info[u]["id"] == i), cur[t], False]
                if cur[t] is not None:
                    cw_in_cb.setdefault(cur[t], set()).add(i)
        # mechanism-level tracking from labels
        if label == "cb_fetch_add":
            u = pending_post[t]
            info[u]["prev_post"] = words_prev[info[u]["id"]]
        if label in ("cb_lock", "cbn_lock"):
            u = pending_post[t]
            q = queue[(info[u]["tgt"], info[u]["kind"])]
            first_push[u] = (len(q) == 0)
            q.append(u)
            pushes += 1
        if label == "cb_interrupt":
            u = pending_post[t]
            interrupted.add(u)
            tg = info[u]["tgt"]
            if tg < len(state_prev) and state_prev[tg] == 1 and state_now[tg] != 3:
                bad.append(("first-push-interrupt", "do_interrupt on a polling, not yet interrupted target did not set flag_interrupted"))
        if label == "poll_enter":
            # the timeout decision is taken in this step (fetch_or + has_any_callbacks)
            queued_at_enter[t] = list(queue[(t, "n")] + queue[(t, "i")])
        if label == "poll_wait_full" and queued_at_enter.get(t):
            bad.append(("poll-timeout-wait", "thread %d decided on the FULL poll timeout although callbacks %s were already queued for it when it entered poll (posted while it was not polling, so do_interrupt was a no-op)" % (t, ",".join(queued_at_enter[t]))))
        if label == "pc_store":
            cur_oi[t] = disp_oi[t][ndisp[t]] if ndisp[t] < len(disp_oi[t]) else False
            ndisp[t] += 1
        if label == "pc_lock":
            if batch[t]:
                bad.append(("dispatch-lost", "dispatch loop re-locked with callbacks left in its local batch"))
            if queue[(t, "i")]:
                batch[t], queue[(t, "i")] = queue[(t, "i")], []
            elif not cur_oi[t]:
                batch[t], queue[(t, "n")] = queue[(t, "n")], []
        if label == "pc_fetch_add":
            u = batch[t].pop(0) if batch[t] else None
            last_prev[t] = (u, words_prev[info[u]["id"]] if u and info[u]["id"] is not None else None)
        if label == "pc_skip_sub":
            u, prev = last_prev[t]
            skips += 1
            if u is not None and (prev >> 3) == (info[u]["prev_post"] >> 3):
                bad.append(("skipped-not-cancelled", "callback %s skipped although the id word's generation/flag bits did not change since it was posted" % u))
        if label == "run" and not any(e[0] == "R" for e in evs):
            bad.append(("run-event", "run step without run event"))
        for e in evs:
            if e[0] == "R":
                u, _, th = e[1:].partition("@")
                ran[u] = ran.get(u, 0) + 1
                if ran[u] > 1:
                    bad.append(("runs-twice", "callback %s ran more than once" % u))
                if u in info and int(th) != info[u]["tgt"]:
                    bad.append(("wrong-thread", "callback %s ran on thread %s, posted to %d" % (u, th, info[u]["tgt"])))
                if u in final:
                    bad.append((final[u], "callback %s ran after a cancel-and-wait on its id, begun after its post returned, had returned" % u))
                if u in info and info[u]["id"] is None:
                    h = batch[t].pop(0) if batch[t] else None
                    if h != u:
                        bad.append(("fifo", "id-less callback %s ran out of queue order (expected %s)" % (u, h)))
                else:
                    lu, prev = last_prev[t] or (None, None)
                    if lu != u:
                        bad.append(("fifo", "callback %s ran out of queue order (expected %s)" % (u, lu)))
                    elif (prev >> 3) != (info[u]["prev_post"] >> 3):
                        bad.append(("ran-cancelled", "callback %s ran although its id generation changed between post and dispatch" % u))
                if u in info:
                    key = (u.split(".")[0], info[u]["tgt"], info[u]["kind"])
                    seq = int(u.split(".")[1])
                    if runs_by_key.get(key, -1) > seq:
                        bad.append(("fifo", "callbacks of one poster/target/kind ran out of post order at %s" % u))
                    runs_by_key[key] = max(runs_by_key.get(key, -1), seq)
                cur[t] = u
            elif e[0] == "E":
                ended.add(e[1:])
                cur[t] = None
            elif e[0] == "r":
                u = e[1:]
                posted_ret.append(u)
                pending_post[t] = None
                if first_push.get(u) and u not in interrupted:
                    bad.append(("first-push-interrupt", "post %s pushed into an empty queue but returned without do_interrupt" % u))
            elif e[0] == "e":
                i, us, own, hs = snap[t]
                kl = "cw2-handshake-does-not-wait" if hs else "cancel-final"
                for u in us:
                    if u == own:
                        continue
                    if u in ran and u not in ended and i not in cw_in_cb.get(u, ()):
                        bad.append((kl, "callback %s (post returned before the call) is still running when cancel_callback_and_wait returned on thread %d" % (u, t)))
                    if final.get(u) != "cancel-final":
                        final[u] = kl
                snap[t] = None
        if label.startswith("dl_") and snap[t] is not None:
            snap[t][3] = True
    m = re.search(r"F (\S+) C (\d) Q (\S+)", tail)
    if m:
        if m.group(2) == "1":
            bad.append(("count-overflow", "internal_error: id count overflow"))
        if set(m.group(1)) == {"1"} and m.group(2) == "0":
            queued = sum(int(x) for q in m.group(3).split(",") for x in q.split("."))
            nrun = sum(ran.values())
            if pushes != nrun + skips + queued:
                bad.append(("lost-callback", "at quiescence pushes=%d but runs=%d + skips=%d + still queued=%d" % (pushes, nrun, skips, queued)))
            for w in re.search(r"W (\S*)", tail).group(1).split(","):
                if w and int(w) & 0xf:
                    bad.append(("count-leak", "id word has count/flag bits set at quiescence: " + w))
    # de-duplicate
    seen, out = set(), []
    for b in bad:
        if b not in seen:
            seen.add(b)
            out.append(b)
    return out


def run(rep, tier, seed, replay):
    coq = ltv.coq_build("C17")
    rep.cov.update(obligations=coq["obligations"], discharged=coq["discharged"], checker_cmd=coq["checker_cmd"],
                   theorems=coq["theorems"], axioms_per_theorem=coq["axioms"],
                   trusted_base=ltv.std_trusted_base(coq, [
                       "C++11 atomics taken as sequentially consistent (code uses relaxed/acquire/release); weak CAS modelled as strong CAS (x86)",
                       "atomic::wait(old) modelled as 'enabled iff word != old' (no lost wake-up: each fetch_sub/fetch_and in thread.cc is directly followed by notify_all; checked by reading, not by proof); under the deterministic scheduler the real wait is only entered when it returns at once",
                       "deterministic scheduler harness/common/sched.h and the assumption that the LT_VERIF_SCHED points of hooks/c17.patch cover every shared-memory operation of the modelled functions (24 points; audit: grep of id->/m_callbacks_lock/m_has_ in thread.cc)",
                       "modelled not verified: Poll::do_interrupt reduced to 'sets flag_interrupted of a polling target'; epoll/eventfd wake-up itself is not modelled",
                       "python oracle props/c17.py on the implementation's step log"]))
    model = ltv.build_model("C17")
    impl = ltv.build_harness("c17", ["c17.cc"])
    exhaustive = []
    if replay:
        cases = [json.load(open(replay))["case"]]
        stats = {"replay": 1}
    else:
        cases, stats, enum = G.gen(seed, tier)
        reqs = ["ENUM %d %s" % (lim, p) for p, lim in enum]
        outs = ltv.run_sharded(model, reqs) if reqs else []
        nex = 0
        for (p, lim), o in zip(enum, outs):
            f = o.split()
            exhaustive.append({"program": p, "complete": f[0] == "COMPLETE", "interleavings": len(f) - 1})
            cases += [p + " / " + s for s in f[1:]]
            nex += len(f) - 1
        stats["exhaustive_cases"] = nex
    mo = ltv.run_sharded(model, cases)
    io = ltv.run_sharded(impl, cases)
    nontrivial = set()
    mism = 0
    concrete, noise = [], []
    samples = []
    labels_seen = {}
    for i, case in enumerate(cases):
        m = mo[i] if i < len(mo) else "MISSING"
        o = io[i] if i < len(io) else "MISSING"
        for lab in re.findall(r" \d:([a-z_]+):", o):
            labels_seen[lab] = labels_seen.get(lab, 0) + 1
        if ":R" in o and (":pc_skip_sub:" in o or ":cw_cas:" in o or ":dl_" in o or ":cc_fetch_add:" in o):
            nontrivial.add(hashlib.sha1(o.encode()).digest())
        if len(samples) < 4 and i % 1499 == 7:
            samples.append({"case": case[:300], "impl": o[:400]})
        viol = oracle(case, o)
        # deadlock relative to the model: the model computes which threads finish under this schedule; an
        # implementation run that leaves a thread unfinished and not enabled where the model finishes all of
        # them is a concrete deadlock under exactly this schedule (the single-argument mutual cancel, which
        # deadlocks in the model too, is not flagged)
        mf = re.search(r"\| F (\d+) C", m)
        of = re.search(r"\| F (\d+) C", o)
        if mf and of and set(mf.group(1)) == {"1"} and set(of.group(1)) != {"1"}:
            tail_toks = o.partition(" | ")[0].split()[-12:]
            if tail_toks and all(t.endswith(":-") for t in tail_toks):
                viol.append(("deadlock", "implementation deadlocks (threads finished: %s, nothing enabled) under a schedule on which the model finishes every thread" % of.group(1)))
        if m != o:
            mism += 1
            if viol:
                kl, text = viol[0]
                concrete.append(("model and implementation differ AND the property fails on the implementation: " + text,
                                 dict(case=case, model=m, impl=o, theorem="correspondence C17 (per-step log under the same schedule)", klass=kl)))
            else:
                noise.append(("correspondence broken: model and implementation differ under this schedule (property oracle holds on it)",
                              dict(case=case, model=m, impl=o, theorem="correspondence C17 (per-step log under the same schedule)", found_input=False)))
        else:
            for kl, text in viol:
                concrete.append((text, dict(case=case, model=m, impl=o, theorem="property oracle C17", klass=kl)))
    seen_k = set()
    ordered = [x for x in concrete if not (x[1]["klass"] in seen_k or seen_k.add(x[1]["klass"]))]
    ordered += [x for x in concrete if x not in ordered][:12]
    for text, kw in ordered + noise[:5]:
        rep.violation(text, **kw)
    if not coq["ok"]:
        rep.violation("C17 proof obligations no longer check (%d/%d): %s %s" % (
            coq["discharged"], coq["obligations"], "; ".join(coq["lint"] + coq["bad_axioms"]), coq["log"][-1500:]),
            theorem="coq/C17/Properties.v", found_input=False)
    rep.cov.update(evaluations=len(cases), distinct_nontrivial=len(nontrivial),
                   rule="cases = corpus + hand racy programs x hand schedules + seeded random programs x seeded bursty schedules "
                        "+ ALL interleavings of the listed small programs; non-trivial = distinct implementation log in which a "
                        "callback ran AND a cancel/skip/handshake step occurred",
                   samples=samples, input_distribution=stats, mismatches=mism, labels_exercised=labels_seen,
                   exhaustive=exhaustive, correspondence="deterministic scheduler over real threads (exact per-step log equality)")
    rep.assumptions += ["sequentially consistent atomics", "compare_exchange_weak never fails spuriously",
                        "fewer than 2^28 cancellations per id (28-bit generation counter in the id word)",
                        "at most 3 threads use one id (count field is 3 bits; a thread contributes at most 2)",
                        "no nested process_callbacks inside a callback"]
