"""C17 — cross-thread callbacks: proof obligations + deterministic-scheduler correspondence + property oracle.

Correspondence: the extracted Coq model (ocaml/c17_driver.ml) and the REAL torrent::system::Thread code
(harness/c17.cc, real OS threads parked at the LT_VERIF_SCHED schedule points of hooks/c17.patch and
released one step at a time by harness/common/sched.h) run the same client programs under the same
schedule (list of thread indices); per-step logs (thread, label, id words after, interrupt flags,
harness-visible events) and the final queue/flag state must be equal.

The oracle below is evaluated on the IMPLEMENTATION's log only."""
import hashlib
import json
import re

import ltv
from gen import c17 as G


def parse_case(case):
    hd, bds, progs, sched = [x.strip() for x in case.split("/")]
    bodies = [b.split() for b in bds.split(";")] if bds else []
    progs = [p.split() for p in progs.split(";")]
    return bodies, progs, sched


KNOWN_LABELS = {"cb_fetch_add", "cb_lock", "cb_fetch_sub", "cb_interrupt", "cbn_lock", "cc_fetch_add", "cw_load", "cw_wait",
                "cw_cas", "dl_load", "dl_cas", "dl_fetch_add", "dl_fetch_and", "dl_wload", "dl_wwait", "fx_wake", "pc_store", "pc_lock",
                "pc_fetch_add", "pc_fetch_sub", "pc_skip_sub", "run", "ret", "nop", "poll_enter", "poll_wait_short",
                "poll_wait_full", "poll_leave"}


def parse_steps(line):
    """-> list of dict(t, label, words, state, qs=[(qn, qi, hn, hi)...], evs) ; disabled steps are skipped"""
    steps_txt, _, tail = line.partition(" | ")
    out = []
    for tok in steps_txt.split()[1:]:
        f = tok.split(":")
        if len(f) < 5 or f[1] == "-":
            continue
        qs = []
        for q in f[4].split(","):
            a = q.split(".")
            qs.append((int(a[0]), int(a[1]), a[2][0] == "1", a[2][1] == "1"))
        out.append(dict(t=int(f[0]), label=f[1], words=[int(x) for x in f[2].split(",")] if f[2] else [],
                        state=[int(x) for x in f[3]], qs=qs, evs=f[5].split("+") if len(f) > 5 else []))
    return out, tail


def dispatch_choices(line, n):
    """what each locked section of process_callbacks did on the IMPLEMENTATION, per thread and per dispatch call:
    which of the thread's own queues it emptied and what the two has-flags are afterwards (policy of the code)"""
    if line.startswith(("CRASH", "ERR:", "BADCASE", "MISSING")):
        return None
    steps, _ = parse_steps(line)
    per = [[] for _ in range(n)]
    prev = [(0, 0, False, False)] * n
    for st in steps:
        t = st["t"]
        if st["label"] == "pc_store":
            per[t].append([])
        elif st["label"] == "pc_lock" and per[t] and t < len(st["qs"]) and t < len(prev):
            qn0, qi0, _, _ = prev[t]
            qn1, qi1, hn1, hi1 = st["qs"][t]
            per[t][-1].append("%d%d%d%d" % (qi0 > 0 and qi1 == 0, qn0 > 0 and qn1 == 0, hn1, hi1))
        prev = st["qs"]
    return per


def with_choices(case, per):
    """the case line for the MODEL: each top-level D command of a thread gets the observed choices of its dispatch call"""
    if not per:
        return case
    hd, bds, progs, sched = case.split("/")
    out = []
    for t, p in enumerate(progs.split(";")):
        k = 0
        toks = []
        for c in p.split():
            if c.startswith("D:"):
                if t < len(per) and k < len(per[t]) and per[t][k]:
                    c = c + ":" + ",".join(per[t][k])
                k += 1
            toks.append(c)
        out.append(" " + " ".join(toks) + " ")
    return hd + "/" + bds + "/" + ";".join(out) + "/" + sched


def normalize(m, o):
    """labels the model does not know are plain schedule points: they are not compared"""
    mt, ot = m.split(" "), o.split(" ")
    if len(mt) != len(ot):
        return m, o
    for k in range(len(ot)):
        f = ot[k].split(":")
        if len(f) > 2 and f[1] != "-" and f[1] not in KNOWN_LABELS and f[0].isdigit():
            g = mt[k].split(":")
            f[1] = "*"
            ot[k] = ":".join(f)
            if len(g) > 2 and g[1] != "-":
                g[1] = "*"
                mt[k] = ":".join(g)
    return " ".join(mt), " ".join(ot)


def oracle(case, line):
    """Property C17 on one implementation output line -> list of (klass, text). Only clauses of the property: exactly
    once, on the target thread, FIFO per (poster, target, kind) on the run log, first push interrupts / no full poll
    timeout with queued work, cancel_final, counts drained at quiescence. Nothing about cross-kind order or about how
    a dispatch round batches the queues."""
    if line.startswith("ERR:hang") or (line.startswith("CRASH") and "TIMEOUT" in line):
        return [("hang", "implementation hangs under this schedule: a thread is blocked outside the scheduler's control (real futex / "
                         "lock wait that no controlled thread can end): " + line[:160])]
    if line.startswith(("CRASH", "ERR:", "BADCASE", "MISSING", "MODEL-")):
        return [("crash", "harness/implementation crashed: " + line[:200])]
    bad = []
    bodies, progs, _ = parse_case(case)
    n = len(progs)
    steps, tail = parse_steps(line)
    info = {}          # uid -> dict(tgt, kind, id, prev_post, first)
    posted_ret = []    # uids whose post returned, in order
    ran, ended = {}, set()
    cur = [None] * n   # callback the thread is inside
    snap = [None] * n  # (id, set(uids), own, used_handshake)
    cw_in_cb = {}      # uid -> ids on which the callback itself has begun a cancel-and-wait (mutual cancel)
    final = {}         # uid -> klass of the cancel-wait that finalised it
    final_at = {}      # uid -> index of the step in which that cancel-and-wait returned
    last_check = {}    # thread -> index of its latest pc_fetch_add step (the generation check of the callback it runs next)
    pending_post = [None] * n
    interrupted = set()
    nids = int(case.split()[1])
    words = [0] * nids
    runs_by_key = {}
    state_now = [0] * n
    qs_now = [(0, 0, False, False)] * n
    queued_at_enter = {}
    for sidx, st in enumerate(steps):
        t, label, evs = st["t"], st["label"], st["evs"]
        if label == "pc_fetch_add":
            last_check[t] = sidx
        words_prev, words = words, st["words"]
        state_prev, state_now = state_now, st["state"]
        qs_prev, qs_now = qs_now, st["qs"]
        for e in evs:
            if e[0] == "p":
                m = re.match(r"p(\d+\.\d+)>(\d+)([ni])(-|\d+)$", e)
                u = m.group(1)
                info[u] = dict(tgt=int(m.group(2)), kind=m.group(3), id=None if m.group(4) == "-" else int(m.group(4)))
                if info[u]["id"] is not None and info[u]["id"] < len(words_prev):
                    info[u]["prev_post"] = words_prev[info[u]["id"]]
                pending_post[t] = u
            elif e[0] == "b":
                i = int(e.split("i")[1])
                snap[t] = [i, set(u for u in posted_ret if info[u]["id"] == i), cur[t], False]
                if cur[t] is not None:
                    cw_in_cb.setdefault(cur[t], set()).add(i)
        # the push: the step of a posting thread in which a queue of the target grows (observed, whatever the label)
        u = pending_post[t]
        if u is not None and "first" not in info[u]:
            tg = info[u]["tgt"]
            if tg < len(qs_now) and tg < len(qs_prev):
                if qs_now[tg][0] == qs_prev[tg][0] + 1:
                    info[u]["first"] = qs_prev[tg][0] == 0
                elif qs_now[tg][1] == qs_prev[tg][1] + 1:
                    info[u]["first"] = qs_prev[tg][1] == 0
        if label == "cb_interrupt" and u is not None:
            interrupted.add(u)
            tg = info[u]["tgt"]
            if tg < len(state_prev) and state_prev[tg] == 1 and state_now[tg] != 3:
                bad.append(("first-push-interrupt", "do_interrupt on a polling, not yet interrupted target did not set flag_interrupted"))
        if label == "poll_enter" and t < len(qs_prev):
            # the timeout decision is taken in this step (fetch_or + has_any_callbacks)
            queued_at_enter[t] = qs_prev[t][0] + qs_prev[t][1]
        if label == "poll_wait_full" and queued_at_enter.get(t):
            bad.append(("poll-timeout-wait", "thread %d decided on the FULL poll timeout although %d callback(s) were already queued for it when it entered poll (posted while it was not polling, so do_interrupt was a no-op)" % (t, queued_at_enter[t])))
        for e in evs:
            if e[0] == "R":
                u, _, th = e[1:].partition("@")
                ran[u] = ran.get(u, 0) + 1
                if ran[u] > 1:
                    bad.append(("runs-twice", "callback %s ran more than once" % u))
                if u in info and int(th) != info[u]["tgt"]:
                    bad.append(("wrong-thread", "callback %s ran on thread %s, posted to %d" % (u, th, info[u]["tgt"])))
                if u in final:
                    kl = final[u]
                    if kl != "cancel-final" and last_check.get(t, -1) > final_at.get(u, len(steps)):
                        # every path of the two-argument form raises the generation before it returns; the known defect of
                        # its handshake only concerns callbacks that had ALREADY passed their generation check when the
                        # call returned. This one passed its check afterwards.
                        bad.append(("cancel-final", "callback %s passed its generation check and ran AFTER a two-argument cancel_callback_and_wait on its id, begun after its post returned, had returned" % u))
                    else:
                        bad.append((kl, "callback %s ran after a cancel-and-wait on its id, begun after its post returned, had returned" % u))
                if u in info:
                    key = (u.split(".")[0], info[u]["tgt"], info[u]["kind"])
                    seq = int(u.split(".")[1])
                    if runs_by_key.get(key, -1) > seq:
                        bad.append(("fifo", "callbacks of one poster / target / kind ran out of post order: %s ran after a later one" % u))
                    runs_by_key[key] = max(runs_by_key.get(key, -1), seq)
                cur[t] = u
            elif e[0] == "E":
                ended.add(e[1:])
                cur[t] = None
            elif e[0] == "r":
                u = e[1:]
                posted_ret.append(u)
                pending_post[t] = None
                if u in info and info[u].get("first") and u not in interrupted and "cb_interrupt" in KNOWN_LABELS:
                    bad.append(("first-push-interrupt", "post %s pushed into an empty queue but returned without do_interrupt" % u))
            elif e[0] == "e":
                i, us, own, hs = snap[t]
                kl = "cw2-handshake-does-not-wait" if hs else "cancel-final"
                for u in us:
                    if u == own:
                        continue
                    if u in ran and u not in ended and i not in cw_in_cb.get(u, ()):
                        bad.append((kl, "callback %s (post returned before the call) is still running when cancel_callback_and_wait returned on thread %d" % (u, t)))
                    if final.get(u) != "cancel-final":
                        final[u] = kl
                        final_at.setdefault(u, sidx)
                snap[t] = None
        if label.startswith("dl_") and snap[t] is not None:
            snap[t][3] = True
    # handshake progress (coq/C17/Properties.v handshake_wait_ends_within_2 / notified_waiter_enabled), single id only (so
    # that every dl_fetch_and is on the waited-for id): a thread whose latest step entered wait_for_deadlock's id->wait()
    # (dl_wwait) must be enabled once ANOTHER thread has executed dl_fetch_and (+ notify_all) since - being reported
    # not-enabled ("t:-") then is a lost wake-up of the 0x8 handshake
    if nids == 1:
        hs_wait = {}
        for k, tok in enumerate(line.partition(" | ")[0].split()[1:]):
            f = tok.split(":")
            if len(f) < 2 or not f[0].isdigit():
                continue
            t = int(f[0])
            if f[1] == "-":
                if hs_wait.get(t):
                    bad.append(("handshake-lost-wakeup", "thread %d is still blocked in wait_for_deadlock at schedule step %d although another "
                                                         "thread cleared the 0x8 flag (dl_fetch_and + notify_all) after it began to wait" % (t, k)))
                    break
            else:
                if f[1] == "dl_wwait":
                    hs_wait[t] = False
                else:
                    hs_wait.pop(t, None)
                if f[1] == "dl_fetch_and":
                    for o in hs_wait:
                        if o != t:
                            hs_wait[o] = True
    m = re.search(r"F (\S+) C (\d) Q (\S+)", tail)
    if m:
        if m.group(2) == "1":
            bad.append(("count-overflow", "internal_error: id count overflow"))
        queued = sum(int(x) for q in m.group(3).split(",") for x in q.split("."))
        if set(m.group(1)) == {"1"} and m.group(2) == "0":
            wend = [int(w) for w in re.search(r"W (\S*)", tail).group(1).split(",") if w]
            if queued == 0:
                # exactly once: at quiescence with empty queues every returned post has run, unless its id was cancelled
                for u in posted_ret:
                    if ran.get(u, 0) == 0 and u in info:
                        i = info[u]["id"]
                        if i is None:
                            bad.append(("lost-callback", "id-less callback %s was posted and never ran although every thread finished and all queues are empty" % u))
                        elif i < len(wend) and "prev_post" in info[u] and (wend[i] >> 3) == (info[u]["prev_post"] >> 3):
                            bad.append(("lost-callback", "callback %s never ran although its id was never cancelled and all queues are empty" % u))
            for w in wend:
                if w & 0xf:
                    bad.append(("count-leak", "id word has count/flag bits set at quiescence: %d" % w))
    seen, out = set(), []
    for b in bad:
        if b not in seen:
            seen.add(b)
            out.append(b)
    return out


PROBE_NAMES = ("c17_cancel_increment", "c17_cw_increment", "c17_count_mask", "c17_expected_mask_inv",
               "c17_deadlock_flag", "c17_id_word_bits")


def probe_params(impl):
    """run `harness --params`, write coq/C17/ParamsProbe.v (only if changed)"""
    import os
    out, err, rc = ltv.run_lines(impl, [], args=["--params"], timeout=120)
    vals = {}
    for l in out:
        t = l.split()
        if len(t) == 2 and t[1].isdigit():
            vals[t[0]] = int(t[1])
    lines = ["(* WRITTEN by props/c17.py from `harness/c17.cc --params` (compiled code) on every run. Do not edit. *)",
             "From Coq Require Import NArith.", "Module Probe."]
    for name in PROBE_NAMES:
        lines.append("Definition %s : N := %d%%N." % (name, vals.get(name, 0)))
    lines += ["End Probe.", ""]
    txt = "\n".join(lines)
    path = os.path.join(ltv.COQ, "C17", "ParamsProbe.v")
    old = open(path).read() if os.path.exists(path) else None
    if old != txt:
        tmp = path + ".%d.tmp" % os.getpid()
        with open(tmp, "w") as f:
            f.write(txt)
        os.replace(tmp, path)
    return vals


def run_impl(impl, cases, rep, pilot=64, chunk=4000):
    """Implementation outputs for [cases]. The first [pilot] cases (corpus + hand cases come first) are run on their own, then
    the bulk in chunks: once the implementation HANGS (harness watchdog, result 'ERR:hang ...') on a pilot case or on three
    cases of one chunk, every further hanging case would cost a full watchdog period, so the remaining cases are not run - the
    hangs are reported with their schedules and the rest is marked SKIPPED (neither compared nor counted as violations)."""
    out = ltv.run_sharded(impl, cases[:pilot])
    stop = any(o.startswith("ERR:hang") for o in out)
    while not stop and len(out) < len(cases):
        part = ltv.run_sharded(impl, cases[len(out):len(out) + chunk])
        out += part
        stop = sum(1 for o in part if o.startswith("ERR:hang")) >= 3 or not part
    if len(out) < len(cases):
        rep.cov.update(stopped_after_hang=True, skipped_after_hang=len(cases) - len(out))
        out += ["SKIPPED"] * (len(cases) - len(out))
    return out


def run(rep, tier, seed, replay):
    impl = ltv.build_harness("c17", ["c17.cc"])
    probe = probe_params(impl)
    coq = ltv.coq_build("C17")
    rep.cov.update(obligations=coq["obligations"], discharged=coq["discharged"], checker_cmd=coq["checker_cmd"],
                   theorems=coq["theorems"], axioms_per_theorem=coq["axioms"],
                   trusted_base=ltv.std_trusted_base(coq, [
                       "C++11 atomics taken as sequentially consistent (code uses relaxed/acquire/release); weak CAS modelled as strong CAS (x86)",
                       "atomic::wait(old) is two-phase in the model (returns at once if the word differs, else BLOCKED until a later notify_all on the id; release_store_notifies / no_lost_wakeup_* are theorems); in the harness the real std::atomic::wait / notify_all run, their futex system calls are interposed (harness/common/futex_interpose.h) so that a blocked controlled thread is parked until a controlled thread really notifies its address - relies on libstdc++ implementing atomic wait/notify through syscall(SYS_futex) on the waited 32-bit word",
                       "deterministic scheduler harness/common/sched.h and the assumption that the LT_VERIF_SCHED points of hooks/c17.patch cover every shared-memory operation of the modelled functions (24 points; audit: grep of id->/m_callbacks_lock/m_has_ in thread.cc)",
                       "modelled not verified: Poll::do_interrupt reduced to 'sets flag_interrupted of a polling target'; epoll/eventfd wake-up itself is not modelled",
                       "python oracle props/c17.py on the implementation's step log"]))
    model = ltv.build_model("C17")
    exhaustive = []
    if replay:
        cases = [json.load(open(replay))["case"]]
        stats = {"replay": 1}
    else:
        cases, stats, enum = G.gen(seed, tier)
        reqs = ["ENUM %d %s" % (lim, p) for p, lim in enum]
        outs = ltv.run_sharded(model, reqs) if reqs else []
        nex = 0
        for (p, lim), o in zip(enum, outs):
            f = o.split()
            exhaustive.append({"program": p, "complete": f[0] == "COMPLETE", "interleavings": len(f) - 1})
            cases += [p + " / " + s for s in f[1:]]
            nex += len(f) - 1
        stats["exhaustive_cases"] = nex
    io = run_impl(impl, cases, rep)
    # the model follows the implementation's dispatch policy: the per-lock-section choices observed in the trace are
    # given to the model as part of its dispatch commands (the theorems quantify over all such choices)
    mcases = []
    for case, o in zip(cases, io):
        try:
            per = dispatch_choices(o, len(case.split("/")[2].split(";")))
        except Exception:
            per = None
        mcases.append(with_choices(case, per))
    mo = ltv.run_sharded(model, mcases)
    nontrivial = set()
    mism = 0
    concrete, noise = [], []
    samples = []
    labels_seen = {}
    for i, case in enumerate(cases):
        m = mo[i] if i < len(mo) else "MISSING"
        o = io[i] if i < len(io) else "MISSING"
        if o == "SKIPPED":
            continue
        for lab in re.findall(r" \d:([a-z_]+):", o):
            labels_seen[lab] = labels_seen.get(lab, 0) + 1
        if ":R" in o and (":pc_skip_sub:" in o or ":cw_cas:" in o or ":dl_" in o or ":cc_fetch_add:" in o):
            nontrivial.add(hashlib.sha1(o.encode()).digest())
        if len(samples) < 4 and i % 1499 == 7:
            samples.append({"case": case[:300], "impl": o[:400]})
        m, o = normalize(m, o)
        viol = oracle(case, o)
        # deadlock relative to the model: the model computes which threads finish under this schedule; an
        # implementation run that leaves a thread unfinished and not enabled where the model finishes all of
        # them is a concrete deadlock under exactly this schedule (the single-argument mutual cancel, which
        # deadlocks in the model too, is not flagged)
        mf = re.search(r"\| F (\d+) C", m)
        of = re.search(r"\| F (\d+) C", o)
        if mf and of and set(mf.group(1)) == {"1"} and set(of.group(1)) != {"1"}:
            tail_toks = o.partition(" | ")[0].split()[-12:]
            if tail_toks and all(t.endswith(":-") for t in tail_toks):
                viol.append(("deadlock", "implementation deadlocks (threads finished: %s, nothing enabled) under a schedule on which the model finishes every thread" % of.group(1)))
        if m != o:
            mism += 1
            if viol:
                kl, text = viol[0]
                concrete.append(("model and implementation differ AND the property fails on the implementation: " + text,
                                 dict(case=case, model=m, impl=o, theorem="correspondence C17 (per-step log under the same schedule)", klass=kl)))
            else:
                noise.append(("correspondence broken: model and implementation differ under this schedule (property oracle holds on it)",
                              dict(case=case, model=m, impl=o, theorem="correspondence C17 (per-step log under the same schedule)", found_input=False)))
        else:
            for kl, text in viol:
                concrete.append((text, dict(case=case, model=m, impl=o, theorem="property oracle C17", klass=kl)))
    seen_k = set()
    ordered = [x for x in concrete if not (x[1]["klass"] in seen_k or seen_k.add(x[1]["klass"]))]
    ordered += [x for x in concrete if x not in ordered][:12]
    for text, kw in ordered + noise[:5]:
        rep.violation(text, **kw)
    if not coq["ok"]:
        rep.violation("C17 proof obligations no longer check (%d/%d): %s %s" % (
            coq["discharged"], coq["obligations"], "; ".join(coq["lint"] + coq["bad_axioms"]), coq["log"][-1500:]),
            theorem="coq/C17/Properties.v", found_input=False)
    rep.cov.update(evaluations=len(cases), distinct_nontrivial=len(nontrivial),
                   rule="cases = corpus + hand racy programs x hand schedules + seeded random programs x seeded bursty schedules "
                        "+ ALL interleavings of the listed small programs; non-trivial = distinct implementation log in which a "
                        "callback ran AND a cancel/skip/handshake step occurred",
                   samples=samples, input_distribution=stats, mismatches=mism, labels_exercised=labels_seen,
                   exhaustive=exhaustive, correspondence="deterministic scheduler over real threads (exact per-step log equality)")
    rep.assumptions += ["sequentially consistent atomics", "compare_exchange_weak never fails spuriously",
                        "fewer than 2^28 cancellations per id (28-bit generation counter in the id word)",
                        "at most 3 threads use one id (count field is 3 bits; a thread contributes at most 2)",
                        "no nested process_callbacks inside a callback"]
