"""C11 — unchoke slots within limits, consistently accounted: proof obligations + correspondence
(real choke_queue/ResourceManager/PeerConnectionBase vs extracted Coq model, state dump after every
op) + property oracle evaluated on the IMPLEMENTATION's dumps."""
import hashlib
import json
import re

import ltv
from gen import c11 as G

UNL = 4294967295

# how often the hypotheses of fairness_k_waiters / fairness_tick_groups held on an implementation transition
FAIR = {"cycle_fit": 0, "cycle_not_fit": 0, "tick_all_groups_fit": 0, "tick_not_fit": 0, "waiters_checked": 0, "k_hist": {},
        "request_by_alternate": 0, "request_by_quota": 0, "groups_hist": {}}


def group_fits(h, g, quota):
    """hypotheses of fairness_k_waiters for group g of parsed half h (coq: ProofsFair2.group_fits): no min_slots
    reservations, room below max_slots for every waiter, currently_queued <= cycle_request. Returns
    (fits, waiters, request_driven_by_alternate)."""
    q = h["Q"][g]
    ents = [h["T"][t] for t in q["ents"] if 0 <= t < len(h["T"])]
    waiters = [c for e in ents for c in e["q"]]
    if any(e["min"] != 0 for e in ents) or any(len(e["q"]) + len(e["u"]) > e["max"] for e in ents):
        return False, waiters, False
    req = G.cycle_request(quota, q["max"], max(q["cu"], 0))
    q1 = min(quota, q["max"])
    by_alt = not (q["cu"] < q1 and q1 - q["cu"] >= G.max_alternate(max(q["cu"], 0)))
    return q["cq"] <= req, waiters, by_alt


def check_fair(op, hp, hn, side):
    """fairness_k_waiters (direct cycle) and fairness_tick_groups (tick without a global maximum) on ONE transition of
    the implementation: when the hypotheses hold in the state before, every waiting connection is unchoked after."""
    bad = []
    todo = []
    if op[0] == "CY" and len(op) == 4 and op[1] == side[0] and int(op[2]) < len(hp["Q"]):
        g = int(op[2])
        fits, waiters, by_alt = group_fits(hp, g, int(op[3]))
        FAIR["cycle_fit" if fits and waiters else "cycle_not_fit"] += 1
        if fits and waiters:
            todo.append((g, waiters, by_alt, "cycle(%s)" % op[3], "fit-waiter-not-unchoked"))
    elif op[0] == "TK" and hp["max"] == 0 and hp["Q"]:
        res = [group_fits(hp, g, UNL) for g in range(len(hp["Q"]))]
        allw = [c for _, w, _ in res for c in w]
        if all(f for f, _, _ in res) and allw:
            FAIR["tick_all_groups_fit"] += 1
            ngw = sum(1 for _, w, _ in res if w)
            FAIR["groups_hist"][ngw] = FAIR["groups_hist"].get(ngw, 0) + 1
            for g, (f, w, by_alt) in enumerate(res):
                if w:
                    todo.append((g, w, by_alt, "receive_tick without a global maximum", "fit-waiter-not-unchoked-tick"))
        else:
            FAIR["tick_not_fit"] += 1
    for g, waiters, by_alt, what, kl in todo:
        k = len(waiters)
        FAIR["k_hist"][k] = FAIR["k_hist"].get(k, 0) + 1
        FAIR["request_by_alternate" if by_alt else "request_by_quota"] += 1
        FAIR["waiters_checked"] += k
        left = [c for c in waiters if c >= len(hn["C"]) or not hn["C"][c]["u"]]
        if left:
            bad.append((kl, "%s queue %d: %s with %d waiting connections that fit the cycle's request (no min_slots, room below max_slots) "
                        "left connection(s) %s choked (fairness_k_waiters: one cycle unchokes every waiter)" % (side, g, what, k, left)))
    return bad


def parse_half(s):
    toks = s.split(" ")
    cur, mx = toks[0].split("/")
    h = {"cur": int(cur), "max": int(mx), "Q": [], "T": [], "C": []}
    for t in toks[1:]:
        k, _, v = t.partition(":")
        if k[0] == "Q":
            m = re.match(r"(\d+),(-?\d+),(-?\d+),(\d+),\[(.*)\]$", v)
            h["Q"].append({"max": int(m.group(1)), "cq": int(m.group(2)), "cu": int(m.group(3)), "heur": int(m.group(4)),
                           "ents": [int(x) for x in m.group(5).split(".") if x]})
        elif k[0] == "T":
            m = re.match(r"(\d+),(\d+),(-?\d+),(-?\d+),\[(.*)\],\[(.*)\]$", v)
            h["T"].append({"max": int(m.group(1)), "min": int(m.group(2)), "tn": int(m.group(3)), "g": int(m.group(4)),
                           "q": [int(x) for x in m.group(5).split(".") if x], "u": [int(x) for x in m.group(6).split(".") if x]})
        elif k[0] == "C":
            fl, _, tlc = v.partition(",")
            h["C"].append({"a": fl[0] == "1", "q": fl[1] == "1", "u": fl[2] == "1", "s": fl[3] == "1", "r": fl[4] == "1", "t": int(tlc)})
    return h


def parse_dump(d):
    m = re.match(r"(-?\d+) U\{(.*)\} D\{(.*)\}$", d)
    return int(m.group(1)), parse_half(m.group(2)), parse_half(m.group(3))


def check_counters(h, ctor, side):
    """counters_inv on one half. ctor: connection -> torrent."""
    bad = []
    for g, q in enumerate(h["Q"]):
        if q["cq"] != sum(len(h["T"][t]["q"]) for t in q["ents"] if 0 <= t < len(h["T"])):
            bad.append(("counter-queue-queued", "%s queue %d: currently_queued != sum of entry.queued sizes" % (side, g)))
        if q["cu"] != sum(len(h["T"][t]["u"]) for t in q["ents"] if 0 <= t < len(h["T"])):
            bad.append(("counter-queue-unchoked", "%s queue %d: currently_unchoked != sum of entry.unchoked sizes" % (side, g)))
        if len(set(q["ents"])) != len(q["ents"]):
            bad.append(("group-container", "%s queue %d lists an entry twice" % (side, g)))
    for t, e in enumerate(h["T"]):
        if e["tn"] != len(e["u"]):
            bad.append(("counter-torrent", "%s torrent %d: DownloadInfo unchoked counter != |entry.unchoked|" % (side, t)))
        for g, q in enumerate(h["Q"]):
            if (t in q["ents"]) != (e["g"] == g):
                bad.append(("group-container", "%s torrent %d: group container membership differs from its choke group" % (side, t)))
        for l in (e["q"], e["u"]):
            if len(set(l)) != len(l):
                bad.append(("entry-duplicate", "%s torrent %d: a connection is listed twice" % (side, t)))
            for c in l:
                if c < 0 or c >= len(h["C"]) or not h["C"][c]["a"] or ctor[c] != t:
                    bad.append(("entry-foreign", "%s torrent %d lists a closed/foreign connection %d" % (side, t, c)))
    if h["cur"] != sum(q["cu"] for q in h["Q"]):
        bad.append(("counter-global", "%s global currently unchoked != sum over groups" % side))
    for c, s in enumerate(h["C"]):
        if not s["a"]:
            continue
        e = h["T"][ctor[c]]
        if (c in e["u"]) != s["u"]:
            bad.append(("status-unchoked", "%s connection %d: in entry.unchoked iff status unchoked fails" % (side, c)))
        if (c in e["q"]) != (s["q"] and not s["u"] and not s["s"]):
            bad.append(("status-queued", "%s connection %d: in entry.queued iff queued && !unchoked && !snubbed fails" % (side, c)))
        if s["u"] and (s["s"] or not s["q"]):
            bad.append(("slot-held", "%s connection %d: snubbed or uninterested connection holds a slot" % (side, c)))
    return bad


def forced(e):
    return min(e["min"], e["max"], len(e["q"]) + len(e["u"]))


def check_limits(op, prev, nxt, side):
    """limits on one transition of one half (prev/nxt parsed halves).
    Slots forced by per-torrent min_slots (uploads_min / downloads_min) are carved out explicitly:
    a configuration whose min slots exceed a maximum is contradictory, the code honours the minimum.
    forced(e) = min(min_slots, max_slots, connections of the entry)."""
    bad = []
    k = op[0]
    mine = len(op) > 1 and op[1] == side[0]
    # (1) no op raises a per-torrent count above max_slots
    for t, (a, b) in enumerate(zip(prev["T"], nxt["T"])):
        if len(b["u"]) > len(a["u"]) and len(b["u"]) > b["max"] and len(b["u"]) > forced(b):
            bad.append(("limit-torrent", "%s torrent %d: op %s raised unchoked to %d above max_slots %d" % (side, t, k, len(b["u"]), b["max"])))
    # (2) no op raises a per-group count above max(max_unchoked, forced in that group); a group move
    #     carries the moved entry's connections with it (the code defers to the next balancing)
    # Slots forced by min_slots are exempt per torrent: what counts against a maximum is
    #   ex(T) = sum_t max(0, |unchoked_t| - forced_t).  An op is at fault if it raises a count and ex ends
    #   above both the maximum and its previous value (a maximum that was lowered, or a group that was
    #   moved, is only enforced at the next balance/tick; min_slots fills are never at fault).
    def ex(h, ts):
        return sum(max(0, len(h["T"][t]["u"]) - forced(h["T"][t])) for t in ts if 0 <= t < len(h["T"]))
    if k != "SG":
        for g, (a, b) in enumerate(zip(prev["Q"], nxt["Q"])):
            if b["cu"] > a["cu"] and b["max"] != UNL and ex(nxt, b["ents"]) > max(b["max"], ex(prev, a["ents"])):
                bad.append(("limit-queue", "%s queue %d: op %s raised unchoked to %d above max_unchoked %d" % (side, g, k, b["cu"], b["max"])))
    # (3) global maximum (the direct CY op takes its quota as an argument; the global maximum enters through
    #     the quota ResourceManager::balance_unchoked computes, i.e. through TK, checked in the sum form below)
    fq = [sum(forced(nxt["T"][t]) for t in q["ents"]) for q in nxt["Q"]]
    excess = sum(max(0, q["cu"] - f) for q, f in zip(nxt["Q"], fq))
    any_forced = any(f > 0 for f in fq)
    allt = range(len(nxt["T"]))
    if nxt["max"] != 0 and k != "CY" and k != "TK" and nxt["cur"] > prev["cur"] and ex(nxt, allt) > max(nxt["max"], ex(prev, range(len(prev["T"])))):
        if side == "download" and k in ("Q", "R"):
            # exactly the known finding: choke_group::m_down_queue is built with flag_unchoke_all_new, so
            # set_queued / set_not_snubbed do not consult retrieve_download_can_unchoke before the next tick
            bad.append(("download-unchoke-all-new", "download: op %s raised the global unchoked count to %d above max_download_unchoked %d "
                        "(flag_unchoke_all_new bypasses the global maximum until the next tick)" % (k, nxt["cur"], nxt["max"])))
        else:
            bad.append(("limit-global", "%s: op %s raised the global unchoked count to %d above the maximum %d (forced by min_slots: %d)"
                        % (side, k, nxt["cur"], nxt["max"], sum(fq))))
    # (4) cycle / tick end within quota
    if k == "CY" and mine:
        g = int(op[2])
        if g < len(nxt["Q"]):
            q = nxt["Q"][g]
            quota = min(int(op[3]), q["max"])
            if q["cu"] > max(quota, fq[g]):
                bad.append(("cycle-quota", "%s queue %d: cycle(%s) ended with %d unchoked (forced %d)" % (side, g, op[3], q["cu"], fq[g])))
    if k == "TK":
        if nxt["max"] != 0 and excess > nxt["max"]:
            if any_forced:
                # regression class of the defect repaired in 8c9c20f (quota wrapped in balance_unchoked)
                bad.append(("tick-quota-underflow", "%s: receive_tick left %d unchoked, %d beyond those forced by min_slots, with global maximum %d"
                            % (side, nxt["cur"], excess, nxt["max"])))
            else:
                bad.append(("limit-global-tick", "%s: receive_tick left %d unchoked above the global maximum %d" % (side, nxt["cur"], nxt["max"])))
        for g, q in enumerate(nxt["Q"]):
            if q["max"] != UNL and q["cu"] > max(q["max"], fq[g]):
                bad.append(("limit-queue-tick", "%s queue %d: receive_tick left %d unchoked above max_unchoked %d" % (side, g, q["cu"], q["max"])))
    return bad


def oracle(case, line):
    """Property C11 on ONE implementation output line. Returns list of (klass, text)."""
    if line.startswith("CRASH") or line.startswith("ERR") or line.startswith("MISSING") or line == "BADCASE":
        return [("crash", "harness crashed or raised: " + line[:200])]
    ops = [o.strip() for o in case.split(";")][1:]
    ops = [o.split(":")[0].split() for o in ops if o]
    dumps = line.split(" ; ")
    bad = []
    ctor = []
    prev = None
    # what each peer last declared (INTERESTED / NOT_INTERESTED on the upload side; remote UNCHOKE while we
    # are interested / CHOKE or loss of interest on the download side), independent of the client's flags
    decl = {"u": {}, "d": {}}
    rot = {"upload": {"n": 0, "elig": set(), "seen": set()}, "download": {"n": 0, "elig": set(), "seen": set()}}
    for i, d in enumerate(dumps):
        op = ops[i - 1] if i > 0 else ["init"]
        if d.startswith("ERR"):
            # cycle_no_throw / no internal_error on any op list
            bad.append(("internal-error", "op %s raised %s" % (" ".join(op), d)))
            break
        now, up, dn = parse_dump(d)
        if op[0] == "N" and len(up["C"]) > len(ctor):
            ctor.append(int(op[1]))
        if op[0] in ("Q", "U", "K") and len(op) == 3 and op[1] in decl:
            c = int(op[2])
            if c < len(up["C"]) and (prev is None or (c < len(prev[1]["C"]) and prev[1]["C"][c]["a"])):
                decl[op[1]][c] = (op[0] == "Q")
        for side, h in (("upload", up), ("download", dn)):
            bad += check_counters(h, ctor, side)
            for c, s in enumerate(h["C"]):
                if not s["a"]:
                    continue
                want = decl[side[0]].get(c, False)
                if s["q"] and not want:
                    bad.append(("interest-record", "%s connection %d: recorded as interested/queued although its last declaration was not-interested" % (side, c)))
                if s["u"] and not want:
                    bad.append(("slot-held-uninterested", "%s connection %d holds a slot although it is not interested" % (side, c)))
                if want and not s["s"] and not s["q"]:
                    bad.append(("snub-forgets-interest", "%s connection %d: interested and not snubbed, but the client no longer records its interest "
                                "(set_snubbed cleared the queued flag; the peer is never unchoked again)" % (side, c)))
        if prev is not None:
            bad += check_limits(op, prev[1], up, "upload")
            bad += check_limits(op, prev[2], dn, "download")
            # zero_on_close for the closed connection: it is in no list afterwards (check_counters'
            # entry-foreign) ; deterministic rotation: a cycle with quota >= 1 and a candidate unchokes someone new
        # ---- rotation (fairness clause). Static conditions under which the quota of a tick is exactly the
        #      global maximum and nothing else limits the choice: one group, no per-torrent/per-group limits.
        if prev is not None:
            for side, hp, hn in (("upload", prev[1], up), ("download", prev[2], dn)):
                st = rot[side]
                plain = (len(hp["Q"]) == 1 and hp["Q"][0]["max"] == UNL and hp["max"] >= 1 and
                         all(e["max"] == UNL and e["min"] == 0 for e in hp["T"]))
                elig = lambda h: set(c for c, x in enumerate(h["C"]) if x["a"] and x["q"] and not x["s"])
                if op[0] == "TK" and plain:
                    waiting = set(c for c in elig(hp) if not hp["C"][c]["u"])
                    full = hp["Q"][0]["cu"] == hp["max"]
                    # (a) cycle_rotates: all slots taken and somebody waiting => the tick gives a slot to a waiting peer
                    if full and waiting and not any(hn["C"][c]["u"] for c in waiting if c < len(hn["C"])):
                        bad.append(("rotation-stalled", "%s: receive_tick with all %d slots taken and %d interested peers waiting unchoked none of them "
                                    "(no rotation: waiting peers can never get a slot)" % (side, hp["max"], len(waiting))))
                    # (b) coverage over a streak of ticks with constant interest (upload side: random() breaks ties)
                    if st["n"] == 0:
                        st["elig"], st["seen"] = elig(hp), set(c for c in elig(hp) if hp["C"][c]["u"])
                    st["n"] += 1
                    st["elig"] &= elig(hn)
                    st["seen"] |= set(c for c, x in enumerate(hn["C"]) if x["u"])
                    k = len(st["elig"]) - hp["max"]
                    if side == "upload" and k >= 1 and st["n"] >= 40 * (k + 1) and (st["elig"] - st["seen"]):
                        bad.append(("rotation-starvation", "upload: after %d consecutive ticks with constant interest (%d slots, %d interested) "
                                    "connection(s) %s never got a slot" % (st["n"], hp["max"], len(st["elig"]), sorted(st["elig"] - st["seen"]))))
                elif op[0] != "AD":
                    st["n"] = 0
        if prev is not None:
            bad += check_fair(op, prev[1], up, "upload")
            bad += check_fair(op, prev[2], dn, "download")
        prev = (now, up, dn)
        if bad:
            break
    # zero_on_close: every connection closed => all counters zero
    if prev is not None and not bad:
        _, up, dn = prev
        for side, h in (("upload", up), ("download", dn)):
            if all(not c["a"] for c in h["C"]):
                if h["cur"] != 0 or any(q["cq"] or q["cu"] for q in h["Q"]) or any(e["tn"] or e["q"] or e["u"] for e in h["T"]):
                    bad.append(("zero-on-close", "%s: all connections closed but a counter/list is not empty" % side))
    return bad


def nontrivial(line):
    """at least one connection was unchoked at some point and at least one choke happened"""
    return bool(re.search(r"C\d+:1.1", line)) and bool(re.search(r"C\d+:1.0..,[1-9]", line))


def probe_params(impl):
    """run `harness --params`, write coq/C11/ParamsProbe.v (only if changed), return the values"""
    import os
    out, err, rc = ltv.run_lines(impl, [], args=["--params"], timeout=120)
    vals = {}
    for l in out:
        t = l.split()
        if len(t) >= 2:
            vals[t[0]] = [int(x) for x in t[1:]]
    def n(name):
        return vals[name][0] if name in vals and len(vals[name]) == 1 else 0
    lines = ["(* WRITTEN by props/c11.py from `harness/c11.cc --params` (compiled code) on every run. Do not edit. *)",
             "From Coq Require Import NArith ZArith List.", "Import ListNotations.", "Module Probe."]
    for name in ("heur_rows", "order_base", "order_max_size"):
        lines.append("Definition %s : N := %d%%N." % (name, n(name)))
    for i in range(4):
        for w in ("choke_w%d" % i, "unchoke_w%d" % i):
            lines.append("Definition %s : list N := [%s]%%N." % (w, "; ".join(str(x) for x in vals.get(w, []))))
    lines.append("Definition global_max_cap : N := %d%%N." % n("global_max_cap"))
    for name in ("hold_queued_us", "hold_unsnub_us"):
        v = n(name) if name in vals else -3
        lines.append("Definition %s : Z := %s%%Z." % (name, ("(%d)" % v) if v < 0 else str(v)))
    lines += ["End Probe.", ""]
    txt = "\n".join(lines)
    path = os.path.join(ltv.COQ, "C11", "ParamsProbe.v")
    old = open(path).read() if os.path.exists(path) else None
    if old != txt:
        tmp = path + ".%d.tmp" % os.getpid()
        with open(tmp, "w") as f:
            f.write(txt)
        os.replace(tmp, path)
    flat = {k: (v[0] if len(v) == 1 else v) for k, v in vals.items()}
    return flat, txt


def source_crosscheck(probe):
    """optional: the old anchored regexes on the source text; only disagreements of MATCHING regexes are noted"""
    import importlib.util, os, re
    spec = importlib.util.spec_from_file_location("params_c11", os.path.join(ltv.VERIF, "gen", "params_c11.py"))
    m = importlib.util.module_from_spec(spec)
    spec.loader.exec_module(m)
    notes = []
    names = {"c11_heur_rows": "heur_rows", "c11_order_base": "order_base", "c11_order_max_size": "order_max_size",
             "c11_global_max_cap": "global_max_cap"}
    for ent in getattr(m, "CROSSCHECK", []):
        name, rel, rx = ent[0], ent[1], ent[2]
        try:
            src = open(os.path.join(ltv.REPO, rel), errors="replace").read()
        except OSError:
            continue
        mm = re.search(rx, src, flags=re.S)
        if not mm or name not in names:
            continue
        try:
            val = ent[4](mm) if len(ent) > 4 else int(eval(mm.group(1).replace("(", "").replace(")", ""), {}))
        except Exception:
            continue
        if isinstance(val, int) and val != probe.get(names[name]):
            notes.append("%s: source regex says %s, compiled code says %s" % (name, val, probe.get(names[name])))
    return notes


def run(rep, tier, seed, replay):
    # constants of the COMPILED code (probe), written to coq/C11/ParamsProbe.v before the Coq build
    impl = ltv.build_harness("c11", ["c11.cc"])
    probe, probe_txt = probe_params(impl)
    coq = ltv.coq_build("C11")
    rep.cov.update(obligations=coq["obligations"], discharged=coq["discharged"], checker_cmd=coq["checker_cmd"],
                   theorems=coq["theorems"], axioms_per_theorem=coq["axioms"],
                   trusted_base=ltv.std_trusted_base(coq, [
                       "modelled not verified: std::sort on <= 16 elements as stable insertion sort (libstdc++), std::vector as list, "
                       "uint32 counters as unbounded Z (explicit wrap only in balance_unchoked's quota), random() and Rate::rate() as inputs",
                       "replicated in the harness instead of called: the 4 counter lines of PeerConnectionBase::cleanup, the m_down_unchoked / "
                       "m_down_interested assignments around choke_queue calls in PeerConnection::read_message, 'm_currently += cycle()' for the direct CY op",
                       "not modelled: ResourceManager vector/iterator bookkeeping (validate_group_iterators runs in the harness), "
                       "ResourceManager::erase, CHOKE/UNCHOKE bytes on the wire (m_send_choked; needs the session harness)",
                       "python oracle props/c11.py (counters_inv / limits / zero_on_close on implementation dumps)"]))
    model = ltv.build_model("C11")
    menv = {"C11_HOLD_QUEUED_US": str(probe.get("hold_queued_us", 10000000)), "C11_HOLD_UNSNUB_US": str(probe.get("hold_unsnub_us", 10000000))}
    if replay:
        cases = [json.load(open(replay))["case"]]
        cases = [c for c in cases if not c.startswith("WIRE ")]
        stats = {"replay": 1}
    else:
        cases, stats = G.gen(seed, tier)
    mo = ltv.run_sharded(model, cases, env=menv)
    io = ltv.run_sharded(impl, cases)
    nt = set()
    mism = 0
    nops = 0
    samples = []
    for i, case in enumerate(cases):
        m = mo[i] if i < len(mo) else "MISSING"
        o = io[i] if i < len(io) else "MISSING"
        nops += o.count(" ; ")
        if nontrivial(o):
            nt.add(hashlib.sha1(case.encode()).digest())
        if len(samples) < 4 and i % 499 == 7:
            samples.append({"case": case[:300], "impl_last_dump": o.split(" ; ")[-1][:400]})
        viol = oracle(case, o)
        if m != o:
            mism += 1
            if viol:
                kl, text = viol[0]
                rep.violation("model and implementation differ AND the property fails on the implementation: " + text,
                              case=case, model=m[-1500:], impl=o[-1500:], theorem="correspondence C11 (state dump after every op)", klass=kl)
            else:
                rep.violation("correspondence broken: model and implementation differ on this op list (property oracle holds on it)",
                              case=case, model=m[-1500:], impl=o[-1500:], theorem="correspondence C11 (state dump after every op)", found_input=False)
        else:
            seen = set()
            for kl, text in viol:
                if kl in seen:
                    continue
                seen.add(kl)
                rep.violation(text, case=case, model=m[-1500:], impl=o[-1500:], theorem="property oracle C11", klass=kl)
    # ---- the wire clause, session level: real client + scripted wire peers; the extracted acceptor
    #      wire_accept (proved complete for the m_send_choked model, ProofsWire.v) runs on the trace
    wire_n = wire_steps = 0
    if not replay or json.load(open(replay)).get("case", "").startswith("WIRE "):
        if replay:
            wcases = [json.load(open(replay))["case"][5:]]
        else:
            wcases = G.gen_wire(seed, tier)
        impl_s = ltv.build_harness("c11s", ["c11s.cc", "common/session.cc"], libs=["-lcrypto"])
        wo = ltv.run_sharded(impl_s, wcases, shards=4)
        wlines = ["W %s %s" % (c.split(";")[0].strip(), o) for c, o in zip(wcases, wo)]
        acc = ltv.run_sharded(model, wlines)
        for c, o, a in zip(wcases, wo, acc):
            wire_n += 1
            wire_steps += o.count(" ") + 1
            if o.startswith("ERR") or o.startswith("CRASH") or o == "BADCASE":
                rep.violation("wire clause: the session harness raised: " + o[:200], case="WIRE " + c, impl=o[:1500],
                              theorem="wire_matches_record (session trace)", klass="wire-crash")
            elif a != "ACCEPT":
                rep.violation("wire clause: at quiescence the last CHOKE/UNCHOKE a peer received differs from the client's record m_up_choke (%s)" % a,
                              case="WIRE " + c, model=a, impl=o[:1500], theorem="wire_matches_record / wire_accept (session trace)", klass="wire-mismatch")
    if not coq["ok"]:
        rep.violation("C11 proof obligations no longer check (%d/%d): %s %s" % (
            coq["discharged"], coq["obligations"], "; ".join(coq["lint"] + coq["bad_axioms"]), coq["log"][-1500:]),
            theorem="coq/C11/Properties.v", found_input=False)
    rep.cov.update(evaluations=len(cases), op_steps=nops, distinct_nontrivial=len(nt),
                   rule="cases = corpus + hand list + structured histories + malformed histories (+ exhaustive small scope in thorough); "
                        "non-trivial = distinct case in which the implementation unchoked at least one connection and later choked one",
                   probed_params=probe, source_crosscheck_notes=source_crosscheck(probe),
                   samples=samples, input_distribution=stats, mismatches=mism, wire_cases=wire_n, wire_steps=wire_steps,
                   fairness_k_waiters_oracle=dict(FAIR, rule="transitions of the implementation on which the hypotheses of fairness_k_waiters "
                                                  "(CY) / fairness_tick_groups (TK, global maximum 0) held with >= 1 waiter; every waiter was checked to be unchoked after"),
                   exhaustive=(tier == "thorough"))
    rep.assumptions += ["at most 16 connections per entry list and at most 16 choke groups (std::sort is a stable insertion sort there)",
                        "connections are only queued on the download side while the remote has unchoked us (as PeerConnection::read_message does)",
                        "limit changes and group moves take effect at the next balance/tick (as the code documents)",
                        "slots forced by per-torrent min_slots are carved out of every maximum: per group unchoked <= max(max_unchoked, forced), "
                        "globally sum_g max(0, unchoked_g - forced_g) <= max (the max() form over the global sum is false: tick_max_form_refuted)"]
