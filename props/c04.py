"""C04 — block requests are legal, never duplicated, eventually cover the torrent:
proof obligations + acceptor correspondence (session harness, 1-4 scripted conforming peers in
lock step; the extracted `accept` automaton must accept the implementation's mechanism-level
trace, snapshots included) + wire-level property oracle on the implementation's streams."""
import hashlib
import json
import os

import ltv
from gen import c04 as G


# One probe case per structural repair flag (ROBUSTNESS.md rule 3): the flag is what the COMPILED code does on the case.
PROBES = {
    "update_interested_queues": "plen=16384 files=147457,30000 done=00000000000 seed=39033 | J:0:- U:0 W:0:1 H:0:9 A:3 Q:0",
    "have_listed_raises": "plen=32768 files=98304 done=110 seed=5 | J:0:111 U:0 X:0 J:0:- U:0 Q:0",
    "choked_checks_stalled": "plen=16384 files=49152 done=000 seed=7 | J:0:100 U:0 A:250 K:0 U:0 Q:0",
    "pipe_counts_valid": "plen=16384 files=49152 done=001 seed=7 | J:0:100 U:0 J:1:100 U:1 A:31 P:0:0 Q:1",
    "choke_restores_interest": "plen=32768 files=100000,200000 done=0000000000 seed=3 dslots=1 | J:0:1111111111 J:1:1111111111 U:1 A:31 U:0 A:31 A:31 K:1 U:1 X:0 Q:1",
    # not a model flag (the acceptor takes the unordered timer as an observed event): recorded in the evidence only
    "stale_unordered_timer_repaired": "plen=32768 files=100000,200000 done=0000000000 seed=3 | J:0:1111111111 U:0 P:0:1 K:0 U:0 A:40 P:0:1 A:25 P:0:1 A:5 P:0:0 P:0:0 A:31 Q:0",
}


def run_probes(impl):
    names = sorted(PROBES)
    out = ltv.run_sharded(impl, [PROBES[n] for n in names], shards=len(names), timeout=300)
    res = {}
    for n, o in zip(names, out + ["MISSING"] * len(names)):
        if not o.startswith("ev="):
            continue                       # no decision: params fall back to the source text
        if n == "stale_unordered_timer_repaired":
            res[n] = not any(k == "unordered-stale-position-rerequest" for k, _ in G.oracle(PROBES[n], o))
        else:
            res[n] = " done=1 " in o
    path = os.path.join(ltv.BUILD, "c04_probe_%s.json" % ltv.repo_tree_hash())
    tmp = path + ".%d.tmp" % os.getpid()
    with open(tmp, "w") as f:
        json.dump(res, f)
    os.replace(tmp, path)
    return res


def run(rep, tier, seed, replay):
    impl = ltv.build_harness("c04", ["c04.cc", "common/session.cc"])
    probes = run_probes(impl)             # before the Coq build: gen/params_c04.py reads them
    coq = ltv.coq_build("C04")
    rep.cov.update(repair_flags_probed=probes)
    rep.cov.update(obligations=coq["obligations"], discharged=coq["discharged"], checker_cmd=coq["checker_cmd"],
                   theorems=coq["theorems"], axioms_per_theorem=coq["axioms"],
                   trusted_base=ltv.std_trusted_base(coq, [
                       "session harness (harness/common/session.{h,cc}, wirepeer.h) + harness/c04.cc: real library stepped manually "
                       "under a virtual clock, scripted conforming peers on loopback TCP in LOCK STEP (one peer action, library to "
                       "quiescence, peers read); event order inside one step is: injected event, timer events, E/F, then each peer's "
                       "received messages (per-peer order exact, cross-peer order not observable)",
                       "internal events DC/DU/ST/E/F and the Z/Y check events are reconstructed by the harness from private "
                       "snapshots of RequestList buckets, Delegator, FileList bitfield (-fno-access-control, read only)",
                       "liveness layer (xaccept): m_down_interested and download-choke-queue membership are predicted from the events and "
                       "compared with the library in every Z snapshot; LI/QC/QU events are reconstructed from snapshot differences; the four "
                       "repairs are source-extracted flags (fixes_present_now)",
                       "modelled not verified: choke_queue unchoke decisions for the download side (m_down_choke.choked), throttle, m_down_stall "
                       "heuristics of should_request, ChunkSelector's rarity order / random position (the acceptor admits any "
                       "choice inside the delegate relation), hashing (conforming peers: hash always succeeds), timers (observed)",
                       "python wire-level oracle gen/c04.py:oracle evaluated on the implementation's output"]))
    model = ltv.build_model("C04")
    # policy probe: the pipe-size function of the compiled code; side condition of Section PipePolicy: pipe >= 1
    pr = ltv.run_sharded(impl, ["probe-pipe"], shards=1, timeout=120)
    probe = pr[0] if pr else "MISSING"
    pipe_tab, probe_ok = [], False
    if probe.startswith("probe "):
        f = dict(t.split("=", 1) for t in probe.split()[1:])
        pipe_tab = [tuple(int(x) for x in e.split(":")) for e in f.get("pipe", "").split(",") if e]
        probe_ok = len(pipe_tab) > 0
        zeros = [e for e in pipe_tab if e[2] < 1]
        if zeros:
            a, r_, v = zeros[0]
            rep.violation("RequestList::calculate_pipe_size returns %d at rate %d B/s (%s mode): with an empty pipe a lone unchoking "
                          "peer is never sent a REQUEST (side condition `1 <= pipe` of the PipePolicy theorems fails on the "
                          "compiled policy; %d of %d probed points)" % (v, r_, "endgame" if a else "normal", len(zeros), len(pipe_tab)),
                          case="probe-pipe", impl=probe[:2000], theorem="pipe policy side condition (probed)", klass="pipe-zero")
        if f.get("block_size") and int(f["block_size"]) != 16384 and False:
            pass
    if not probe_ok:
        rep.violation("the pipe-size policy of the compiled code could not be probed: " + probe[:200], case="probe-pipe",
                      theorem="pipe policy probe", found_input=False)
    rep.cov.update(pipe_policy_probe=dict(points=len(pipe_tab), min=min([e[2] for e in pipe_tab], default=None),
                                          max=max([e[2] for e in pipe_tab], default=None),
                                          sample=[e for e in pipe_tab if e[1] in (0, 10240, 20480, 24576, 102400, 1048576)]))
    if replay:
        cases = [json.load(open(replay))["case"]]
        stats = {"replay": 1}
    else:
        cases, stats = G.gen(seed, tier)
    io = ltv.run_sharded(impl, cases, timeout=1500, env={"LTV_CASE_TIMEOUT": "30" if tier == "quick" else "60"})
    io = [io[i] if i < len(io) else "MISSING" for i in range(len(cases))]
    mo = ltv.run_sharded(model, [x if x.startswith("ev=") else "NOTRACE-INPUT" for x in io])
    nontrivial, mism, samples = set(), 0, []
    nev = nreq = ncancel = ncomplete = nacc = namb = nre_choke = nre_disc = 0
    evk = {}
    for i, case in enumerate(cases):
        o = io[i]
        m = mo[i] if i < len(mo) else "MISSING"
        ev, done, amb, err = G.parse_trace(o) if o.startswith("ev=") else (None, "-", 0, None)
        viol = G.oracle(case, o)
        if ev:
            nev += len(ev)
            for e in ev:
                evk[e[0]] = evk.get(e[0], 0) + 1
            r = sum(1 for e in ev if e[0] == "R")
            nreq += r
            ncancel += sum(1 for e in ev if e[0] == "C")
            if done == "1":
                ncomplete += 1
            a, b = G.count_reissues(o)
            nre_choke += a
            nre_disc += b
            if r > 0:
                nontrivial.add(hashlib.sha1(case.encode()).digest())
        if len(samples) < 5 and i % 53 == 7:
            samples.append({"case": case[:300], "impl": o[:300] + " ... " + o[-120:], "model": m})
        if amb:
            namb += 1
        accepted = m.startswith("ACCEPT ")
        if accepted:
            nacc += 1
        if not accepted and not amb:
            mism += 1
            if viol:
                kl, text = viol[0]
                rep.violation("the acceptor rejects the implementation's trace (%s) AND the property fails on the implementation: %s"
                              % (m[:80], text), case=case, model=m, impl=o[:20000], theorem="correspondence C04 (accept over the observed trace)", klass=kl)
            else:
                rep.violation("correspondence broken: coq/C04 `accept` rejects the implementation's observed trace (%s); "
                              "the wire-level property oracle holds on it" % m[:80],
                              case=case, model=m, impl=o[:20000], theorem="correspondence C04 (accept over the observed trace)",
                              found_input=False)
        else:
            for kl, text in viol:
                rep.violation(text, case=case, model=m, impl=o[:20000], theorem="property oracle C04", klass=kl)
    if not coq["ok"]:
        rep.violation("C04 proof obligations no longer check (%d/%d): %s %s" % (
            coq["discharged"], coq["obligations"], "; ".join(coq["lint"] + coq["bad_axioms"]), coq["log"][-1500:]),
            theorem="coq/C04/Properties.v", found_input=False)
    stats = dict(stats)
    stats.update(events=evk, requests_seen=nreq, cancels_seen=ncancel, completion_phases_done=ncomplete,
                 traces_accepted=nacc, ambiguous_timer_cases_skipped=namb,
                 blocks_reissued_elsewhere_after_choke_timer=nre_choke, blocks_reissued_elsewhere_after_disconnect=nre_disc)
    rep.cov.update(evaluations=len(cases), distinct_nontrivial=len(nontrivial),
                   rule="cases = corpus + hand list + random swarms (1-4 peers, 8 layouts) with long and short time steps; "
                        "non-trivial = distinct case in which the implementation sent at least one REQUEST",
                   samples=samples, input_distribution=stats, mismatches=mism, trace_events=nev)
    rep.assumptions += ["conforming peers only (data always correct: no hash failure paths)", "plain connections, no throttle",
                        "lock-step delivery: one peer message at a time, the library runs to quiescence before the next",
                        "download choke queue (our own slots) unlimited as by default",
                        "hash results arrive while the harness waits (disk thread in real time)"]
