"""C10 — resume data never resurrects unverified pieces: proof obligations + correspondence of
resume_load_progress (generated resume objects over generated files, then the real hash check)
+ two-lifetime runs judged by the oracle."""
import hashlib
import json

import ltv
from gen import c10 as G


def run(rep, tier, seed, replay):
    # constants and repair flags are measured on the compiled code first (gen/params_c10.py reads the result)
    impl = ltv.build_harness("c10", ["c10.cc", "common/session.cc"])
    import os, subprocess
    pdir = os.path.join(ltv.BUILD, "probe")
    os.makedirs(pdir, exist_ok=True)
    env = dict(os.environ)
    env.setdefault("ASAN_OPTIONS", "detect_leaks=0")
    try:
        pr = subprocess.run([impl, "--probe"], stdout=subprocess.PIPE, stderr=subprocess.PIPE, timeout=180, env=env)
        probe = json.loads(pr.stdout.decode().strip().split("\n")[-1])
        with open(os.path.join(pdir, "c10.json"), "w") as f:
            json.dump(probe, f)
        rep.cov.update(probed_constants=probe)
    except Exception as ex:
        rep.violation("the probe of the compiled code failed (%s)" % str(ex)[:200], theorem="harness c10 --probe", found_input=False)
    coq = ltv.coq_build("C10")
    rep.cov.update(obligations=coq["obligations"], discharged=coq["discharged"], checker_cmd=coq["checker_cmd"],
                   theorems=coq["theorems"], axioms_per_theorem=coq["axioms"],
                   trusted_base=ltv.std_trusted_base(coq, [
                       "session harness (harness/common/session.{h,cc}) + harness/c10.cc: real resume_load_progress / "
                       "resume_save_progress / hash_check in-process; file sizes and mtimes set with utimensat; load_date set "
                       "through DownloadInfo::set_load_date",
                       "modelled not verified: the kernel's stat(); the hash check itself is C09's check_exact (pieces in the "
                       "hashing ranges get their real verdict, the others keep the loaded bit); bencode Object typing as the "
                       "abstract resume record (map / list / value / string distinctions only)",
                       "T cases: a real session history (scripted seeder delivers the missing pieces, virtual time, stop, close + "
                       "reopen), the real resume_save_progress + resume_save_uncertain_pieces, crash (loss set, perturbations), "
                       "real load + check; the saved object (per-file mtime class, bitfield form, uncertain list) and the result "
                       "are compared with the model (saved_mtime, uncertain_saved, hash_succeeded, load, check); real mtimes are "
                       "compared as classes (real / ~0 / ~1 / ~2 / ~3); the completed list's length at the last save (cl=) is "
                       "compared too, which makes the 60/30-minute pruning visible (histories with two download rounds)",
                       "python property oracle gen/c10.py:oracle (bits vs OpenSSL verdict over the files; genuineness of a case)"]))
    model = ltv.build_model("C10")
    if replay:
        cases = [json.load(open(replay))["case"]]
        stats = {"replay": 1}
    else:
        cases, stats = G.gen(seed, tier)
    mo = ltv.run_sharded(model, cases)
    io = ltv.run_sharded(impl, cases, timeout=900)
    nontrivial, mism, samples = set(), 0, []
    outcomes = {"Ignored": 0, "Loaded": 0, "Threw": 0, "T": 0}
    branches = {}
    pruned = inflight = save_unchecked = 0
    for i, case in enumerate(cases):
        m = mo[i] if i < len(mo) else "MISSING"
        full = io[i] if i < len(io) else "MISSING"
        o = full.partition(" || ")[0]
        if full.startswith("SKIPPED-AFTER-HANGS"):
            continue
        viol = G.oracle(case, full)
        if case.startswith("T ") or case.startswith("Tq "):
            outcomes["T"] += 1
            if " unc=" in o and " unc=none" not in o:
                nontrivial.add(hashlib.sha1(case.encode()).digest())
            ndl = sum(len(x.partition("=")[2].split(",")) for x in case.split("|")[2].split() if x.startswith("dl=") or x.startswith("dlhold="))
            nmiss = len([x for x in case.split("|")[1].split(",") if x.strip() not in ("", "-")])
            cl = o.partition(" cl=")[2].split(" ")[0]
            if cl.isdigit() and " dl" in case and int(cl) < (nmiss if " dl " in case + " " else ndl):
                pruned += 1
            if "inflight=" in full and full.partition("inflight=")[2].split(" ")[0] not in ("0", "-"):
                inflight += 1
            if "openonly save" in case:
                save_unchecked += 1
        for br in G.model_branches(case, full):
            branches[br] = branches.get(br, 0) + 1
        for k in ("Ignored", "Loaded", "Threw"):
            if o.startswith("out=" + k):
                outcomes[k] += 1
        if o.startswith("out=Loaded") and "1" in o.partition("ranges=")[2].split()[0] and "1" in o.partition("final=")[2]:
            nontrivial.add(hashlib.sha1(case.encode()).digest())
        if len(samples) < 5 and i % 97 == 11:
            samples.append({"case": case[:300], "impl": full[:400]})
        if m != o:
            mism += 1
            if viol:
                kl, text = viol[0]
                rep.violation("model and implementation differ AND the property fails on the implementation: " + text,
                              case=case, model=m, impl=full, theorem="correspondence C10 (load outcome, bits, ranges, flags, final bits)", klass=kl)
            else:
                rep.violation("correspondence broken: model and implementation differ on this input (property oracle holds on it)",
                              case=case, model=m, impl=full, theorem="correspondence C10 (load outcome, bits, ranges, flags, final bits)",
                              found_input=False)
        else:
            for kl, text in viol:
                rep.violation(text, case=case, model=m, impl=full, theorem="property oracle C10", klass=kl)
    if not coq["ok"]:
        rep.violation("C10 proof obligations no longer check (%d/%d): %s %s" % (
            coq["discharged"], coq["obligations"], "; ".join(coq["lint"] + coq["bad_axioms"]), coq["log"][-1500:]),
            theorem="coq/C10/Properties.v", found_input=False)
    rep.cov.update(evaluations=len(cases), distinct_nontrivial=len(nontrivial),
                   rule="cases = corpus + hand list + honest resume objects + malformed resume objects (L, model compared) + "
                        "two real lifetimes with a session history (T, model compared incl. the saved object); non-trivial = distinct L case that loads, requests a recheck of some "
                        "piece and ends with some piece set",
                   samples=samples, input_distribution=stats, mismatches=mism, outcomes=outcomes, model_branches=dict(sorted(branches.items())),
                   histories_with_pruned_completed_list=pruned, saves_with_pieces_in_flight=inflight,
                   saves_during_hashing=save_unchecked, exhaustive=False)
    rep.assumptions += ["files are readable regular files or absent (C09 covers the other disk states)",
                        "a rewritten file changes size or mtime (seconds) unless the case says otherwise",
                        "padding files only in L cases"]
