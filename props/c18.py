"""C18 — hashing hand-off (HashQueue / HashCheckQueue / disk thread): deterministic-scheduler
correspondence + property oracle on the implementation's log; Coq side: inductive invariants for all programs and
schedules + unbounded deadlock freedom with the looping disk thread (see coq/C18/Properties.v)."""
import hashlib, json, re
import ltv
from gen import c18 as G


def oracle(case, line):
    if line.startswith("ERR:hang") or (line.startswith("CRASH") and "TIMEOUT" in line):
        return [("hang", "implementation hangs under this schedule: a thread is blocked outside the scheduler's control (real futex / "
                         "lock wait that no controlled thread can end): " + line[:160])]
    if line.startswith(("CRASH", "ERR:", "BADCASE", "MISSING", "MODEL-")):
        return [("crash", "harness/implementation crashed: " + line[:200])]
    bad = []
    core, _, extra = line.partition(" # ")
    steps, _, tail = core.partition(" | ")
    toks = steps.split()[1:]
    pushes = sum(1 for t in toks if ":hcq_push_lock:" in t)
    if "BAD" in steps:
        bad.append(("wrong-digest", "a delivered digest differs from SHA-1 of the mapped bytes"))
    m = re.search(r"F (\d\d) E (\d) O (\S*) H (\d+) Q (\d+)\.(\d+) M", tail)
    if not m:
        return [("crash", "unparsable output")]
    fin, err, outs, h = m.group(1), m.group(2), m.group(3), int(m.group(4))
    seen = {}
    for o in [x for x in outs.split(",") if x]:
        c, _, kind = o.partition(":")
        seen.setdefault(c, []).append(kind)
    for c, ks in seen.items():
        if len(ks) > 1:
            bad.append(("notified-twice", "chunk %s notified %d times (%s)" % (c, len(ks), "/".join(ks))))
        if "wrongdigest" in ks:
            bad.append(("wrong-digest", "chunk %s delivered with a wrong digest" % c))
    if err == "1":
        bad.append(("internal-error", "internal_error thrown in the main or disk thread (orphan result / unmapped or invalid chunk)"))
    if pushes != len(seen) + h:
        bad.append(("lost-chunk", "pushed=%d but notified=%d + still queued nodes=%d" % (pushes, len(seen), h)))
    mb = re.search(r" B (\d+)", tail)
    if mb and int(mb.group(1)) != h:
        bad.append(("handle-count", "blocking handle count %s differs from pending nodes %d (mapping released twice or leaked)" % (mb.group(1), h)))
    # state clauses at the end of the case (implementation's own state), sound by the proved invariants
    # (coq/C18/ProofsD.v perf_ok, ProofsE.v): once the main thread has finished its op list
    mq2 = re.search(r" M (\d+)\.(\d+)", tail)
    cqn, dnn = int(m.group(5)), int(m.group(6))
    main_done = fin[0] == "1"
    disk_idle = fin[1] == "1" or (len(toks) >= 12 and all(
        t.endswith(":-") or t.split(":")[0] == "0" or t.split(":")[1] in ("pc_store", "pc_lock") for t in toks[-12:]))
    if mq2 and main_done and disk_idle:
        mqn, dqn = int(mq2.group(1)), int(mq2.group(2))
        if dnn > 0 and mqn == 0:
            bad.append(("stuck-result", "%d result(s) sit in the done map with no work() callback queued or running: the piece(s) will never be answered" % dnn))
        if cqn > 0 and dqn == 0:
            bad.append(("lost-disk-wakeup", "%d piece(s) sit in the check queue with no perform() callback queued or running on the disk thread" % cqn))
    # unbounded deadlock freedom with the disk thread running its event loop (coq/C18/Properties.v
    # handoff_disk_always_enabled / hashing_handoff_no_deadlock; hypotheses: disk program = LOOP, distinct pushes):
    # the disk thread is enabled at every step, and a main thread that is blocked (hq_wait with the flag clear, or
    # m_done_chunks_lock held by chunk_done) is enabled again after at most 4 steps of the disk thread
    parts = [x.strip() for x in case.split("/")]
    plist = [c for c in parts[0].split() if c.startswith("P:")] if len(parts) == 3 else []
    if len(parts) == 3 and parts[1] == "LOOP" and len(set(c.split(":")[1] for c in plist)) == len(plist):
        blocked, cand = None, None
        for k, t in enumerate(toks):
            if t.startswith("1:"):
                if t.endswith(":-"):
                    bad.append(("disk-stuck", "the disk thread (event loop) is not enabled at schedule step %d" % k))
                    break
                if blocked is not None:
                    blocked += 1
            elif t.startswith("0:"):
                if t.endswith(":-"):
                    if blocked is None:
                        blocked = 0
                    elif blocked >= 4 and cand is None:
                        cand = k
                else:
                    if cand is not None:
                        break
                    blocked = None
        if cand is not None and (fin[0] == "0" or any(not t.endswith(":-") for t in toks[cand:] if t.startswith("0:"))):
            bad.append(("main-stuck", "main thread still blocked at schedule step %d after 4 or more steps of the looping disk thread "
                                      "(lost wake-up / lock not released)" % cand))
    # deadlock / lost wake-up: the schedule ends with a long round-robin tail; if a thread is unfinished and
    # nothing was enabled during the last 30 schedule steps, nobody can ever step
    if fin != "11" and len(toks) >= 30 and all(t.endswith(":-") for t in toks[-30:]):
        waiting = [t for t in toks if not t.endswith(":-")]
        bad.append(("deadlock", "no thread enabled although unfinished (last step: %s)" % (waiting[-1] if waiting else "-")))
    return bad


def dw_oracle(case, line):
    """DownloadWrapper side (harness/c18dw.cc): after hash_stop() / close() returned, every piece that was pending on the
    hashing thread has been cancelled CLEANLY: no HashQueue node of the download is left and no ChunkList node keeps a
    reference / blocking mark (nothing would ever release it: the disk thread is done with the download)."""
    if line.startswith(("CRASH", "ERR:", "BADCASE", "MISSING")):
        kl = "hang" if ("ERR:hang" in line or "TIMEOUT" in line) else "crash"
        return [(kl, "c18dw harness/implementation crashed or hung: " + line[:200])]
    bad = []
    body, _, tail = line.partition(" | ")
    for tok in body.split():
        m = re.match(r"([a-z]\d*):(-?\d+)/(\d+)/(\d+)/(\d+)$", tok)
        if not m:
            if tok.startswith("!"):
                bad.append(("internal-error", "internal_error during hash_check / hash_stop / close: " + body[-120:]))
            continue
        op, refs, blocking, nodes = m.group(1), int(m.group(3)), int(m.group(4)), int(m.group(5))
        if op[0] in "sx" and (refs or blocking or nodes):
            bad.append(("cancelled-piece-not-released",
                        "after %s returned %d chunk reference(s) / %d blocking mark(s) / %d hash-queue node(s) of the download remain: "
                        "a piece cancelled while pending on the hashing thread was not released"
                        % ("hash_stop()" if op[0] == "s" else "close()", refs, blocking, nodes)))
    if " E 1" in tail and not bad:
        bad.append(("internal-error", "internal_error during hash_check / hash_stop / close"))
    return bad[:1]


def run_impl(impl, cases, rep, pilot=64, chunk=4000):
    """Implementation outputs for [cases]. The first [pilot] cases (corpus + hand cases come first) are run on their own, then
    the bulk in chunks: once the implementation HANGS (harness watchdog, result 'ERR:hang ...') on a pilot case or on three
    cases of one chunk, every further hanging case would cost a full watchdog period, so the remaining cases are not run - the
    hangs are reported with their schedules and the rest is marked SKIPPED (neither compared nor counted as violations)."""
    out = ltv.run_sharded(impl, cases[:pilot])
    stop = any(o.startswith("ERR:hang") for o in out)
    while not stop and len(out) < len(cases):
        part = ltv.run_sharded(impl, cases[len(out):len(out) + chunk])
        out += part
        stop = sum(1 for o in part if o.startswith("ERR:hang")) >= 3 or not part
    if len(out) < len(cases):
        rep.cov.update(stopped_after_hang=True, skipped_after_hang=len(cases) - len(out))
        out += ["SKIPPED"] * (len(cases) - len(out))
    return out


def run(rep, tier, seed, replay):
    coq = ltv.coq_build("C18")
    rep.cov.update(obligations=coq["obligations"], discharged=coq["discharged"], checker_cmd=coq["checker_cmd"],
                   theorems=coq["theorems"], axioms_per_theorem=coq["axioms"],
                   trusted_base=ltv.std_trusted_base(coq, [
                       "sequentially consistent atomics; atomic<bool>::wait(false) modelled as 'enabled iff flag is true' (the model has no notify count); in the harness a controlled thread that really blocks in atomic<bool>::wait is parked as not-enabled through the interposed futex calls (harness/common/futex_interpose.h) and woken only by a real notify, so an implementation that sleeps where the model proceeds shows up as a deadlock, not as a process hang",
                       "deterministic scheduler harness/common/sched.h ('m:' points are enabled only when the mutex is free) and the schedule points of hooks/c18.patch + committed C17 points",
                       "the cross-thread posts are reduced to C17's id-less post (cbn_lock / cb_interrupt) and process_callbacks to pc_store / pc_lock",
                       "std::map<HashChunk*> iteration order (by address) is not modelled: which done chunk a work() pop delivers is not compared per step, only per-chunk outcomes",
                       "SHA-1 digests checked against OpenSSL in the harness, not in the model"]))
    model = ltv.build_model("C18")
    impl = ltv.build_harness("c18", ["c18.cc"])
    exhaustive = []
    if replay:
        cases = [json.load(open(replay))["case"]]
        cases = [c for c in cases if "/" in c]    # a line without '/' is a DownloadWrapper-side case (c18dw, below)
        stats = {"replay": 1}
    else:
        cases, stats, enum = G.gen(seed, tier)
        outs = ltv.run_sharded(model, ["ENUM %d %s" % (lim, p) for p, lim in enum]) if enum else []
        nex = 0
        for (p, lim), o in zip(enum, outs):
            f = o.split()
            exhaustive.append({"program": p, "complete": f[0] == "COMPLETE", "interleavings": len(f) - 1})
            cases += [p + " / " + s + "01" * 20 for s in f[1:]]
            nex += len(f) - 1
        stats["exhaustive_cases"] = nex
    mo = ltv.run_sharded(model, cases)
    io = run_impl(impl, cases, rep)
    nontrivial, mism, samples = set(), 0, []
    concrete, noise = [], []
    for i, case in enumerate(cases):
        m = mo[i] if i < len(mo) else "MISSING"
        o = io[i] if i < len(io) else "MISSING"
        if o == "SKIPPED":
            continue
        oc = o.partition(" # ")[0]
        if ":G" in oc or ":X" in oc:
            nontrivial.add(hashlib.sha1(oc.encode()).digest())
        if len(samples) < 4 and i % 997 == 3:
            samples.append({"case": case[:200], "impl": o[:400]})
        viol = oracle(case, o)
        # the model proves (and computes) which threads must have finished under this schedule: an
        # implementation run that leaves a thread unfinished where the model finishes it is a concrete
        # lost wake-up / deadlock (or a step-count divergence) under exactly this schedule
        mf = re.search(r"\| F (\d\d)", m)
        of = re.search(r"\| F (\d\d)", oc)
        if mf and of and mf.group(1) == "11" and of.group(1) != "11" and not any(k == "deadlock" for k, _ in viol):
            viol.append(("deadlock", "implementation leaves thread(s) unfinished (F=%s) under a schedule on which the model finishes both" % of.group(1)))
        if m != oc:
            mism += 1
            if viol:
                concrete.append(("model and implementation differ AND the property fails on the implementation: " + viol[0][1],
                                 dict(case=case, model=m, impl=o, theorem="correspondence C18 (per-step log under the same schedule)", klass=viol[0][0])))
            else:
                noise.append(("correspondence broken: model and implementation differ under this schedule (property oracle holds on it)",
                              dict(case=case, model=m, impl=o, theorem="correspondence C18 (per-step log under the same schedule)", found_input=False)))
        else:
            for kl, text in viol:
                concrete.append((text, dict(case=case, model=m, impl=o, theorem="property oracle C18", klass=kl)))
    # DownloadWrapper side: real Download, hash_stop / close with pieces pending (no model: oracle only)
    # (a DownloadWrapper case line contains no '/')
    rcase = json.load(open(replay))["case"] if replay else None
    if not replay or "/" not in rcase:
        dw = ltv.build_harness("c18dw", ["c18dw.cc", "common/session.cc"], libs=["-lcrypto"])
        dcases = [rcase] if replay else list(G.DW_CASES)
        for case, o in zip(dcases, ltv.run_sharded(dw, dcases, shards=4)):
            for kl, text in dw_oracle(case, o):
                concrete.append((text, dict(case=case, impl=o, theorem="property oracle C18 (DownloadWrapper side)", klass=kl)))
        rep.cov.update(download_wrapper_cases=len(dcases))
    # concrete failing inputs first, one per class first, so that correspondence noise never crowds them out
    seen_k = set()
    ordered = [x for x in concrete if not (x[1]["klass"] in seen_k or seen_k.add(x[1]["klass"]))]
    ordered += [x for x in concrete if x not in ordered][:12]
    for text, kw in ordered + noise[:5]:
        rep.violation(text, **kw)
    if not coq["ok"]:
        rep.violation("C18 proof obligations no longer check (%d/%d): %s %s" % (
            coq["discharged"], coq["obligations"], "; ".join(coq["lint"] + coq["bad_axioms"]), coq["log"][-1500:]),
            theorem="coq/C18/Properties.v", found_input=False)
    rep.cov.update(evaluations=len(cases), distinct_nontrivial=len(nontrivial),
                   rule="cases = corpus + hand programs x hand schedules + seeded random programs x seeded bursty schedules + ALL "
                        "interleavings of the listed small programs; non-trivial = distinct implementation log with at least one notification",
                   samples=samples, input_distribution=stats, mismatches=mism, exhaustive=exhaustive,
                   correspondence="deterministic scheduler over the real main-role/disk-role threads (exact per-step log equality)")
    rep.assumptions += ["sequentially consistent atomics", "two threads (main, disk)", "slot_done callbacks do not re-enter the HashQueue",
                        "liveness theorems (wakeup_within_4_disk_steps, remove_terminates, hashing_handoff_no_deadlock) take the disk thread to be its event loop [Loop]"]
