"""C07 — bencode codec: proof obligations + correspondence + property oracle."""
import hashlib
import sys

import ltv
from gen import c07 as G
from props import c07sm as SM

sys.setrecursionlimit(20000)


def parse_fields(line):
    """'enc:.. h=1 | c:.. | s:.. | k:..' -> dict"""
    out = {}
    for part in line.split(" | "):
        k, _, v = part.partition(":")
        out[k.strip()] = v
    return out


def parse_dec(v):
    """'OK n o tree' -> (consumed, unordered, tree) ; else None"""
    if not v.startswith("OK "):
        return None
    toks = v.split()
    tree, _ = G.parse_result_tree(toks, 3)
    return int(toks[1]), toks[2] == "u", tree


TRUNCATED = []   # B cases on which object_write_to_buffer silently truncated (observation, see below)


def oracle_b(case, line):
    """Buffered writer cases 'B <K|B> <cap> <tree>': the byte stream must be the canonical encoding whatever the
    buffer capacity (theorems write_chunking_preserves_stream / write_to_buffer_fits)."""
    toks = case.split()
    kind, cap = toks[1], int(toks[2])
    tree, _ = G.parse_result_tree(toks, 3)
    enc = G.ref_encode(G.normalize(tree))
    if kind == "K":
        if not line.startswith("wb:OK "):
            return [("write-chunking", "buffered writer with a buffer-keeping callback failed: " + line[:100])]
        f = line.split()
        chunks = [] if f[3] == "none" else [bytes.fromhex(c) if c != "-" else b"" for c in f[3].split(",")]
        bad = []
        if f[1] != "s=1":
            bad.append(("write-chunking", "object_write_to_stream output differs from the chunks a recording callback saw"))
        if cap > 0:
            if b"".join(chunks) != enc:
                bad.append(("write-chunking", "flush-chunking changed the byte stream (capacity %d)" % cap))
            if any(len(c) != cap for c in chunks[:-1]) or (chunks and not 0 < len(chunks[-1]) <= cap):
                bad.append(("write-chunking", "a flushed chunk is not full / the final chunk is empty or too long"))
        return bad
    if len(enc) <= cap:
        if line != "wb:OK " + enc.hex():
            return [("write-buffer", "object_write_bencode(first, last) does not return the encoding although it fits")]
        return []
    if line.startswith("wb:OK"):
        # outside the property text (bounded destination buffers are not part of C07): recorded, not a violation.
        # The faithful model reproduces it (theorem write_to_buffer_overflow_detected_refuted).
        TRUNCATED.append(case)
        got = bytes.fromhex(line.split()[1]) if line.split()[1] != "-" else b""
        if got != enc[:cap]:
            return [("write-buffer", "object_write_bencode(first, last) returned bytes that are not a prefix of the encoding")]
    return []


def oracle(case, line):
    """Property C07 evaluated on ONE implementation output line. Returns list of (klass, text)."""
    bad = []
    if line.startswith("CRASH") or line.startswith("ERR:"):
        return [("crash", "decoder/encoder crashed or raised a non-input error: " + line[:200])]
    if case.startswith("B "):
        if line.startswith("wb:ERR:other") or line.startswith("wb:OUTOFFUEL") or line == "BADCASE":
            return [("crash", "buffered writer raised an unexpected error: " + line[:200])]
        return oracle_b(case, line)
    f = parse_fields(line)
    kind, _, body = case.partition(" ")
    if f.get("c", "").startswith("DEST-DEPENDENT"):
        return [("decode-depends-on-destination", "the decoded value / flags depend on what the destination Object held before: " + f["c"][:200])]
    if kind == "E":
        toks = body.split()
        tree, _ = G.parse_result_tree(toks, 0)
        want = G.normalize(tree)
        enc_hex = f.get("enc", "").split()[0]
        enc = bytes.fromhex(enc_hex) if enc_hex != "-" else b""
        if enc != G.ref_encode(want):
            bad.append(("enc-not-canonical", "encoder output differs from canonical bencode"))
        if " h=1" not in f.get("enc", ""):
            bad.append(("sha1-writer", "object_sha1 differs from SHA-1 of the stream encoding"))
        data = enc
        depth_ok = True
    else:
        data = bytes.fromhex(body) if body != "-" else b""
        want = None
    c, s = parse_dec(f.get("c", "")), parse_dec(f.get("s", ""))
    k = f.get("k", "")
    kn = int(k.split()[1]) if k.startswith("OK ") else None
    for name, d in (("c", c), ("s", s)):
        if d is None:
            continue
        n, unordered, tree = d
        # faithful: the accepted value is what the consumed prefix denotes
        try:
            ref, rn = G.ref_decode(data)
            ok = (ref == tree and rn == n)
        except (G.NoParse, RecursionError):
            ok = False
        if not ok:
            klass = "decoded-value-not-denoted-" + name
            if name == "s":
                try:
                    ref2, rn2 = G.ref_decode(data, liberal_istream=True)
                    if ref2 == tree and rn2 == n:
                        klass = "stream-istream-number-liberal"
                except (G.NoParse, RecursionError):
                    pass
            bad.append((klass, "%s reader returned a value the input does not denote" % name))
        if want is not None:
            if tree != want or n != len(data) or unordered:
                bad.append(("roundtrip-" + name, "%s reader does not return the encoded tree / consume exactly the encoding" % name))
    if want is not None:
        d = nesting_depth(want)
        if kn is not None and kn != len(data):
            bad.append(("roundtrip-k", "skip reader does not consume exactly the encoding"))
        if kn is None and d < 128:
            bad.append(("roundtrip-k", "skip reader rejects the encoding of a tree nested below its stack limit"))
        for name, dd in (("c", c), ("s", s)):
            if dd is None and d < 1024 and max_string(want) <= (1 << 25):
                bad.append(("roundtrip-" + name, "%s reader rejects the encoding of a well-formed tree" % name))
    if c and s and (c[0] != s[0] or c[2] != s[2]):
        bad.append(("decoders-disagree-cs", "buffer and stream decoders accept the same input with different results"))
    if c and kn is not None and c[0] != kn:
        bad.append(("decoders-disagree-ck", "buffer decoder and skip reader consume different lengths"))
    return bad


def max_string(t):
    if isinstance(t, bytes):
        return len(t)
    if isinstance(t, list):
        return max([max_string(x) for x in t] or [0])
    if isinstance(t, tuple):
        return max([max(len(k), max_string(v)) for k, v in t[1]] or [0])
    return 0


def nesting_depth(t):
    if isinstance(t, list):
        return 1 + max([nesting_depth(x) for x in t] or [0])
    if isinstance(t, tuple):
        return 1 + max([nesting_depth(v) for _, v in t[1]] or [0])
    return 0


def run(rep, tier, seed, replay):
    coq = ltv.coq_build("C07")
    rep.cov.update(obligations=coq["obligations"], discharged=coq["discharged"], checker_cmd=coq["checker_cmd"],
                   theorems=coq["theorems"], axioms_per_theorem=coq["axioms"],
                   trusted_base=ltv.std_trusted_base(coq, [
                       "modelled not verified: libstdc++ operator>>(long/unsigned) as stream_int64/stream_uint32; std::map as sorted association list",
                       "buffered writer model coq/C07/WriteBuf.v: flush callbacks modelled as two kinds (buffer handed back unchanged / object_write_to_buffer); a failing ostream (bad()) and skip_mask != 0 are not modelled",
                       "python reference oracle gen/c07.py (ref_encode/ref_decode) for the 'denotes' relation on implementation outputs"]))
    model = ltv.build_model("C07")
    impl = ltv.build_harness("c07", ["c07.cc"])
    sm_replay = None
    if replay:
        import json
        rc = json.load(open(replay))["case"]
        if isinstance(rc, str) and rc.split()[0] in ("R", "W", "T", "RI"):
            sm_replay = rc
        cases = [] if sm_replay is not None else [rc]
        stats = {"replay": 1}
    else:
        cases, stats = G.gen(seed, tier)
    mo = ltv.run_sharded(model, cases)
    io = ltv.run_sharded(impl, cases)
    nontrivial = set()
    mism = 0
    samples = []
    for i, case in enumerate(cases):
        m = mo[i] if i < len(mo) else "MISSING"
        o = io[i] if i < len(io) else "MISSING"
        if "OK " in o:
            nontrivial.add(hashlib.sha1(case.encode()).digest())
        if len(samples) < 5 and i % 997 == 5:
            samples.append({"case": case[:200], "impl": o[:300]})
        viol = oracle(case, o)
        if m != o:
            mism += 1
            if viol:
                kl, text = viol[0]
                rep.violation("model and implementation differ AND the property fails on the implementation: " + text,
                              case=case, model=m, impl=o, theorem="correspondence C07 (decode/encode outputs)", klass=kl)
            else:
                rep.violation("correspondence broken: model and implementation differ on this input (property oracle holds on it)",
                              case=case, model=m, impl=o, theorem="correspondence C07 (decode/encode outputs)", found_input=False)
        else:
            for kl, text in viol:
                rep.violation(text, case=case, model=m, impl=o, theorem="property oracle C07", klass=kl)
    if not coq["ok"]:
        rep.violation("C07 proof obligations no longer check (%d/%d): %s %s" % (
            coq["discharged"], coq["obligations"], "; ".join(coq["lint"] + coq["bad_axioms"]), coq["log"][-1500:]),
            theorem="coq/C07/Properties.v", found_input=False)
    rep.cov.update(evaluations=len(cases), distinct_nontrivial=len(nontrivial),
                   rule="cases = corpus + hand list + random trees (E) + every prefix + mutations + random/exhaustive small strings (D) + buffered-writer cases (B: small trees x every capacity, random trees x boundary capacities); "
                        "non-trivial = distinct case on which at least one reader of the implementation accepts",
                   samples=samples, input_distribution=stats, mismatches=mism,
                   exhaustive=False,
                   write_buffer_silent_truncations=dict(count=len(TRUNCATED), first=TRUNCATED[:3],
                       note="object_write_bencode(first,last) returned normally with a truncated encoding (model agrees: "
                            "write_to_buffer_overflow_detected_refuted); outside the property text, not a violation"))
    # static-map / raw readers (coq/C07/StaticMap.v, PropertiesSM.v, harness/c07sm*.cc)
    if not replay or sm_replay is not None:
        part = SM.run_part(rep, tier, seed, sm_replay)
        c = part.pop("coq")
        rep.cov["obligations"] += c["obligations"]
        rep.cov["discharged"] += c["discharged"]
        rep.cov["theorems"] += c["theorems"]
        rep.cov["axioms_per_theorem"].update(c["axioms"])
        rep.cov["checker_cmd"] += " ; " + c["checker_cmd"]
        rep.cov["trusted_base"] += SM.TRUST
        for k in ("evaluations", "distinct_nontrivial", "mismatches"):
            rep.cov[k] += part[k]
        rep.cov["input_distribution"]["static_map"] = part["input_distribution"]
        rep.cov["rule"] += " || " + part["rule"]
        rep.cov["samples"] += part["samples"][:3]
    rep.assumptions += ["buffers shorter than 2^31 bytes", "classic locale on the stream reader",
                        "value trees contain no empty (TYPE_NONE) objects or raw types"]
