"""C01 — only hash-verified pieces are ever reported complete.
Proof obligations (coq/C01) + correspondence (the extracted acceptor `accept` must accept the mechanism-level
trace recorded from the real library, and its state must equal the private-state snapshots) + property oracle
evaluated directly on the implementation (harness/c01.cc: completed / HAVE / completed bytes / done  =>  the bytes
on disk hash to the torrent's SHA-1)."""
import hashlib
import json
import re

import ltv
from gen import c01 as G

ORACLE_KLASS = [
    ("completed-not-verified", "completed-unverified"),
    ("have-not-verified", "have-unverified"),
    ("completed-bytes", "completed-bytes"),
    ("done-with-missing-pieces", "done-incomplete"),
    ("done-files-differ-from-content", "done-files-differ"),
    ("done-file-length", "done-file-length"),
    ("honest-piece-failed", "honest-data-rejected"),
]


def oracle(case, iline):
    """Property C01 on ONE implementation output line -> list of (klass, text)."""
    if iline.startswith("HANG"):
        return [("hang", "the implementation did not finish this case within the per-case time limit: " + iline[:200])]
    if iline.startswith("CRASH"):
        return [("crash", "sanitizer report / abort while peers were sending blocks: " + iline[:300])]
    if iline.startswith("ERR:internal"):
        kl = "dissimilar-double-unstall" if "m_notStalled == 0" in iline else "internal-error"
        return [(kl, "a fatal internal_error was raised by peer behaviour (no_fatal): " + iline[:400])]
    if iline.startswith("ERR:") or iline.startswith("BADCASE") or iline == "MISSING":
        return [("harness", "harness could not run the case: " + iline[:200])]
    ev, _, rest = iline.partition(" || ")
    verdict, _, stats = rest.partition(" ;; ")
    bad = []
    if verdict.startswith("VIOL"):
        for tok in verdict.split()[1:]:
            kl = next((k for pre, k in ORACLE_KLASS if tok.startswith(pre)), "oracle")
            bad.append((kl, "a piece was reported complete but the bytes on disk do not hash to the torrent's SHA-1 / "
                            "completion accounting is wrong / honest data was damaged / files differ from the content: " + tok))
    kv = dict(t.split("=", 1) for t in stats.split() if "=" in t)
    if kv.get("stuck") == "1":
        # the known stall is exactly: after a hash failure every connected candidate has a finished transfer on every
        # open block (decided in the harness on the private state); any other stall is a different violation
        bad.append(("liveness-stale-transfer" if kv.get("stale") == "1" else
                    "liveness-stalled-leader" if kv.get("trickled") == "1" else "liveness-stall",
                    "the download made no progress for 4 x 125 s although an honest, unchoking peer holding every piece stayed "
                    "connected: completed=%s listed=%s pending=%s" % (kv.get("completed"), kv.get("listed"), kv.get("pending"))))
    return bad


def model_input(case, iline, repaired=0):
    """The model driver reads the case header (+ rep=<probe result>) and the recorded events."""
    ev = iline.partition(" || ")[0]
    return case.partition("|")[0].strip() + " rep=%d | " % repaired + ev


def probe_repaired(impl):
    """Behavioural probe of the compiled tree: does Block::insert accept a peer whose only transfer on the block is the
    finished leftover of a hash-failed attempt? -> 1 / 0 (harness/c01.cc --probe)."""
    import os, subprocess
    env = dict(os.environ)
    env.setdefault("ASAN_OPTIONS", "detect_leaks=0")
    try:
        out = subprocess.run([impl, "--probe"], stdout=subprocess.PIPE, stderr=subprocess.PIPE, timeout=60, env=env).stdout.decode()
        m = re.search(r"repaired=(-?\d+)", out)
        return int(m.group(1)) if m else -1
    except Exception:
        return -1


def run(rep, tier, seed, replay):
    coq = ltv.coq_build("C01")
    rep.cov.update(obligations=coq["obligations"], discharged=coq["discharged"], checker_cmd=coq["checker_cmd"],
                   theorems=coq["theorems"], axioms_per_theorem=coq["axioms"],
                   trusted_base=ltv.std_trusted_base(coq, [
                       "session harness (harness/common/session.{h,cc}, wirepeer.h) + harness/c01.cc: event reconstruction from wire "
                       "traffic, private snapshots of TransferList/BlockList/RequestList after every stimulus, the public slots "
                       "slot_chunk_done / slot_download_done, files on disk hashed with OpenSSL SHA-1",
                       "ocaml/c01_driver.ml: reconstructs Insert / Release / NewPiece events by reconciling the model's queued sets "
                       "with each snapshot, then demands equality of the rendered model state and the snapshot; its own SHA-1 "
                       "(checked against OpenSSL through every probe event)",
                       "modelled not verified: SHA-1 (section variable H), hashing thread / HashQueue plumbing (the verdict of a hash job "
                       "is the comparison of H(store) with the torrent's digest), mmap write-through of chunks to the files, "
                       "Delegator / ChunkSelector choice of what to request (Insert events are free, only Block::insert's refusals are "
                       "enforced), RequestList bucket order (whether a PIECE matches a live or a stale request is an input of the event), "
                       "choke_queue, timers; WHICH peers a verdict blames (mark_failed_peers / mark_and_disconnect_if_single_peer) is not modelled: "
                       "receive_corrupt_chunk calls are events reconstructed from the observed PeerInfo::failed_counter, their effect "
                       "(count, erase the connection above max_failed, refuse the peer afterwards) is modelled and compared",
                       "gen/params_c01.py: block size and max_failed read from the compiled headers by a constexpr probe (regex only as fallback)",
                       "property oracle evaluated in harness/c01.cc on the implementation after every stimulus and inside the "
                       "chunk-done slot; classification in props/c01.py"]))
    impl = ltv.build_harness("c01", ["c01.cc", "common/session.cc"])
    repaired = probe_repaired(impl)
    if repaired < 0:
        rep.violation("the Block::insert probe of the compiled tree could not be evaluated (harness --probe)", theorem="probe C01", found_input=False)
    model = None
    try:
        model = ltv.build_model("C01")
    except ltv.BuildError as e:
        rep.violation("model driver does not build: " + str(e)[-800:], theorem="coq/C01/Extract.v", found_input=False)
    if replay:
        cases = [json.load(open(replay))["case"]]
        stats = {"replay": 1}
    else:
        cases, stats = G.gen(seed, tier)
    import os
    dirty_log = os.path.join(ltv.BUILD, "c01_dirty_%d.log" % os.getpid())
    if os.path.exists(dirty_log):
        os.unlink(dirty_log)
    io = ltv.run_sharded(impl, cases, timeout=1500, env={"LTV_C01_DIRTYLOG": dirty_log})
    io = io + ["MISSING"] * (len(cases) - len(io))
    dirty_starts = []
    if os.path.exists(dirty_log):
        dirty_starts = [l.strip() for l in open(dirty_log)][:50]
        os.unlink(dirty_log)
    # A liveness verdict (stall / hang) depends on real-time scheduling of the library's other threads: before it is
    # reported the case is re-run ALONE in a fresh process, up to 3 times. A deterministic defect reproduces every time; a
    # load artefact does not, and the clean re-run replaces the first result. (The known stale-transfer class is exempt.)
    LIVENESS = ("liveness-stall", "liveness-stalled-leader", "hang")
    liveness_retries, liveness_cleared, cleared_cases = 0, 0, []
    for i, case in enumerate(cases):
        if not any(k in LIVENESS for k, _ in oracle(case, io[i])):
            continue
        first = io[i]
        for _ in range(3):
            liveness_retries += 1
            r1, e1, rc1 = ltv.run_lines(impl, [case], timeout=600, env={"LTV_C01_DIRTYLOG": dirty_log})
            if len(r1) == 1 and rc1 == 0 and not any(k in LIVENESS for k, _ in oracle(case, r1[0])):
                io[i] = r1[0]
                liveness_cleared += 1
                cleared_cases.append({"case": case[:300], "first_run": first.partition(" ;; ")[2][:200],
                                      "last_snapshot": ([t for t in first.split(" ") if t.startswith("S:")] or [""])[-1][:400]})
                break
            if len(r1) == 1:
                io[i] = r1[0]
    traced = [i for i in range(len(cases)) if " || " in io[i] and not io[i].startswith("ERR")]
    mo = {}
    if model:
        res = ltv.run_sharded(model, [model_input(cases[i], io[i], max(repaired, 0)) for i in traced], timeout=1500)
        for k, i in enumerate(traced):
            mo[i] = res[k] if k < len(res) else "MISSING"
    nontrivial, samples = set(), []
    rejected = 0
    tot = dict(events=0, writes=0, hash_ok=0, hash_fail=0, disconnects=0, done=0, dissimilar=0, leader_change=0, retry_copy=0)
    for i, case in enumerate(cases):
        o = io[i]
        viol = oracle(case, o)
        m = mo.get(i)
        if " || " in o:
            ev = o.partition(" || ")[0]
            kv = dict(t.split("=", 1) for t in o.partition(" ;; ")[2].split() if "=" in t)
            tot["events"] += ev.count(" ") + 1
            tot["writes"] += int(kv.get("writes", 0))
            tot["hash_ok"] += int(kv.get("hok", 0))
            tot["hash_fail"] += int(kv.get("hfail", 0))
            tot["disconnects"] += int(kv.get("disc", 0))
            tot["done"] += int(kv.get("done", 0))
            tot["dissimilar"] += len(re.findall(r"\.E\.0", ev)) > 0
            if int(kv.get("writes", 0)) > 0 and (int(kv.get("hok", 0)) + int(kv.get("hfail", 0))) > 0:
                nontrivial.add(hashlib.sha1(case.encode()).digest())
        if m is not None and m.startswith("ACCEPT"):
            mk = dict(t.split("=", 1) for t in m.split() if "=" in t)
            tot["leader_change"] += int(mk.get("lc", 0))
            tot["retry_copy"] += int(mk.get("rc", 0))
        if len(samples) < 5 and i % 23 == 3:
            samples.append({"case": case[:300], "impl": re.sub(r"B:(\d+):[0-9a-f]+", r"B:\1:..", o)[-400:], "model": (m or "")[:200]})
        if m is not None and not m.startswith("ACCEPT"):
            rejected += 1
            short = re.sub(r"B:(\d+):[0-9a-f]+", r"B:\1:..", o)[:1500]
            fresh = [v for v in viol if v[0] not in rep.known]
            if fresh:
                kl, text = fresh[0]
                rep.violation("the model rejects the recorded trace AND the property fails on the implementation: " + text,
                              case=case, model=m, impl=short, theorem="correspondence C01 (accept over recorded events, state snapshots)", klass=kl)
            else:
                rep.violation("correspondence broken: the acceptor model does not accept the trace recorded from the implementation "
                              "(property oracle holds on it): " + m[:300],
                              case=case, model=m, impl=short, theorem="correspondence C01 (accept over recorded events, state snapshots)",
                              found_input=False)
        else:
            for kl, text in viol:
                rep.violation(text, case=case, model=m, impl=re.sub(r"B:(\d+):[0-9a-f]+", r"B:\1:..", o)[:1500],
                              theorem="property oracle C01", klass=kl)
    if not coq["ok"]:
        rep.violation("C01 proof obligations no longer check (%d/%d): %s %s" % (
            coq["discharged"], coq["obligations"], "; ".join(coq["lint"] + coq["bad_axioms"]), coq["log"][-1500:]),
            theorem="coq/C01/Properties.v", found_input=False)
    stats = dict(stats)
    stats.update(liveness_retries=liveness_retries, liveness_cleared_by_rerun=liveness_cleared, dirty_starts=len(dirty_starts),
                 dirty_start_samples=dirty_starts[:5], liveness_cleared_cases=cleared_cases[:10], block_insert_ignores_stale_leftovers=repaired, totals=tot, traces_checked_by_model=len(mo), traces_rejected=rejected)
    rep.cov.update(liveness_retries=liveness_retries, evaluations=len(cases), distinct_nontrivial=len(nontrivial),
                   rule="cases = corpus + hand list (dissimilar / leader change / leader disconnect / all-corrupt / max_failed / "
                        "malformed / unrequested / choke / out of order / crafted data whose SHA-1 agrees with the recorded one up to an early NUL byte / "
                        "stale longer files already in the download directory / a sparse single file > 4 GiB with pieces beyond offset 2^32, re-read from "
                        "the file at the 64-bit offset) + dissimilar position sweep + random scripts over 8 layouts, "
                        "1..4 peers, 8 read segmentations; non-trivial = distinct case in which a block was written and at least one "
                        "hash verdict was delivered",
                   samples=samples, input_distribution=stats, mismatches=rejected, exhaustive=False)
    rep.assumptions += ["plain (unencrypted) connections; download throttle unlimited", "no storage error while mapping a chunk",
                        "single torrent, all files at normal priority, peers announce every piece",
                        "hash jobs complete in real time on the disk thread (their interleaving with peer input is whatever the run produced; "
                        "the acceptor accepts every interleaving)"]
