"""C20 — extension protocol (ut_metadata provider, extension ids, PEX, read suspension):
proof obligations + correspondence (session harness, scripted loopback peers, virtual clock)
+ python property oracle evaluated on the implementation's output."""
import hashlib
import json

import ltv
from gen import c20 as G


def run(rep, tier, seed, replay):
    coq = ltv.coq_build("C20")
    rep.cov.update(obligations=coq["obligations"], discharged=coq["discharged"], checker_cmd=coq["checker_cmd"],
                   theorems=coq["theorems"], axioms_per_theorem=coq["axioms"],
                   trusted_base=ltv.std_trusted_base(coq, [
                       "session harness (harness/common/session.{h,cc}, wirepeer.h) + harness/c20.cc: real library stepped manually under a "
                       "virtual clock; scripted loopback peers 127.0.0.(2+i); private state read through -fno-access-control",
                       "ocaml/c20_driver.ml: formatting of the model's abstract messages (bencode header text, MD5 of payloads via OCaml Digest)",
                       "modelled not verified: bencode reader/writer of the info dictionary (C07), static_map handshake parser (fields are given "
                       "as integers), epoll event order (one batch = one read event, replies written afterwards), TCP delivery of a batch "
                       "in one segment, choke/keep-alive/have traffic (filtered out), encryption (plain connections), write blocking "
                       "(send budget is all-or-nothing per connection: blocked / unlimited), Close of a connection that is out of the read set",
                       "fetcher side (magnet): coq/C20/FetcherX.v is compared by output equality on single-provider cases with the delegator / RequestList "
                       "scheduling as an ORACLE (the requests the implementation wrote in each op are given to the model, which checks admissibility and tracks the "
                       "outstanding set; compared up to and including the first tick of a case: the RequestList's stall handling on ticks is not modelled); several providers at once (leader / non-leader transfers) are oracle-only; coq/C20/Fetcher.v is the specification-level gate; "
                       "the model's hash is MD5 (OCaml Digest) where the code uses SHA-1: both are used only as 'equal iff same bytes'",
                       "RC4 streams: a third of the provider-side connections are MSE-negotiated (harness/common/mseinit.h, own RC4); the model speaks plaintext, the harness "
                       "compares the decrypted stream, partial writes are forced by w<i>:drip<k>",
                       "pad bytes of the info dictionary are a fixed arithmetic function of the offset, implemented three times (C++, OCaml, python)",
                       "python property oracle gen/c20.py:oracle evaluated on the implementation's output"]))
    model = ltv.build_model("C20")
    impl = ltv.build_harness("c20", ["c20.cc", "common/session.cc"], libs=["-lcrypto"])
    # constants of the COMPILED code vs. the translated ones (ROBUSTNESS rule 3)
    try:
        comp = dict(l.split("=") for l in ltv.run_lines(impl, [], args=["--params"])[0] if "=" in l)
        gen_txt = open(ltv.os.path.join(ltv.COQ, "C20", "ParamsGen.v")).read()
        diff = []
        for k, v in comp.items():
            mm = ltv.re.search(r"Definition %s : N := (\d+)%%N" % k, gen_txt)
            if mm and mm.group(1) != v:
                diff.append("%s: translated %s, compiled %s" % (k, mm.group(1), v))
        rep.cov["params_compiled"] = comp
        if diff:
            rep.violation("constants translated from the sources differ from the compiled code (gen/params_c20.py is stale): " + "; ".join(diff),
                          theorem="params_ok_now", found_input=False)
    except Exception as ex:  # noqa
        rep.cov["params_compiled"] = "unavailable: %s" % ex
    if replay:
        cases = [json.load(open(replay))["case"]]
        stats = {"replay": 1}
        freplay = cases if cases[0].startswith("F ") else []
        if freplay:
            cases = []
    else:
        cases, stats = G.gen(seed, tier)
    # the order policy of SocketAddressCompact_less is not constrained by the property: probed on the compiled code,
    # the model runs with the probed policy (ROBUSTNESS rule 4); the PEX theorems hold for every policy
    order = "00"
    try:
        pr = [l for l in ltv.run_lines(impl, [], args=["--probe-order"], timeout=120)[0] if l.startswith("ord=")]
        if pr and ltv.re.fullmatch(r"ord=[01][01]", pr[0]):
            order = pr[0][4:]
    except Exception:  # noqa
        pass
    rep.cov["pex_order_policy_probed"] = {"addr": "numeric" if order[0] == "1" else "raw-little-endian", "port": "numeric" if order[1] == "1" else "raw-little-endian"}
    menv = {"C20_ORD": order}
    mo = ltv.run_sharded(model, cases, env=menv)
    io = ltv.run_sharded(impl, cases, timeout=900)
    nontrivial, mism, samples = set(), 0, []
    unmodelled = 0
    nmeta = npex = ntoggle = nclosed = 0
    classes = {}
    for i, case in enumerate(cases):
        m = mo[i] if i < len(mo) else "MISSING"
        o = io[i] if i < len(io) else "MISSING"
        if "msg_type=" in o or "added=" in o:
            nontrivial.add(hashlib.sha1(case.encode()).digest())
        nmeta += o.count("msg_type=")
        npex += o.count("added=")
        ntoggle += o.count("(id=0,m::ut_pex=")
        nclosed += o.count(" X")
        if len(samples) < 5 and i % 53 == 9:
            samples.append({"case": case[-200:], "impl": o[:400]})
        viol = G.oracle(case, o)
        for kl, _ in viol:
            classes[kl] = classes.get(kl, 0) + 1
        if m.endswith("UNMODELLED"):
            unmodelled += 1      # outside the model's stated domain (a read that would split a message, ...): oracle only
            for kl, text in viol:
                rep.violation(text, case=case, model=m, impl=o, theorem="property oracle C20", klass=kl)
            continue
        if m != o:
            mism += 1
            if viol:
                kl, text = viol[0]
                rep.violation("model and implementation differ AND the property fails on the implementation: " + text,
                              case=case, model=m, impl=o, theorem="correspondence C20 (peer-visible extended messages, snapshots)", klass=kl)
            else:
                rep.violation("correspondence broken: model and implementation differ on this input (property oracle holds on it)",
                              case=case, model=m, impl=o, theorem="correspondence C20 (peer-visible extended messages, snapshots)",
                              found_input=False)
        else:
            for kl, text in viol:
                rep.violation(text, case=case, model=m, impl=o, theorem="property oracle C20", klass=kl)
    # ---- fetcher side (magnet): implementation + oracle (the gate model of coq/C20/Fetcher.v is tied by this oracle)
    implf = ltv.build_harness("c20f", ["c20f.cc", "common/session.cc"], libs=["-lcrypto"])
    fcases = freplay if replay else G.gen_f(seed, tier)
    fo = ltv.run_sharded(implf, [c[2:] for c in fcases], timeout=900)
    # the executable fetcher model (coq/C20/FetcherX.v) gets the delegator's decisions as an oracle: the requests the
    # implementation wrote during each op; everything else (sizes, closes, ids, acceptance, completion, file) must be equal
    fmi = [G.fetch_model_input(c, fo[i] if i < len(fo) else "") for i, c in enumerate(fcases)]
    fm = ltv.run_sharded(model, fmi)
    fdone = fsingle = fmism = 0
    fcl = {}
    for i, case in enumerate(fcases):
        o = fo[i] if i < len(fo) else "MISSING"
        m = fm[i] if i < len(fm) else "MISSING"
        fdone += 1 if "done=1" in o else 0
        viol = G.oracle_f(case, o)
        for kl, text in viol:
            fcl[kl] = fcl.get(kl, 0) + 1
            rep.violation(text, case=case, model=m, impl=o, theorem="property oracle C20 fetcher (magnet_completes_only_verified, ext ids of requests)", klass=kl)
        if G.single_provider(case):
            fsingle += 1
            kcut = G.fetch_cut(case, m)
            mc = " ; ".join(x.replace(" !hashfail", "") for x in m.split(" ; ")[:kcut])
            oc = " ; ".join(o.split(" ; ")[:kcut])
            if mc != oc and not viol:
                fmism += 1
                mism += 1
                rep.violation("correspondence broken (fetcher, single provider): model and implementation differ on this input (property oracle holds on it)",
                              case=case, model=m, impl=o, theorem="correspondence C20 fetcher (sizes, closes, ids, acceptance, completion; delegator = oracle)",
                              found_input=False)
    if not coq["ok"]:
        rep.violation("C20 proof obligations no longer check (%d/%d): %s %s" % (
            coq["discharged"], coq["obligations"], "; ".join(coq["lint"] + coq["bad_axioms"]), coq["log"][-1500:]),
            theorem="coq/C20/Properties.v", found_input=False)
    stats = dict(stats)
    stats.update(metadata_replies_seen=nmeta, pex_messages_seen=npex, pex_toggles_seen=ntoggle,
                 connections_closed_by_library=nclosed, oracle_classes=classes, unmodelled_cases=unmodelled,
                 fetcher_cases=len(fcases), fetcher_completed=fdone, fetcher_oracle_classes=fcl,
                 fetcher_single_provider_compared=fsingle, fetcher_mismatches=fmism)
    rep.cov.update(evaluations=len(cases) + len(fcases), distinct_nontrivial=len(nontrivial),
                   rule="cases = corpus + hand list + full piece sweep at every info size 16384k+{-1,0,1} (k<=3 quick, <=5 thorough) x private/public "
                        "+ random provider sweeps / request bursts / id-map handshakes / multi-peer PEX histories / blocked-write (send budget) histories / malformed streams "
                        "(+ every op list of length 3 over an 8-op alphabet in thorough); "
                        "non-trivial = distinct case in which the implementation sent at least one ut_metadata or ut_pex message",
                   samples=samples, input_distribution=stats, mismatches=mism, exhaustive=(tier == "thorough"))
    rep.assumptions += ["plain and RC4 (MSE) connections; the MSE negotiation itself is C06's", "a blocked write accepts no byte at all (no partial writes inside a message)",
                        "integers in peer messages fit int64", "each scripted peer index connects at most once per case",
                        "fetcher side: safety (completion only with verified metadata) and request ids; not liveness",
                        "observation (liveness against lying providers is not claimed by C20): the first peer's metadata_size wins, so one peer lying about the size makes later honest peers get 'size mismatch' and the magnet never completes; a hash-failed metadata chunk was not re-requested from the same peer on a tick"]
