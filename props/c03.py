"""C03 — arbitrary bytes from a peer: proof obligations + correspondence + property oracle."""
import hashlib
import json

import ltv
from gen import c03 as G


def split_impl(line):
    """'D1 / D1 .. || D2 / D2 .. ;; healthy=X' -> (d1 list, d2 list, healthy)"""
    a, _, rest = line.partition(" || ")
    b, _, h = rest.partition(" ;; ")
    return a.split(" / "), b.split(" / "), h.strip()


def split_model(line):
    a, _, rest = line.partition(" || ")
    spec, _, effs = rest.partition(" ;; ")
    return a.split(" / "), spec.replace("spec: ", "", 1).strip(), effs.strip()


SPEC_MAX_LEN = 1 << 20      # BEP 3 framing limit enforced by read_message (spec constants, NOT from Params)
SPEC_EXT_LIMIT = 1 << 15
SPEC_EXT_TYPES = 3


def spec_limit_walk(case):
    """Independent of the Coq model and of the extracted constants: walk the stream with the fixed limits and
    return True if a length / extension limit MUST have closed the connection before any other reason to close
    or any incomplete message is met; None when the walk cannot tell."""
    kv = dict(t.split("=", 1) for t in case.split() if "=" in t)
    if kv.get("ho", "-") != "-":
        return None
    s = bytes.fromhex(kv["stream"]) if kv.get("stream", "-") != "-" else b""
    role, np_ = kv["role"], int(kv["np"])
    p = 0
    have = set()
    while True:
        if len(s) - p < 4:
            return None
        ln = int.from_bytes(s[p:p + 4], "big")
        if ln == 0:
            p += 4
            continue
        if len(s) - p < 5:
            return None
        if ln > SPEC_MAX_LEN:
            return True
        mid = s[p + 4]
        if mid in (0, 1, 2, 3):
            p += 5
        elif mid == 4:
            if len(s) - p < 9 or int.from_bytes(s[p + 5:p + 9], "big") >= np_:
                return None
            if kv["bits"] != "-":
                return None
            have.add(int.from_bytes(s[p + 5:p + 9], "big"))
            if len(have) >= np_:
                return None        # completing the bitfield may close the connection: stop
            p += 9
        elif mid in (6, 8):
            if len(s) - p < 17:
                return None
            p += 17
        elif mid == 9:
            if len(s) - p < 7:
                return None
            p += 7
        elif mid == 20:
            if len(s) - p < 6:
                return None
            if s[p + 5] >= SPEC_EXT_TYPES or ln < 2 or ln - 2 > SPEC_EXT_LIMIT:
                return True
            return None    # what the payload does is handler business
        else:
            return None


def oracle(case, mline, iline):
    """Property C03 evaluated on ONE implementation output line (the model line supplies the reference
    decode of the whole stream). Returns list of (klass, text)."""
    bad = []
    if iline.startswith("CRASH"):
        return [("crash", "sanitizer report / abort / uncaught exception while a peer was sending bytes: " + iline[:300])]
    if iline.startswith("ERR:internal"):
        return [("internal-error", "the fatal internal_error condition was raised by peer input: " + iline[:300])]
    if iline.startswith("ERR:") or iline.startswith("BADCASE") or iline == "MISSING":
        return [("harness", "harness could not run the case: " + iline[:200])]
    if case.startswith("mode=free"):
        if "healthy=OK" not in iline:
            bad.append(("other-connection-affected", "the healthy peer was no longer served after the hostile one: " + iline[:200]))
        return bad
    d1, d2, healthy = split_impl(iline)
    _, spec, _ = split_model(mline)
    if healthy != "healthy=OK":
        bad.append(("other-connection-affected", "the healthy peer of the same torrent was no longer served: " + healthy))
    if spec_limit_walk(case) is True and any(d != "closed=1" for d in d1):
        bad.append(("limit-not-enforced", "a length prefix above 2^20 / an extension message above 2^15 bytes or of unknown type "
                                          "did not close the connection"))
    wrong = [d for d in d1 if d != spec]
    d1cmp = d1
    if " xr=" in case and " xr=- " not in case:
        # a complete extension message waiting for the previous reply to be written (model digest st=EXT:0, equal to
        # the implementation's) is not a stall: the write side is held by the harness at that point. Such deliveries
        # (event lists that do not end with a write-ready event) are compared with the model only.
        md1 = mline.partition(" || ")[0].split(" / ")
        waiting = [k < len(md1) and md1[k] == d and "st=EXT:0" in d for k, d in enumerate(d1)]
        wrong = [d for k, d in enumerate(d1) if d != spec and not waiting[k]]
        d1cmp = [d for k, d in enumerate(d1) if not waiting[k]]
    if wrong and spec not in ("FAULT", "OUTOFFUEL", ""):
        kl = "handover-unparsed" if " ho=-" not in case else (
            "meta-bitfield-stall" if case.startswith("role=meta") and any("st=SKIP" in d for d in wrong) else "stream-effect-differs-from-decode")
        bad.append((kl, "after quiescence the connection state is not the state the delivered byte stream denotes "
                        "(complete messages left undispatched): got '%s' want '%s'" % (wrong[0], spec)))
    if len(set(d1cmp)) > 1:
        bad.append(("segmentation-dependent", "state after quiescence differs between segmentations of the same stream"))
    d2cmp = d2
    if " xr=" in case and " xr=- " not in case:
        # these deliveries differ in WHERE the write-ready events fall, not only in the segmentation: the relative order
        # of independent write-side messages (CHOKE/UNCHOKE vs an extension reply) legitimately follows it. Compared as
        # multisets, and only for deliveries that end with a write-ready event.
        def norm(x):
            a, _, r = x.partition(" resp=")
            return a + " resp=" + ",".join(sorted(r.split(",")))
        d2cmp = [norm(x) for k, x in enumerate(d2) if not (k < len(waiting) and waiting[k])]
    if len(set(d2cmp)) > 1:
        bad.append(("segmentation-dependent-responses", "responses / liveness after releasing the writer differ between segmentations"))
    return bad


def run(rep, tier, seed, replay):
    coq = ltv.coq_build("C03")
    rep.cov.update(obligations=coq["obligations"], discharged=coq["discharged"], checker_cmd=coq["checker_cmd"],
                   theorems=coq["theorems"], axioms_per_theorem=coq["axioms"],
                   trusted_base=ltv.std_trusted_base(coq, [
                       "modelled not verified: handler effects beyond bitfield/choke/upload-queue (request list, delegator, chunk store, "
                       "extension message contents: the per-message close verdict of read_done is an input of the case), "
                       "kernel socket semantics (recv returns a prefix of the queued bytes), epoll level triggering",
                       "session harness (harness/common/session.*, wirepeer.h), write side held in ProtocolWrite::MSG during delivery",
                       "sanitizers (ASan+UBSan) as the observer of memory safety; MSE keystream/DH of the scripted peer from OpenSSL + harness/common/msepeer.h"]))
    model = ltv.build_model("C03")
    impl = ltv.build_harness("c03", ["c03.cc", "common/session.cc"], libs=["-lcrypto"])
    if replay:
        cases = [json.load(open(replay))["case"]]
        stats = {"replay": 1}
    else:
        cases, stats = G.gen(seed, tier)
    mo = ltv.run_sharded(model, cases)
    io = ltv.run_sharded(impl, cases, timeout=900)
    nontrivial = set()
    mism = 0
    samples = []
    nseg = 0
    for i, case in enumerate(cases):
        m = mo[i] if i < len(mo) else "MISSING"
        o = io[i] if i < len(io) else "MISSING"
        free = case.startswith("mode=free")
        if len(samples) < 5 and i % 97 == 5:
            samples.append({"case": case[:300], "impl": o[:300]})
        viol = oracle(case, m, o)
        if free:
            if "alive=" in o:
                nontrivial.add(hashlib.sha1(case.encode()).digest())
            for kl, text in viol:
                rep.violation(text, case=case, model=m, impl=o, theorem="property oracle C03 (free mode: safety)", klass=kl)
            continue
        md1 = m.partition(" || ")[0]
        od1 = o.partition(" || ")[0]
        nseg += len(od1.split(" / "))
        # non-trivial: the stream got past the first message without being closed in at least one delivery, or was closed by a
        # handler-level decision (not by the first length/id check)
        effs = m.partition(" ;; ")[2].split()
        if len(effs) >= 2:
            nontrivial.add(hashlib.sha1(case.encode()).digest())
        if md1 != od1:
            mism += 1
            if viol:
                kl, text = viol[0]
                rep.violation("model and implementation differ AND the property fails on the implementation: " + text,
                              case=case, model=m, impl=o, theorem="correspondence C03 (state digest per segmentation)", klass=kl)
            else:
                rep.violation("correspondence broken: model and implementation digests differ (property oracle holds on this input)",
                              case=case, model=m, impl=o, theorem="correspondence C03 (state digest per segmentation)", found_input=False)
        else:
            for kl, text in viol:
                rep.violation(text, case=case, model=m, impl=o, theorem="property oracle C03", klass=kl)
    if not coq["ok"]:
        rep.violation("C03 proof obligations no longer check (%d/%d): %s %s" % (
            coq["discharged"], coq["obligations"], "; ".join(coq["lint"] + coq["bad_axioms"]), coq["log"][-1500:]),
            theorem="coq/C03/Properties.v", found_input=False)
    rep.cov.update(evaluations=len(cases), deliveries=nseg, distinct_nontrivial=len(nontrivial),
                   rule="cases = corpus + hand list + grammar sessions with one single-field mutation + raw random bytes (each under "
                        ">= 4 segmentations, every delivery on a fresh connection) + free-mode reactive PIECE scenarios; non-trivial = "
                        "distinct case whose decode emits at least two effects (exact) or that ran to the end (free)",
                   samples=samples, input_distribution=stats, mismatches=mism, exhaustive=False)
    rep.assumptions += ["plain-text and MSE/RC4 (harness/common/msepeer.h, peer = initiator) connections for the PeerConnection<> roles; metadata role plain only", "incoming connections, private torrents (PEX off), DHT off",
                        "metadata (magnet) connection role driven with a magnet-style meta_download torrent; its ut_metadata piece exchange is C20's",
                        "exact comparison with the write side held; free-mode scenarios judged on safety only"]
