"""C03 — arbitrary bytes from a peer: proof obligations + correspondence + property oracle."""
import hashlib
import json

import ltv
from gen import c03 as G


def split_impl(line):
    """'D1 / D1 .. || D2 / D2 .. ;; healthy=X' -> (d1 list, d2 list, healthy)"""
    a, _, rest = line.partition(" || ")
    b, _, h = rest.partition(" ;; ")
    return a.split(" / "), b.split(" / "), h.strip()


def split_model(line):
    a, _, rest = line.partition(" || ")
    spec, _, tail = rest.partition(" ;; ")
    effs, _, unk = tail.partition(" ;; unk=")
    return a.split(" / "), spec.replace("spec: ", "", 1).strip(), effs.strip()


def model_unknown_keys(line):
    unk = line.rpartition(" ;; unk=")[2].strip() if " ;; unk=" in line else "-"
    return [] if unk in ("-", "") else unk.split(",")


def with_policy(case, table):
    """case line + the probed close decisions for the keys this case consults"""
    if not table:
        return case
    return case + " pol=" + ",".join("%s=%d" % (k, v) for k, v in sorted(table.items()))


def probe_policy(model, impl, cases):
    """The property does not fix WHICH malformed headers close a connection. The decoder is parametric in that policy
    (coq/C03/Model.v `policy`); here the implementation's policy is probed for exactly the headers the decoder consults
    on these cases (fixpoint: a changed decision can make the decoder look at further headers). Returns
    (model output lines, per-case tables, stats)."""
    exact = [i for i, c in enumerate(cases) if not c.startswith("mode=")]
    tables = {i: {} for i in exact}
    known = {}      # (role, key) -> 0/1
    mo = ltv.run_sharded(model, cases)
    todo = exact
    rounds = 0
    nprobes = 0
    while todo and rounds < 8:
        rounds += 1
        need = {}
        for i in todo:
            role = cases[i].split()[0].split("=", 1)[1]
            for k in model_unknown_keys(mo[i] if i < len(mo) else ""):
                if (role, k) not in known:
                    need.setdefault(role, set()).add(k)
        lines = []
        for role, ks in sorted(need.items()):
            ks = sorted(ks)
            npc = 1 if role == "meta" else 8
            for j in range(0, len(ks), 12):
                lines.append("mode=probe role=%s np=%d keys=%s" % (role, npc, ",".join(ks[j:j + 12])))
        if lines:
            po = ltv.run_sharded(impl, lines, timeout=900)
            for ln, out in zip(lines, po):
                role = ln.split()[1].split("=", 1)[1]
                if not out.startswith("PROBE"):
                    continue
                for tok in out.split()[1:]:
                    k, _, v = tok.partition("=")
                    if v in ("0", "1"):
                        known[(role, k)] = int(v)
                        nprobes += 1
        changed = []
        for i in todo:
            role = cases[i].split()[0].split("=", 1)[1]
            new = False
            for k in model_unknown_keys(mo[i] if i < len(mo) else ""):
                if (role, k) in known and k not in tables[i]:
                    tables[i][k] = known[(role, k)]
                    new = True
                elif (role, k) not in known and k not in tables[i]:
                    tables[i][k] = 0       # probe failed: keep the default, the correspondence will tell
                    new = True
            if new:
                changed.append(i)
        if not changed:
            break
        sub = [with_policy(cases[i], tables[i]) for i in changed]
        so = ltv.run_sharded(model, sub)
        for i, o in zip(changed, so):
            mo[i] = o
        todo = changed
    closes = sorted("%s/%s" % rk for rk, v in known.items() if v == 1)
    return mo, tables, {"rounds": rounds, "headers_probed": nprobes, "closing_headers": len(closes), "closing_sample": closes[:12]}



def _waiting_ok(case):
    """per delivery: True if the event list does not end with a write-ready event although replies are generated
    (xr= cases): a complete extension message may then legitimately wait for the held writer"""
    kv = dict(t.split("=", 1) for t in case.split() if "=" in t)
    segs = kv.get("segs", "").split("/")
    if kv.get("xr", "-") == "-":
        return [False] * len(segs)
    return [not s.rstrip(",").endswith("w") for s in segs]


def _unparsed_complete(d):
    """Clause 'no complete message left undispatched while the connection is open and idle', decided on the
    implementation's own digest for the messages whose completeness no framing policy can dispute: a keep-alive
    (length prefix 0) or CHOKE/UNCHOKE/INTERESTED/NOT_INTERESTED with length prefix 1 at the head of the unread bytes."""
    if not d.startswith("closed=0") or " st=IDLE " not in d + " ":
        return False
    pend = ""
    for t in d.split():
        if t.startswith("pend="):
            pend = t[5:]
    if pend in ("", "-"):
        return False
    return pend.startswith("00000000") or (len(pend) >= 10 and pend[:8] == "00000001" and pend[8:10] in ("00", "01", "02", "03"))


def strip_pend(d):
    return " ".join(t for t in d.split(" ") if not t.startswith("pend="))


def oracle(case, mline, iline):
    """Property C03 evaluated on ONE implementation output line, WITHOUT the model: (a) no crash / fatal / hang,
    (b) other peer still served, (c) the implementation's own runs of the same stream under different segmentations
    agree (state after quiescence, responses), (d) no indisputably complete message left undispatched while open.
    Which malformed messages close the connection is NOT part of the property. Returns list of (klass, text)."""
    bad = []
    if iline.startswith("CRASH"):
        return [("crash", "sanitizer report / abort / uncaught exception while a peer was sending bytes: " + iline[:300])]
    if iline.startswith("HANG"):
        return [("hang", "the implementation did not come back within the per-case watchdog: " + iline[:200])]
    if iline.startswith("ERR:internal"):
        return [("internal-error", "the fatal internal_error condition was raised by peer input: " + iline[:300])]
    if iline.startswith("ERR:") or iline.startswith("BADCASE") or iline == "MISSING":
        return [("harness", "harness could not run the case: " + iline[:200])]
    if case.startswith("mode=free"):
        if "healthy=OK" not in iline:
            bad.append(("other-connection-affected", "the healthy peer was no longer served after the hostile one: " + iline[:200]))
        return bad
    d1, d2, healthy = split_impl(iline)
    if healthy != "healthy=OK":
        bad.append(("other-connection-affected", "the healthy peer of the same torrent was no longer served: " + healthy))
    waiting = _waiting_ok(case)
    waiting = (waiting + [False] * len(d1))[:len(d1)]
    stalled = [d for d in d1 if _unparsed_complete(d)]
    if stalled:
        kl = "handover-unparsed" if " ho=-" not in case else "complete-message-undispatched"
        bad.append((kl, "after quiescence the connection is open and idle with a complete message undispatched at the head of its "
                        "read buffer: '%s'" % stalled[0]))
    d1cmp = [strip_pend(d) for k, d in enumerate(d1) if not waiting[k]]
    if len(set(d1cmp)) > 1:
        kl = "meta-bitfield-stall" if case.startswith("role=meta") and any("st=SKIP" in d for d in d1cmp) else "segmentation-dependent"
        bad.append((kl, "state after quiescence differs between segmentations of the same stream: " + " <> ".join(sorted(set(d1cmp)))[:300]))

    def norm(x):
        if " xr=" in case and " xr=- " not in case:
            # deliveries that differ in WHERE the write-ready events fall: the relative order of independent write-side
            # messages (CHOKE/UNCHOKE vs an extension reply) legitimately follows it: compared as multisets
            a, _, r = x.partition(" resp=")
            return a + " resp=" + ",".join(sorted(r.split(",")))
        return x
    d2cmp = [norm(x) for k, x in enumerate(d2) if not (k < len(waiting) and waiting[k])]
    if len(set(d2cmp)) > 1:
        bad.append(("segmentation-dependent-responses", "responses / liveness after releasing the writer differ between segmentations"))
    return bad


def run(rep, tier, seed, replay):
    coq = ltv.coq_build("C03")
    rep.cov.update(obligations=coq["obligations"], discharged=coq["discharged"], checker_cmd=coq["checker_cmd"],
                   theorems=coq["theorems"], axioms_per_theorem=coq["axioms"],
                   trusted_base=ltv.std_trusted_base(coq, [
                       "modelled not verified: handler effects beyond bitfield/choke/upload-queue (request list, delegator, chunk store, "
                       "extension message contents: the per-message close verdict of read_done is an input of the case), "
                       "kernel socket semantics (recv returns a prefix of the queued bytes), epoll level triggering",
                       "session harness (harness/common/session.*, wirepeer.h), write side held in ProtocolWrite::MSG during delivery",
                       "sanitizers (ASan+UBSan) as the observer of memory safety; MSE keystream/DH of the scripted peer from OpenSSL + harness/common/msepeer.h"]))
    model = ltv.build_model("C03")
    impl = ltv.build_harness("c03", ["c03.cc", "common/session.cc"], libs=["-lcrypto"])
    if replay:
        cases = [json.load(open(replay))["case"]]
        stats = {"replay": 1}
    else:
        cases, stats = G.gen(seed, tier)
    mo, ptables, pstats = probe_policy(model, impl, cases)
    stats["policy_probe"] = pstats
    io = ltv.run_sharded(impl, cases, timeout=900)
    nontrivial = set()
    mism = 0
    samples = []
    nseg = 0
    for i, case in enumerate(cases):
        m = mo[i] if i < len(mo) else "MISSING"
        o = io[i] if i < len(io) else "MISSING"
        free = case.startswith("mode=free")
        case = with_policy(case, ptables.get(i, {})) if " pol=" not in case else case
        if len(samples) < 5 and i % 97 == 5:
            samples.append({"case": case[:300], "impl": o[:300]})
        viol = oracle(case, m, o)
        if free:
            if "alive=" in o:
                nontrivial.add(hashlib.sha1(case.encode()).digest())
            for kl, text in viol:
                rep.violation(text, case=case, model=m, impl=o, theorem="property oracle C03 (free mode: safety)", klass=kl)
            continue
        md1 = m.partition(" || ")[0]
        od1 = " / ".join(strip_pend(d) for d in o.partition(" || ")[0].split(" / "))
        nseg += len(od1.split(" / "))
        # non-trivial: the stream got past the first message without being closed in at least one delivery, or was closed by a
        # handler-level decision (not by the first length/id check)
        effs = m.partition(" ;; ")[2].split()
        if len(effs) >= 2:
            nontrivial.add(hashlib.sha1(case.encode()).digest())
        if md1 != od1:
            mism += 1
            if viol:
                kl, text = viol[0]
                rep.violation("the property fails on the implementation (and model and implementation differ): " + text,
                              case=case, model=m, impl=o, theorem="correspondence C03 (state digest per segmentation)", klass=kl)
            else:
                rep.violation("correspondence broken: model and implementation digests differ; every clause of the property holds on the "
                              "implementation for this input (no crash/fatal/hang, other peer served, its own runs under the different "
                              "segmentations agree, no complete message left undispatched)",
                              case=case, model=m, impl=o, theorem="correspondence C03 (state digest per segmentation)", found_input=False)
        else:
            for kl, text in viol:
                rep.violation(text, case=case, model=m, impl=o, theorem="property oracle C03", klass=kl)
    if not coq["ok"]:
        rep.violation("C03 proof obligations no longer check (%d/%d): %s %s" % (
            coq["discharged"], coq["obligations"], "; ".join(coq["lint"] + coq["bad_axioms"]), coq["log"][-1500:]),
            theorem="coq/C03/Properties.v", found_input=False)
    rep.cov.update(evaluations=len(cases), deliveries=nseg, distinct_nontrivial=len(nontrivial),
                   rule="cases = corpus + hand list + grammar sessions with one single-field mutation + raw random bytes (each under "
                        ">= 4 segmentations, every delivery on a fresh connection) + free-mode reactive PIECE scenarios; non-trivial = "
                        "distinct case whose decode emits at least two effects (exact) or that ran to the end (free)",
                   samples=samples, input_distribution=stats, mismatches=mism, exhaustive=False)
    rep.assumptions += ["plain-text and MSE/RC4 (harness/common/msepeer.h, peer = initiator) connections for the PeerConnection<> roles; metadata role plain only", "incoming connections, private torrents (PEX off), DHT off",
                        "metadata (magnet) connection role driven with a magnet-style meta_download torrent; its ut_metadata piece exchange is C20's",
                        "exact comparison with the write side held; free-mode scenarios judged on safety only"]
