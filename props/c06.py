"""C06 — MSE / plain handshake negotiation: proof obligations + correspondence + property oracle."""
import hashlib
import json
import re

import ltv
from gen import c06 as G


def norm(line):
    # "CRASH rc=3": the harness printed ERR:internal and left with _exit(3) while run_sharded was running that case alone
    return "ERR:internal" if line.startswith("ERR:internal") or line == "CRASH rc=3" else line


def parse_case(case):
    f = case.split()
    d = dict(dir=f[0], hs=int(f[1]), st=int(f[2]), chk=f[3] == "1")
    d["scripts"] = [x for x in f[4:] if not x.startswith("#")]
    return d


def offer_of(c):
    """remote offer of a cooperative script: ('plain',) / ('mse', p) / ('both', p)"""
    if c["dir"] == "I":
        sc = c["scripts"][0]
        if sc.startswith("cH"):
            return ("plain", 0)
        m = re.search(r"e:0{16}([0-9a-f]{8})[0-9a-f]{4}", sc)
        return ("mse", int(m.group(1), 16)) if m else None
    sp, sm = c["scripts"][0], c["scripts"][1]
    m = re.search(r"N(\d+)\.", sm)
    if sp != "X" and m:
        return ("both", int(m.group(1)))
    if sp != "X":
        return ("plain", 0)
    return ("mse", int(m.group(1))) if m else None


def local_allows(hs, st, enc, mode):
    """strict reading: the stream policy also governs connections made with a plain handshake"""
    if enc:
        return hs != 0 and (st != 0 if mode == 2 else st != 3)
    return mode == 1 and hs != 3 and st != 3


def remote_allows(off, enc, mode):
    kind, p = off
    if enc:
        return kind in ("mse", "both") and bool(p & (1 << (mode - 1)))
    return kind in ("plain", "both") and mode == 1


TYPES = [(False, 1), (True, 1), (True, 2)]


def oracle(case, tag, line):
    """Property C06 on ONE implementation output line -> list of (klass, text)."""
    bad = []
    if line.startswith("ERR:internal") or line.startswith("CRASH"):
        c0 = parse_case(case)
        if "validate_modes" in line or (line == "CRASH rc=3" and c0["dir"] == "O" and c0["hs"] == 2 and c0["st"] == 3):
            return [("retry-plaintext-policy-internal-error",
                     "an outgoing MSE attempt that fails before the peer's key arrives is retried as EncryptionPolicy(DENY, REQUIRE), "
                     "whose constructor throws internal_error (policy handshake=prefer, stream=require): " + line[:160])]
        if "Unread data" in line:
            return [("unread-overflow", "receive_succeeded: unread handshake data does not fit the connection's buffer: " + line[:160])]
        return [("crash", "handshake bytes took the library down: " + line[:200])]
    if line.startswith("ERR:") or line == "BADCASE":
        return [("harness", "harness error: " + line[:200])]
    c = parse_case(case)
    f = dict(x.split("=", 1) for x in line.split() if "=" in x)
    attempts = re.findall(r"a\d+[pm]?:(\S*)", line)
    kinds = re.findall(r"a\d+([pm]):", line)
    if c["hs"] == 3 and "p" in kinds:
        bad.append(("plaintext-attempt-despite-handshake-require", "policy handshake=require but the library dialled / re-dialled with a plaintext handshake"))
    if c["hs"] == 0 and "m" in kinds:
        bad.append(("mse-attempt-despite-handshake-deny", "policy handshake=deny but the library dialled / re-dialled with an MSE handshake"))
    last = attempts[-1].split(",")[-1] if attempts and attempts[-1] else ""
    ok = last == "ok"
    alive = bool(re.match(r"^\d+\.\d+\.\d+$", last))
    if f.get("lib") == "late":
        bad.append(("unread-handshake-data-delayed", "data coalesced with the peer's handshake was only parsed after the peer sent another message (regression of /repo 5c4764e)"))
    if f.get("lib") == "bad":
        bad.append(("stream-misaligned", "post-handshake data sent by the peer was not decoded by the connection"))
    if c["dir"] == "O" and len(attempts) >= 2:
        sts = [int(x.split(".")[0]) for x in attempts[0].split(",") if re.match(r"^\d+\.\d+\.\d+$", x)]
        if any((7 <= v <= 11) or v >= 13 for v in sts):
            bad.append(("retried-after-peer-recognised", "outgoing attempt was retried although the peer's key / handshake had already been recognised"))
        if len(attempts) >= 3:
            bad.append(("retried-more-than-once", "outgoing attempt retried more than once"))
    if c["chk"] and alive:
        port = any(h in case for h in ("0000000309", "0000000209", "0000000109"))
        bad.append(("stall-after-split-port-message" if port else "stall",
                    "a protocol-following peer's handshake neither succeeds nor fails (handshake left in state %s, no read or write interest)" % last))
    if tag in ("matrix", "segmentation", "bytewise") and c["chk"]:
        off = offer_of(c)
        if off is not None:
            both = [t for t in TYPES if local_allows(c["hs"], c["st"], *t) and remote_allows(off, *t)]
            compatible = bool(both)
            if ok:
                w = f.get("w", "")
                enc = "K" in w
                m = re.search(r"S(\d+)", w)
                if c["dir"] == "I":
                    mode = int(m.group(1)) if (enc and m) else 1
                else:
                    mode = None if enc else 1      # outgoing MSE: the responder chose; checked through provide
                    pm = re.search(r"P(\d+)", w)
                    if enc and pm:
                        want = (1 if c["st"] != 3 else 0) | (2 if c["st"] != 0 else 0)
                        if int(pm.group(1)) != want:
                            bad.append(("crypto-provide", "crypto_provide %s does not equal the stream modes the policy allows (%d)" % (pm.group(1), want)))
                if mode is not None and (enc, mode) not in both:
                    if not enc and c["st"] == 3:
                        bad.append(("plain-handshake-despite-stream-require",
                                    "policy stream=require (plaintext stream not allowed) but a plain BitTorrent handshake was accepted/made and the stream is unencrypted"))
                    else:
                        bad.append(("mode-not-allowed", "handshake succeeded with a type/stream mode (%s,%s) that one side does not allow" % (enc, mode)))
                elif mode is not None and c["dir"] == "I" and (True, 1) in both and (True, 2) in both:
                    pref = 2 if c["st"] in (2, 3) else 1
                    if mode != pref:
                        bad.append(("mode-not-preferred", "both stream modes possible, selected %d but the policy prefers %d" % (mode, pref)))
                if not compatible and not bad:
                    bad.append(("incompatible-but-connected", "handshake succeeded although no connection type is allowed by both sides"))
                if f.get("m", "-") in ("-", "?"):
                    bad.append(("library-stream-unreadable", "the peer could not decode the library's first messages"))
            elif not alive and compatible:
                bad.append(("compatible-but-failed", "requirements are compatible but the handshake failed (%s)" % last))
    return bad


def run(rep, tier, seed, replay):
    coq = ltv.coq_build("C06")
    rep.cov.update(obligations=coq["obligations"], discharged=coq["discharged"], checker_cmd=coq["checker_cmd"],
                   theorems=coq["theorems"], axioms_per_theorem=coq["axioms"],
                   trusted_base=ltv.std_trusted_base(coq, [
                       "modelled not verified: DH / SHA-1 / RC4 (symbolic cells: a byte decrypts to its plaintext iff the receiver's keystream index equals the sender's; sync patterns never occur in other data)",
                       "modelled not verified: write side reduced to 'socket always writable, writes complete' (flags wint/wbf), local bitfield not empty, no DHT, no proxy, not a meta download",
                       "extension-handshake payload assumed valid bencode (parsing belongs to C20); OpenSSL's DH public-key range check as 1 < Y < p-1",
                       "harness/common/msepeer.h (independent MSE peer: OpenSSL BIGNUM + SHA-1, own RC4), harness/c06.cc, ocaml/c06_driver.ml token expansion, python oracle props/c06.py"]))
    model = ltv.build_model("C06")
    impl = ltv.build_harness("c06", ["c06.cc", "common/session.cc"], libs=["-lcrypto"])
    if replay:
        j = json.load(open(replay))
        cases, tags, stats = [j["case"]], ["replay"], {"replay": 1}
    else:
        cases, tags, stats = G.gen_tagged(seed, tier)
    mo = ltv.run_sharded(model, cases)
    io = ltv.run_sharded(impl, cases, timeout=900)
    nontrivial, mism, late, samples = set(), 0, 0, []
    outcomes = {}
    for i, case in enumerate(cases):
        m = mo[i] if i < len(mo) else "MISSING"
        o = io[i] if i < len(io) else "MISSING"
        last = re.findall(r"a\d+[pm]?:(\S*)", o)
        lastv = last[-1].split(",")[-1] if last and last[-1] else o[:12]
        key = "alive" if re.match(r"^\d+\.\d+\.\d+$", lastv) else lastv
        outcomes[key] = outcomes.get(key, 0) + 1
        if re.search(r"a\d+[pm]?:(\d+\.\d+\.\d+,|ok)", o) or "ok" in o:
            nontrivial.add(hashlib.sha1(case.encode()).digest())
        if "lib=late" in o:
            late += 1
        if len(samples) < 6 and i % 211 == 7:
            samples.append({"case": case[:200], "impl": o[:300]})
        tg = case.rsplit(" #", 1)[1] if " #" in case else tags[i]
        viol = oracle(case, tg, o)
        if m != norm(o):
            mism += 1
            ml = re.findall(r"a\d+[pm]?:(\S*)", m)
            mlast = ml[-1].split(",")[-1] if ml and ml[-1] else ""
            if not viol and mlast.startswith("f") and lastv == "ok":
                viol = [("malformed-handshake-accepted", "a handshake the code as modelled rejects (%s) was accepted" % mlast)]
            if viol:
                kl, text = viol[0]
                rep.violation("model and implementation differ AND the property fails on the implementation: " + text,
                              case=case, model=m, impl=o, theorem="correspondence C06 (per-segment state, outcome, negotiated values)", klass=kl)
            else:
                rep.violation("correspondence broken: model and implementation differ on this scenario (property oracle holds on it)",
                              case=case, model=m, impl=o, theorem="correspondence C06 (per-segment state, outcome, negotiated values)", found_input=False)
        else:
            for kl, text in viol:
                rep.violation(text, case=case, model=m, impl=o, theorem="property oracle C06", klass=kl)
    if not coq["ok"]:
        rep.violation("C06 proof obligations no longer check (%d/%d): %s %s" % (
            coq["discharged"], coq["obligations"], "; ".join(coq["lint"] + coq["bad_axioms"]), coq["log"][-1500:]),
            theorem="coq/C06/Properties.v", found_input=False)
    rep.cov.update(evaluations=len(cases), distinct_nontrivial=len(nontrivial),
                   rule="non-trivial = distinct scenario in which the library's handshake got past its first read (a per-segment state was observed) or succeeded",
                   samples=samples, input_distribution=stats, outcome_distribution=outcomes, mismatches=mism,
                   observations={"unread_handshake_data_parsed_only_with_next_read (lib=late)": late},
                   exhaustive=(tier == "thorough"),
                   exhaustive_scope="thorough: all 15 policies x {in,out} x {plain, MSE 1,2,3} x pad lengths {0,1,255,511,512}^2 x IA on/off, whole-segment" if tier == "thorough" else "")
    rep.assumptions += ["scripted peer on loopback, library stepped to quiescence after every segment (event_write runs between segments)",
                        "local torrent has some but not all pieces (bitfield is sent); DHT off; no proxy",
                        "pad and key bytes do not contain the 20-byte req1 hash / 8-byte encrypted VC by accident"]
