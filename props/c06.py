"""C06 — MSE / plain handshake negotiation: proof obligations + correspondence + property oracle."""
import hashlib
import json
import re

import ltv
from gen import c06 as G


def norm(line):
    """projection of an output line onto what the property talks about: per-segment state, closed/open/ok,
    attempts and their handshake type, negotiated values, decoded bytes. The error class / code of a
    failure is not constrained by the property (ROBUSTNESS rule 4) and is projected out."""
    # "CRASH rc=3": the harness printed ERR:internal and left with _exit(3) while run_sharded was running that case alone
    if line.startswith("ERR:internal") or line == "CRASH rc=3":
        return "ERR:internal"
    if line == "HANG" or line == "CRASH rc=5":
        return "HANG"
    return re.sub(r"(?<=[:,])(f\d+\.[\d?]+|drop|gone)(?=[ ,]|$)", "closed", line)


def used_script(c, line):
    """tokens of the script the peer actually ran in the last attempt"""
    if c["dir"] == "I":
        sc = c["scripts"][0]
    else:
        kinds = re.findall(r"a\d+([pm]):", line)
        if not kinds or len(c["scripts"]) < 2:
            return []
        sc = c["scripts"][0] if kinds[-1] == "p" else c["scripts"][1]
    toks = []
    for ph in sc.split("/"):
        toks += [t for t in ph.rsplit("@", 1)[0].split(",") if t]
    return toks


def expect_closed(c, line):
    """property clause 'a handshake for an unknown, inactive or own-id torrent, or any malformed
    handshake, ends with that socket closed', decided from the SCRIPT alone (independent of the model):
    returns (token, reason) if the peer's script is one the library must not turn into a connection"""
    toks = used_script(c, line)
    skey = None
    for t in toks:
        if t[0] == "S" and t[1:].isdigit():
            skey = int(t[1:])
            if skey in (2, 3):
                return ("skey-%s-torrent" % ("inactive" if skey == 2 else "unknown"), "the obfuscated SKEY names a torrent that is %s" % ("not active" if skey == 2 else "not loaded"))
        m = re.match(r"^[ecm]H(\d)(\d)(\d)$", t)
        if m:
            ht, idk = int(m.group(1)), int(m.group(2))
            if idk == 1:
                return ("own-id", "the handshake carries the library's own peer id")
            if ht in (2, 3):
                return ("hash-%s-torrent" % ("inactive" if ht == 2 else "unknown"), "the handshake names a torrent that is %s" % ("not active" if ht == 2 else "not loaded"))
            if c["dir"] == "I" and skey is not None and ht != skey:
                return ("mse-inner-hash-mismatch", "valid MSE for torrent kind %d but the inner BitTorrent handshake names torrent kind %d" % (skey, ht))
            if c["dir"] == "O" and ht != 1:
                return ("outgoing-hash-mismatch", "the peer answers a dial for torrent kind 1 with info hash of torrent kind %d" % ht)
        m = re.match(r"^e:([0-9a-f]{16})([0-9a-f]{8})([0-9a-f]{4})$", t)
        if m and c["dir"] == "I":
            if int(m.group(1), 16) != 0:
                return ("bad-vc", "ENCRYPT(VC) does not decrypt to eight zero bytes")
            if int(m.group(2), 16) & 3 == 0:
                return ("no-crypto-provide", "crypto_provide offers neither plaintext nor RC4")
            if int(m.group(3), 16) > 512:
                return ("pad-too-long", "len(PadC) > 512")
        m = re.match(r"^V(\d+)\.(\d+)$", t)
        if m and (int(m.group(1)) not in (1, 2) or int(m.group(2)) > 512):
            return ("bad-crypto-select", "crypto_select is not exactly one offered method / len(PadD) > 512")
    return None


def parse_case(case):
    f = case.split()
    d = dict(dir=f[0], hs=int(f[1]), st=int(f[2]), chk=f[3] == "1")
    d["scripts"] = [x for x in f[4:] if not x.startswith("#")]
    return d


def offer_of(c):
    """remote offer of a cooperative script: ('plain',) / ('mse', p) / ('both', p)"""
    if c["dir"] == "I":
        sc = c["scripts"][0]
        if sc.startswith("cH"):
            return ("plain", 0)
        m = re.search(r"e:0{16}([0-9a-f]{8})[0-9a-f]{4}", sc)
        return ("mse", int(m.group(1), 16)) if m else None
    sp, sm = c["scripts"][0], c["scripts"][1]
    m = re.search(r"N(\d+)\.", sm)
    if sp != "X" and m:
        return ("both", int(m.group(1)))
    if sp != "X":
        return ("plain", 0)
    return ("mse", int(m.group(1))) if m else None


def local_allows(hs, st, enc, mode):
    """strict reading: the stream policy also governs connections made with a plain handshake"""
    if enc:
        return hs != 0 and (st != 0 if mode == 2 else st != 3)
    return mode == 1 and hs != 3 and st != 3


def remote_allows(off, enc, mode):
    kind, p = off
    if enc:
        return kind in ("mse", "both") and bool(p & (1 << (mode - 1)))
    return kind in ("plain", "both") and mode == 1


TYPES = [(False, 1), (True, 1), (True, 2)]


def oracle(case, tag, line):
    """Property C06 on ONE implementation output line -> list of (klass, text)."""
    if case.startswith("D "):
        # two concurrent incoming handshakes: the property holds for each on its own ("nothing else affected")
        f = case.split()
        m = re.match(r"^A\[(.*)\] B\[(.*)\]$", line)
        if not m:
            return oracle("I %s %s %s %s" % (f[1], f[2], f[3], f[4]), "matrix", line)
        out = []
        for name, sc, sub in (("A", f[4], m.group(1)), ("B", f[5], m.group(2))):
            for kl, text in oracle("I %s %s %s %s" % (f[1], f[2], f[3], sc), "matrix", sub):
                out.append((("concurrent-" + kl) if kl in ("compatible-but-failed", "stall", "stream-misaligned", "library-stream-unreadable") else kl,
                            "peer %s of two concurrent incoming handshakes: %s" % (name, text)))
        return out
    bad = []
    if "a0:noconnect" in line or line.startswith("ERR:connect") or line.startswith("ERR:listen"):
        return [("setup-failed", "the scenario could not be set up even when re-run alone three times (the library made no outgoing connection / the scripted peer could not connect): " + line[:80])]
    if line == "HANG" or line == "CRASH rc=5":
        return [("hang", "the implementation did not finish this scenario within the 10 min per-case watchdog")]
    if line.startswith("ERR:internal") or line.startswith("CRASH"):
        c0 = parse_case(case)
        if "validate_modes" in line or (line == "CRASH rc=3" and c0["dir"] == "O" and c0["hs"] == 2 and c0["st"] == 3):
            return [("retry-plaintext-policy-internal-error",
                     "an outgoing MSE attempt that fails before the peer's key arrives is retried as EncryptionPolicy(DENY, REQUIRE), "
                     "whose constructor throws internal_error (policy handshake=prefer, stream=require): " + line[:160])]
        if "Unread data" in line:
            return [("unread-overflow", "receive_succeeded: unread handshake data does not fit the connection's buffer: " + line[:160])]
        return [("crash", "handshake bytes took the library down: " + line[:200])]
    if line.startswith("ERR:") or line == "BADCASE":
        return [("harness", "harness error: " + line[:200])]
    c = parse_case(case)
    f = dict(x.split("=", 1) for x in line.split() if "=" in x)
    attempts = re.findall(r"a\d+[pm]?:(\S*)", line)
    kinds = re.findall(r"a\d+([pm]):", line)
    if c["hs"] == 3 and "p" in kinds:
        bad.append(("plaintext-attempt-despite-handshake-require", "policy handshake=require but the library dialled / re-dialled with a plaintext handshake"))
    if c["hs"] == 0 and "m" in kinds:
        bad.append(("mse-attempt-despite-handshake-deny", "policy handshake=deny but the library dialled / re-dialled with an MSE handshake"))
    last = attempts[-1].split(",")[-1] if attempts and attempts[-1] else ""
    ok = last == "ok"
    alive = bool(re.match(r"^\d+\.\d+\.\d+$", last))
    ec = expect_closed(c, line)
    if ec and ok:
        bad.append(("accepted-" + ec[0], "the handshake became a connection although " + ec[1]))
    if f.get("lib") == "late":
        bad.append(("unread-handshake-data-delayed", "data coalesced with the peer's handshake was only parsed after the peer sent another message (regression of /repo 5c4764e)"))
    if f.get("lib") == "bad":
        bad.append(("stream-misaligned", "post-handshake data sent by the peer was not decoded by the connection"))
    if c["dir"] == "O" and len(attempts) >= 2:
        sts = [int(x.split(".")[0]) for x in attempts[0].split(",") if re.match(r"^\d+\.\d+\.\d+$", x)]
        if any((7 <= v <= 11) or v >= 13 for v in sts):
            bad.append(("retried-after-peer-recognised", "outgoing attempt was retried although the peer's key / handshake had already been recognised"))
        if len(attempts) >= 3:
            bad.append(("retried-more-than-once", "outgoing attempt retried more than once"))
    if c["chk"] and alive:
        port = any(h in case for h in ("0000000309", "0000000209", "0000000109"))
        bad.append(("stall-after-split-port-message" if port else "stall",
                    "a protocol-following peer's handshake neither succeeds nor fails (handshake left in state %s, no read or write interest)" % last))
    if tag in ("matrix", "segmentation", "bytewise") and c["chk"]:
        off = offer_of(c)
        if off is not None:
            both = [t for t in TYPES if local_allows(c["hs"], c["st"], *t) and remote_allows(off, *t)]
            compatible = bool(both)
            if ok:
                w = f.get("w", "")
                enc = "K" in w
                m = re.search(r"S(\d+)", w)
                if c["dir"] == "I":
                    mode = int(m.group(1)) if (enc and m) else 1
                else:
                    mode = None if enc else 1      # outgoing MSE: the responder chose; checked through provide
                    pm = re.search(r"P(\d+)", w)
                    if enc and pm:
                        want = (1 if c["st"] != 3 else 0) | (2 if c["st"] != 0 else 0)
                        if int(pm.group(1)) != want:
                            bad.append(("crypto-provide", "crypto_provide %s does not equal the stream modes the policy allows (%d)" % (pm.group(1), want)))
                if mode is not None and (enc, mode) not in both:
                    if not enc and c["st"] == 3:
                        bad.append(("plain-handshake-despite-stream-require",
                                    "policy stream=require (plaintext stream not allowed) but a plain BitTorrent handshake was accepted/made and the stream is unencrypted"))
                    else:
                        bad.append(("mode-not-allowed", "handshake succeeded with a type/stream mode (%s,%s) that one side does not allow" % (enc, mode)))
                elif mode is not None and c["dir"] == "I" and (True, 1) in both and (True, 2) in both:
                    pref = 2 if c["st"] in (2, 3) else 1
                    if mode != pref:
                        bad.append(("mode-not-preferred", "both stream modes possible, selected %d but the policy prefers %d" % (mode, pref)))
                if not compatible and not bad:
                    bad.append(("incompatible-but-connected", "handshake succeeded although no connection type is allowed by both sides"))
                if f.get("m", "-") in ("-", "?"):
                    bad.append(("library-stream-unreadable", "the peer could not decode the library's first messages"))
            elif not alive and compatible:
                bad.append(("compatible-but-failed", "requirements are compatible but the handshake failed (%s)" % last))
    return bad


PROBE_TYPES = {"c06_ext_first_invalid": "N", "c06_ext_max_len": "N", "c06_dh_prime": "list N"}


def probe_params(impl):
    """run `harness --params` (constants of the COMPILED code), write coq/C06/ParamsProbe.v only if it
    changed; returns ({name: value}, notes of the optional source-regex cross-check)"""
    import os
    out, err, rc = ltv.run_lines(impl, [], args=["--params"], timeout=120)
    vals = {}
    for l in out:
        t = l.split()
        if len(t) >= 2 and t[0].startswith("c06_"):
            vals[t[0]] = [int(x) for x in t[1:]]
    need = ["c06_part1_size", "c06_part2_size", "c06_handshake_size", "c06_read_message_size", "c06_enc_negotiation_size",
            "c06_enc_pad_size", "c06_enc_pad_read_size", "c06_buffer_size", "c06_vc_length", "c06_dh_key_length",
            "c06_pcb_read_buffer", "c06_ext_first_invalid", "c06_ext_max_len", "c06_dh_prime"]
    if rc != 0 or any(n not in vals for n in need):
        raise ltv.BuildError("C06 harness --params probe failed: %r %s" % (out[:3], err[-300:]))
    lines = ["(* WRITTEN by props/c06.py from `harness/c06.cc --params` (compiled code) on every run. Do not edit. *)",
             "From Coq Require Import NArith ZArith List.", "Import ListNotations.", "Module Params.", ""]
    for n in need:
        ty = PROBE_TYPES.get(n, "nat")
        if ty == "list N":
            lines.append("Definition %s : list N := [%s]." % (n, ";".join("%d%%N" % v for v in vals[n])))
        else:
            lines.append("Definition %s : %s := %d%%%s." % (n, ty, vals[n][0], ty))
    lines += ["", "End Params.", ""]
    txt = "\n".join(lines)
    path = os.path.join(ltv.COQ, "C06", "ParamsProbe.v")
    old = open(path).read() if os.path.exists(path) else None
    if old != txt:
        tmp = path + ".%d.tmp" % os.getpid()
        with open(tmp, "w") as f:
            f.write(txt)
        os.replace(tmp, path)
    notes = []
    try:
        import importlib.util
        spec = importlib.util.spec_from_file_location("params_c06", os.path.join(ltv.VERIF, "gen", "params_c06.py"))
        m = importlib.util.module_from_spec(spec)
        spec.loader.exec_module(m)
        from gen import params as GP
        for ent in getattr(m, "CROSSCHECK", []):
            name, rel, rx = ent[0], ent[1], ent[2]
            conv = ent[4] if len(ent) > 4 else None
            try:
                src = open(os.path.join(ltv.REPO, rel), errors="replace").read()
            except OSError:
                continue
            mm = re.search(rx, src, flags=re.S)
            if not mm:
                continue
            try:
                v = conv(mm) if conv else GP._int(mm.group(1))
            except Exception:
                continue
            if isinstance(v, int) and name in vals and vals[name][0] != v:
                notes.append("%s: source regex says %d, compiled code says %d" % (name, v, vals[name][0]))
    except Exception as ex:      # the cross-check is optional
        notes.append("source cross-check skipped: %s" % ex)
    return {k: (v[0] if len(v) == 1 else v) for k, v in vals.items()}, notes


def run(rep, tier, seed, replay):
    impl = ltv.build_harness("c06", ["c06.cc", "common/session.cc"], libs=["-lcrypto"])
    # coq/C06/ParamsProbe.v and the extracted model are shared files: two concurrent C06 runs on different
    # trees (tools/try_patch.sh) must not interleave probe -> Coq build -> model build
    with ltv.Lock("c06-probe"):
        probe, probe_notes = probe_params(impl)
        coq = ltv.coq_build("C06")
        model = ltv.build_model("C06")
    rep.cov.update(obligations=coq["obligations"], discharged=coq["discharged"], checker_cmd=coq["checker_cmd"],
                   theorems=coq["theorems"], axioms_per_theorem=coq["axioms"],
                   trusted_base=ltv.std_trusted_base(coq, [
                       "modelled not verified: DH / SHA-1 / RC4 (symbolic cells: a byte decrypts to its plaintext iff the receiver's keystream index equals the sender's; sync patterns never occur in other data)",
                       "modelled not verified: write side reduced to 'socket always writable, writes complete' (flags wint/wbf), local bitfield not empty, no DHT, no proxy, not a meta download",
                       "extension-handshake payload assumed valid bencode (parsing belongs to C20); OpenSSL's DH public-key range check as 1 < Y < p-1",
                       "constants of the model (coq/C06/ParamsProbe.v) are read from the COMPILED code by harness/c06.cc --params; source regexes only as optional cross-check",
                       "harness/common/msepeer.h (independent MSE peer: OpenSSL BIGNUM + SHA-1, own RC4), harness/c06.cc, ocaml/c06_driver.ml token expansion, python oracle props/c06.py"]))
    if replay:
        j = json.load(open(replay))
        cases, tags, stats = [j["case"]], ["replay"], {"replay": 1}
    else:
        cases, tags, stats = G.gen_tagged(seed, tier)
    mo = ltv.run_sharded(model, cases)
    io = ltv.run_sharded(impl, cases, timeout=7200)
    # harness-level set-up failure (the library never got as far as connecting out: att=0) is not a statement
    # about the property: such a case is re-run serially, nothing else running, up to 3 times; only a case
    # that still cannot be set up is reported (klass setup-failed, with the case: a tree that really cannot
    # connect out must still be caught)
    setup_reruns = 0
    for i in range(min(len(io), len(cases))):
        if "a0:noconnect" in io[i] or io[i].startswith("ERR:connect") or io[i].startswith("ERR:listen"):
            for _ in range(3):
                setup_reruns += 1
                r1, e1, rc1 = ltv.run_lines(impl, [cases[i]], timeout=900)
                if len(r1) == 1:
                    io[i] = r1[0]
                    if not ("a0:noconnect" in r1[0] or r1[0].startswith("ERR:connect") or r1[0].startswith("ERR:listen")):
                        break
    nontrivial, mism, late, samples = set(), 0, 0, []
    padb_over = 0
    outcomes = {}
    for i, case in enumerate(cases):
        m = mo[i] if i < len(mo) else "MISSING"
        o = io[i] if i < len(io) else "MISSING"
        last = re.findall(r"a\d+[pm]?:(\S*)", o)
        lastv = last[-1].split(",")[-1] if last and last[-1] else o[:12]
        key = "alive" if re.match(r"^\d+\.\d+\.\d+$", lastv) else lastv
        outcomes[key] = outcomes.get(key, 0) + 1
        if re.search(r"a\d+[pm]?:(\d+\.\d+\.\d+,|ok)", o) or "ok" in o:
            nontrivial.add(hashlib.sha1(case.encode()).digest())
        if "lib=late" in o:
            late += 1
        mp = re.match(r"^O \d \d \d \S+ K,O(\d+),", case)
        if mp and int(mp.group(1)) > 512 and re.search(r"a\d+m:(\S*,)?ok", o):
            padb_over += 1
        if len(samples) < 6 and i % 211 == 7:
            samples.append({"case": case[:200], "impl": o[:300]})
        tg = case.rsplit(" #", 1)[1] if " #" in case else tags[i]
        viol = oracle(case, tg, o)
        if norm(m) != norm(o):
            mism += 1
            if viol:
                kl, text = viol[0]
                rep.violation("model and implementation differ AND the property fails on the implementation: " + text,
                              case=case, model=m, impl=o, theorem="correspondence C06 (per-segment state, outcome, negotiated values)", klass=kl)
            else:
                rep.violation("correspondence broken: model and implementation differ on this scenario (property oracle holds on it)",
                              case=case, model=m, impl=o, theorem="correspondence C06 (per-segment state, outcome, negotiated values)", found_input=False)
        else:
            for kl, text in viol:
                rep.violation(text, case=case, model=m, impl=o, theorem="property oracle C06", klass=kl)
    if not coq["ok"]:
        rep.violation("C06 proof obligations no longer check (%d/%d): %s %s" % (
            coq["discharged"], coq["obligations"], "; ".join(coq["lint"] + coq["bad_axioms"]), coq["log"][-1500:]),
            theorem="coq/C06/Properties.v", found_input=False)
    rep.cov.update(evaluations=len(cases), distinct_nontrivial=len(nontrivial),
                   rule="non-trivial = distinct scenario in which the library's handshake got past its first read (a per-segment state was observed) or succeeded",
                   samples=samples, input_distribution=stats, outcome_distribution=outcomes, mismatches=mism,
                   setup_reruns=setup_reruns,
                   observations={"unread_handshake_data_parsed_only_with_next_read (lib=late)": late,
                                 "outgoing_handshake_succeeded_with_PadB_over_512 (coalesced with the key; coq padb_bound_512_refuted)": padb_over},
                   exhaustive=(tier == "thorough"),
                   exhaustive_scope="thorough: all 15 policies x {in,out} x {plain, MSE 1,2,3} x pad lengths {0,1,255,511,512}^2 x IA on/off, whole-segment" if tier == "thorough" else "")
    rep.cov.update(params_probe=probe, params_source_crosscheck=probe_notes,
                   compared_projection="per-segment state.pos.end, ok/closed/alive, attempts and handshake type per attempt, w= (key, VC, select, provide, handshake encrypted?), m= (first message ids), lib= (peer's coalesced messages decoded); error class/code and log text projected out")
    rep.assumptions += ["scripted peer on loopback, library stepped to quiescence after every segment (event_write runs between segments)",
                        "local torrent has some but not all pieces (bitfield is sent); DHT off; no proxy",
                        "pad and key bytes do not contain the 20-byte req1 hash / 8-byte encrypted VC by accident"]
