"""C19 — scheduler timers: proof obligations + correspondence + property oracle."""
import hashlib
import json

import ltv
from gen import c19 as G


# Poll::do_poll(std::chrono::microseconds): wrapped at link time so the harness sees the timeout Thread::event_loop passes
DO_POLL_SYM = "_ZN7torrent6system4Poll7do_pollENSt6chrono8durationIlSt5ratioILl1ELl1000000EEEE"


def run(rep, tier, seed, replay):
    coq = ltv.coq_build("C19")
    rep.cov.update(obligations=coq["obligations"], discharged=coq["discharged"], checker_cmd=coq["checker_cmd"],
                   theorems=coq["theorems"], axioms_per_theorem=coq["axioms"],
                   trusted_base=ltv.std_trusted_base(coq, [
                       "modelled not verified: libstdc++ 12 std::__push_heap/__adjust_heap/__pop_heap (coq/C19/Model.v push_loop/adjust_down/adjust_heap), "
                       "std::unique_ptr identity as a fresh counter, std::function slots as scripts of scheduler ops; "
                       "tied to the real code by comparing the raw m_heap array after every case",
                       "int64 overflow of microsecond arithmetic is outside the model (|t| < 2^62)",
                       "python reference spec gen/c19.py (Spec/oracle: finite map entry -> due time) for the property verdict on implementation outputs",
                       "harness/c19.cc slot budget (fuel_exhausted thrown from the slot after k invocations per perform)",
                       "op L runs the REAL Thread::event_loop of a harness Thread subclass for one iteration (real init_thread_local, process_events, "
                       "timeout computation, Poll::do_poll); the clock read by utils::time_since_epoch() is std::chrono::system_clock::now() interposed by "
                       "the harness executable; Poll::do_poll is wrapped at link time (-Wl,--wrap) to record its timeout argument and the two cached clocks "
                       "and then runs the real do_poll with timeout 0 (the sleep itself is not simulated); the loop is ended by shutdown_exception from the "
                       "second call_events; Poll::poll's conversion of the timeout to epoll_wait milliseconds (truncating, int) is outside the model"]))
    model = ltv.build_model("C19")
    impl = ltv.build_harness("c19", ["c19.cc"], libs=["-Wl,--wrap=" + DO_POLL_SYM])
    if replay:
        cases = [json.load(open(replay))["case"]]
        stats = {"replay": 1}
    else:
        cases, stats = G.gen(seed, tier)
    mo = ltv.run_sharded(model, cases)
    io = ltv.run_sharded(impl, cases)
    nontrivial = set()
    mism = 0
    fuel = 0
    fired = 0
    samples = []
    reported = {}
    for i, case in enumerate(cases):
        m = mo[i] if i < len(mo) else "MISSING"
        o = io[i] if i < len(io) else "MISSING"
        viol = G.oracle(case, o)
        if ("_nontrivial", "") in viol:
            nontrivial.add(hashlib.sha1(case.encode()).digest())
            fired += o.split(" | ")[0].count("P[")
        if ("fuel", "") in viol:
            fuel += 1
        viol = [v for v in viol if v[0] not in ("_nontrivial", "fuel")]
        if len(samples) < 5 and i % 1499 == 7:
            samples.append({"case": case[:300], "impl": o[:300]})
        if m != o:
            mism += 1
            if reported.get("mismatch", 0) >= 5 and not viol:
                continue
            reported["mismatch"] = reported.get("mismatch", 0) + 1
            if viol:
                kl, text = viol[0]
                rep.violation("model and implementation differ AND the property fails on the implementation: " + text,
                              case=case, model=m, impl=o, theorem="correspondence C19 (firing log, next_timeout, loop-iteration clocks and poll timeout, heap array)", klass=kl)
            else:
                rep.violation("correspondence broken: model and implementation differ on this op list (property oracle holds on it)",
                              case=case, model=m, impl=o, theorem="correspondence C19 (firing log, next_timeout, loop-iteration clocks and poll timeout, heap array)", found_input=False)
        else:
            for kl, text in viol:
                if reported.get(kl, 0) >= 5:
                    continue
                reported[kl] = reported.get(kl, 0) + 1
                rep.violation(text, case=case, model=m, impl=o, theorem="property oracle C19", klass=kl)
    if not coq["ok"]:
        rep.violation("C19 proof obligations no longer check (%d/%d): %s %s" % (
            coq["discharged"], coq["obligations"], "; ".join(coq["lint"] + coq["bad_axioms"]), coq["log"][-1500:]),
            theorem="coq/C19/Properties.v", found_input=False)
    rep.cov.update(evaluations=len(cases), distinct_nontrivial=len(nontrivial),
                   rule="cases = corpus + hand list + random structured + malformed + big + event-loop iterations (random + exhaustive small scope) + exhaustive small scope "
                        "(quick: all op lists of length<=3 over 3 entries x 3 times x 2 handler configs; thorough: length<=4, and length 5 over 2x2); "
                        "non-trivial = distinct case in which the implementation fired at least one timer, the slot budget was not hit and the oracle holds",
                   samples=samples, input_distribution=stats, mismatches=mism, fuel_cases=fuel, performs_in_nontrivial=fired,
                   exhaustive=(tier == "thorough"))
    rep.assumptions += ["microsecond times stay within int64 (|t| < 2^62)", "single scheduler, single thread",
                        "slots are scripts of scheduler operations (no nested perform)"]
