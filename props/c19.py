"""C19 — scheduler timers: proof obligations + correspondence + property oracle.

Correspondence (ROBUSTNESS.md rule 4): the implementation runs first; its firing sequence is handed
to the choice-driven model (coq/C19/AModel.v) as the tie-breaking oracle. The model checks every
choice against the allowed set (pending, due, a minimum of the pending due times) and computes all
other results itself. Compared: per-op results (errors, next_timeout values, loop clocks and poll
timeout, firing log) and the final schedule. Not compared: the heap array, the order among equal
due times (only validated). The array-heap model of today's tie-breaking policy (coq/C19/Model.v)
runs alongside; its agreement is a statistic, never a verdict."""
import hashlib
import json
import os
import re

import ltv
from gen import c19 as G


# Poll::do_poll(std::chrono::microseconds): wrapped at link time so the harness sees the timeout Thread::event_loop passes
DO_POLL_SYM = "_ZN7torrent6system4Poll7do_pollENSt6chrono8durationIlSt5ratioILl1ELl1000000EEEE"

PARAM_NAMES = ["sched_min_days_wait", "sched_min_days_update", "sched_max_years_wait_for", "sched_max_years_wait_for_ceil",
               "sched_max_years_update_for", "sched_max_years_update_for_ceil"]
DAY = 24 * 3600 * 1000000
# oracle verdicts that are NOT clauses of property C19 (which error is raised when, output format, the
# upper bound max_timeout): they never justify a claimed failing input (ROBUSTNESS.md rule 1)
NONPROP = {"precondition-not-enforced", "spurious-internal-error", "output-shape", "next-timeout-exceeds-max"}


def is_hang(o):
    return o.startswith("CRASH") and ("rc=-14" in o or "TIMEOUT" in o or "Alarm" in o)


def regex_params():
    """Cross-check only: the values gen/params_c19.py found in the source text (0 = not found)."""
    out = {}
    try:
        txt = open(os.path.join(ltv.COQ, "C19", "ParamsGen.v")).read()
    except OSError:
        return out
    for n in PARAM_NAMES:
        m = re.search(r"Definition %s : Z := (\d+)%%Z\." % n, txt)
        if m:
            out[n] = int(m.group(1))
    return out


def run(rep, tier, seed, replay):
    coq = ltv.coq_build("C19")
    rep.cov.update(obligations=coq["obligations"], discharged=coq["discharged"], checker_cmd=coq["checker_cmd"],
                   theorems=coq["theorems"], axioms_per_theorem=coq["axioms"],
                   trusted_base=ltv.std_trusted_base(coq, [
                       "correspondence runs the choice-driven model coq/C19/AModel.v: the implementation's firing sequence is its tie-breaking oracle, "
                       "each choice is validated (pending, due <= t, minimum of the pending due times), all other outputs are computed by the model",
                       "constants (365 days, 10 years) are probed from the COMPILED library through the public API (harness --params) and passed to the model; "
                       "gen/params_c19.py (regex on the source) is a cross-check that may be absent",
                       "modelled not verified: std::function slots as scripts of scheduler ops; for the instance theorems about today's tie-breaking policy: "
                       "libstdc++ 12 std::__push_heap/__adjust_heap/__pop_heap (coq/C19/Model.v), std::unique_ptr identity as a fresh counter "
                       "(its agreement with the raw heap array is measured, not required)",
                       "int64 overflow of microsecond arithmetic: theorem exec_basic_chk_agrees under the stated range hypotheses",
                       "python reference spec gen/c19.py (Spec/oracle: finite map entry -> due time) for the property verdict on implementation outputs",
                       "harness/c19.cc slot budget (fuel_exhausted thrown from the slot after k invocations per perform); per-case watchdog 20 s",
                       "op L runs the REAL Thread::event_loop of a harness Thread subclass for one iteration (real init_thread_local, process_events, "
                       "timeout computation, Poll::do_poll); the clock read by utils::time_since_epoch() is std::chrono::system_clock::now() interposed by "
                       "the harness executable; Poll::do_poll is wrapped at link time (-Wl,--wrap) to record its timeout argument, the thread's cached_time() and "
                       "the scheduler's clock (probed through wait_for on a scratch entry) and then runs the real do_poll with timeout 0 (the sleep itself is not "
                       "simulated); the loop is ended by shutdown_exception from the second call_events; Poll::poll's conversion of the timeout to epoll_wait "
                       "milliseconds (truncating, int) is outside the model"]))
    model = ltv.build_model("C19")
    impl = ltv.build_harness("c19", ["c19.cc"], libs=["-Wl,--wrap=" + DO_POLL_SYM])

    # constants as the compiled library enforces them
    pl, perr, prc = ltv.run_lines(impl, [], args=["--params"])
    try:
        params = [int(x) for x in pl[0].split()]
        assert len(params) == 6
    except Exception:
        params = None
        rep.violation("harness --params probe failed: %s %s" % (pl[:1], perr[-300:]), theorem="constants probe", found_input=False)
    if params is not None:
        # side conditions the theorems need of the constants (Properties.v: hypotheses 0 < c_min_*)
        if not (params[0] > 0 and params[1] > 0 and all(p >= 0 for p in params[2:])):
            rep.violation("probed constants violate the side conditions of the theorems (0 < min time, 0 <= max relative time): %s" % params,
                          theorem="consts_ok", found_input=False)
        rx = regex_params()
        want = {PARAM_NAMES[0]: params[0] // DAY, PARAM_NAMES[1]: params[1] // DAY}
        for i in range(2, 6):
            want[PARAM_NAMES[i]] = params[i] // (365 * DAY)
        cross = {n: (rx.get(n, 0), want[n]) for n in PARAM_NAMES if rx.get(n, 0) not in (0, want[n])}
        rep.cov.update(probed_constants_us=params, regex_crosscheck=("agrees or absent" if not cross else "differs: %s" % cross))
    margs = [str(p) for p in params] if params else []
    if params:
        G.set_consts(params)

    if replay:
        cases = [json.load(open(replay))["case"]]
        stats = {"replay": 1}
    else:
        cases, stats = G.gen(seed, tier)
    # hand-picked cases first: if the implementation hangs on several of them, the bulk is not run (every
    # hanging case costs a full watchdog period); each hang is reported with its case as replay
    n0 = min(len(cases), stats.get("corpus", 0) + stats.get("hand", 0)) if not replay else len(cases)
    io = ltv.run_sharded(impl, cases[:n0], timeout=300)
    io = io + ["MISSING"] * (n0 - len(io))
    if sum(1 for o in io if is_hang(o)) >= 2:
        cases = cases[:n0]
        stats["bulk_skipped_after_hangs"] = True
    else:
        io += ltv.run_sharded(impl, cases[n0:], timeout=300)
    io = io + ["MISSING"] * (len(cases) - len(io))
    mo = ltv.run_sharded(model, [c + " | " + G.choices(o) for c, o in zip(cases, io)], args=margs)
    mo = mo + ["MISSING"] * (len(cases) - len(mo))
    nontrivial = set()
    mism = 0
    fuel = 0
    fired = 0
    heap_agree = 0
    ties = 0
    api_notes = 0
    samples = []
    reported = {}
    for i, case in enumerate(cases):
        o = io[i]
        m_abs, _, m_conc = mo[i].partition(" || ")
        if is_hang(o):
            if reported.get("hang", 0) < 3:
                reported["hang"] = reported.get("hang", 0) + 1
                rep.violation("implementation hangs on this op list (per-case watchdog 20 s)", case=case, model=m_abs, impl=o,
                              theorem="correspondence C19", klass="hang")
            continue
        viol = G.oracle(case, o)
        if ("_nontrivial", "") in viol:
            nontrivial.add(hashlib.sha1(case.encode()).digest())
            fired += o.split(" | ")[0].count("P[")
        if ("fuel", "") in viol:
            fuel += 1
        viol = [v for v in viol if v[0] not in ("_nontrivial", "fuel")]
        api_notes += sum(1 for v in viol if v[0] in NONPROP)
        viol = [v for v in viol if v[0] not in NONPROP]
        if len(samples) < 5 and i % 1499 == 7:
            samples.append({"case": case[:300], "impl": o[:300]})
        if m_conc and re.sub(r"FUEL:\d+", "FUEL", o) == m_conc:
            heap_agree += 1
        elif m_conc and G.project(re.sub(r"FUEL:\d+", "FUEL", o)) != G.project(m_conc):
            ties += 1
        po = G.project(o)
        if m_abs != po:
            mism += 1
            if reported.get("mismatch", 0) >= 5 and not viol:
                continue
            reported["mismatch"] = reported.get("mismatch", 0) + 1
            if viol:
                kl, text = viol[0]
                rep.violation("model and implementation differ AND the property fails on the implementation: " + text,
                              case=case, model=m_abs, impl=po, theorem="correspondence C19 (results, next_timeout, loop clocks and poll timeout, final schedule; ties validated)", klass=kl)
            else:
                rep.violation("correspondence broken: model and implementation differ on this op list (property oracle holds on it)",
                              case=case, model=m_abs, impl=po, theorem="correspondence C19 (results, next_timeout, loop clocks and poll timeout, final schedule; ties validated)", found_input=False)
        else:
            for kl, text in viol:
                if reported.get(kl, 0) >= 5:
                    continue
                reported[kl] = reported.get(kl, 0) + 1
                rep.violation(text, case=case, model=m_abs, impl=po, theorem="property oracle C19", klass=kl)
    if not coq["ok"]:
        rep.violation("C19 proof obligations no longer check (%d/%d): %s %s" % (
            coq["discharged"], coq["obligations"], "; ".join(coq["lint"] + coq["bad_axioms"]), coq["log"][-1500:]),
            theorem="coq/C19/Properties.v", found_input=False)
    rep.cov.update(evaluations=len(cases), distinct_nontrivial=len(nontrivial),
                   rule="cases = corpus + hand list + random structured + malformed + big + two schedulers + event-loop iterations (random + exhaustive small scope) + exhaustive small scope "
                        "(quick: all op lists of length<=3 over 3 entries x 3 times x 2 handler configs; thorough: length<=4, and length 5 over 2x2); "
                        "non-trivial = distinct case in which the implementation fired at least one timer, the slot budget was not hit and the oracle holds",
                   samples=samples, input_distribution=stats, mismatches=mism, fuel_cases=fuel, performs_in_nontrivial=fired,
                   oracle_api_notes=api_notes, array_heap_model_agrees_exactly=heap_agree, array_heap_model_differs_in_results=ties,
                   exhaustive=(tier == "thorough"))
    rep.assumptions += ["microsecond times stay within the stated int64 range hypotheses", "single thread",
                        "slots are scripts of scheduler operations (no nested perform)"]
