"""C08 — untrusted torrent / magnet metadata cannot escape the download directory:
proof obligations + model/implementation correspondence + property oracle on the implementation."""
import collections
import os
import re
import hashlib
import json
import sys

import ltv
from gen import c07 as G7
from gen import c08 as G

sys.setrecursionlimit(20000)

ZERO = b"\x00" * 20


def unhex(h):
    return b"" if h == "-" else bytes.fromhex(h)


def parse_ok(line):
    """'OK k=v ... files=.. | OPEN:.. frozen=.. | FS:ok ..' -> dict"""
    parts = line.split(" | ")
    d = {}
    for tok in parts[0].split()[1:]:
        k, _, v = tok.partition("=")
        d[k] = v
    files = []
    if d.get("files", "-") != "-":
        for f in d["files"].split(","):
            p, size, off, rng, pad = f.split(":")
            r1, r2 = rng.split("-")
            comps = [] if p == "-" else [unhex(c) for c in p.split("/")]
            files.append(dict(path=comps, size=int(size), offset=int(off), r1=int(r1), r2=int(r2), pad=(pad == "p")))
    d["files"] = files
    d["open"] = None
    d["fs"] = None
    d["open2"] = None
    d["fs2"] = None
    for p in parts[1:]:
        for tag, ko, kf, kfr, kin in (("", "open", "fs", "frozen", "inodes"), ("2", "open2", "fs2", "frozen2", "inodes2")):
            if p.startswith("OPEN" + tag + ":"):
                toks = p.split()
                d[ko] = p[len("OPEN" + tag + ":"):].split(" frozen=")[0]
                for t in toks[1:]:
                    if t.startswith("frozen="):
                        d[kfr] = [] if t[7:] == "-" else t[7:].split(",")
            elif p.startswith("FS" + tag + ":"):
                toks = p.split()
                d[kf] = toks[0][len("FS" + tag + ":"):]
                d[kin] = [] if len(toks) < 2 or toks[1] == "-" else toks[1].split(",")
    return d


def valid_comp(c):
    return c != b"" and c != b"." and c != b".." and b"/" not in c and b"\x00" not in c


def case_tree(case):
    """python tree of the torrent object of a T / B case (normalised), or None"""
    kind, _, body = case.partition(" ")
    try:
        if kind == "T":
            toks = body.split()
            t, _ = G7.parse_result_tree(toks, 1)
            return G7.normalize(t)
        if kind == "B":
            t, _ = G7.ref_decode(unhex(body))
            return G7.normalize(t)
    except Exception:
        return None
    return None


def zero_hash_case(case):
    """does the input name the all-zero info hash (magnet hash or meta_download 'pieces')?"""
    kind, _, body = case.partition(" ")
    if kind == "U":
        return ZERO in G.ref_magnet_hash(unhex(body))
    t = case_tree(case)
    if not G.is_map(t):
        return False
    mu = G.mget(t, "magnet-uri")
    if isinstance(mu, bytes) and ZERO in G.ref_magnet_hash(mu):
        return True
    info = G.mget(t, "info")
    return G.is_map(info) and G.mget(info, "pieces") == ZERO


def oracle(case, line):
    """Property C08 on ONE implementation output line -> list of (klass, text)."""
    if line == "REJECT":
        return []
    if line.startswith("HANG") or line.startswith("CRASH rc=3") or line.startswith("CRASH TIMEOUT"):
        return [("hang", "the implementation did not finish this case within the per-case time limit")]
    if not line.startswith("OK "):
        if line.startswith("ERR:internal") and zero_hash_case(case):
            return [("zero-infohash-internal", "loader throws internal_error (not an input error) for the all-zero info hash")]
        return [("loader-crash", "loader crashed or raised a non-input error: " + line[:160])]
    bad = []
    d = parse_ok(line)
    name = unhex(d["name"])
    multi = d["multi"] == "1"
    meta = d["meta"] == "1"
    cs, size, chunks, npieces = int(d["cs"]), int(d["size"]), int(d["chunks"]), int(d["pieces"])
    files = d["files"]
    # paths
    if not valid_comp(name):
        bad.append(("bad-path-component", "torrent name is not a valid path component"))
    for f in files:
        if not f["path"] or not all(valid_comp(c) for c in f["path"]):
            bad.append(("bad-path-component", "a file path has an empty, '.', '..', slash- or NUL-containing component"))
            break
    paths = [tuple(f["path"]) for f in files]
    for i, p in enumerate(paths):
        for j, q in enumerate(paths):
            if i != j and len(p) <= len(q) and q[:len(p)] == p:
                bad.append(("dup-or-prefix-path", "two file paths are equal or one is a prefix of the other"))
                break
        else:
            continue
        break
    # sizes
    off = 0
    for f in files:
        if f["size"] >= 2**63 or f["offset"] != off:
            bad.append(("sizes", "file sizes / offsets are not a non-negative partition of the total"))
            break
        off += f["size"]
    else:
        if off != size or size >= 2**63:
            bad.append(("sizes", "file sizes do not sum to the total size"))
    # declared file lengths: accepted => every length >= 0, their TRUE sum = size_bytes <= 2^63-1
    kindz = case.partition(" ")[0]
    if kindz in ("T", "B") and not meta:
        tz = case_tree(case)
        infoz = G.mget(tz, "info") if G.is_map(tz) else None
        if G.is_map(infoz):
            if multi:
                fz = G.mget(infoz, "files")
                decl = [G.mget(f, "length") if G.is_map(f) else None for f in fz] if isinstance(fz, list) else [None]
            else:
                decl = [G.mget(infoz, "length")]
            if any((not isinstance(x, int)) or x < 0 for x in decl):
                bad.append(("sizes-declared", "accepted although a declared file length is missing, not an integer or negative"))
            elif sum(decl) != size or sum(decl) > 2**63 - 1 or [f["size"] for f in files] != decl:
                bad.append(("sizes-declared", "declared file lengths %r sum to %d but the download has size_bytes %d "
                            "(sum must equal the total and stay <= 2^63-1: 64-bit wrap of the total)" % (decl[:4], sum(decl), size)))
    # declared piece length = chunk size actually used (for torrents; meta downloads use 1)
    kind0 = case.partition(" ")[0]
    if kind0 in ("T", "B") and not meta:
        t0 = case_tree(case)
        info0 = G.mget(t0, "info") if G.is_map(t0) else None
        pl0 = G.mget(info0, "piece length") if G.is_map(info0) else None
        if not isinstance(pl0, int) or pl0 != cs:
            bad.append(("piece-length-not-declared", "the download uses piece length %d but the torrent declares %r: "
                        "piece count / hashes do not match the declared geometry" % (cs, pl0)))
    # piece count
    if cs <= 0:
        bad.append(("piece-count", "chunk size is zero"))
    else:
        want = (size + cs - 1) // cs
        if chunks != want:
            bad.append(("piece-count-truncated-u32", "piece count %d differs from ceil(size/piece length) = %d (uint64 -> uint32 truncation)" % (chunks, want)))
        elif npieces != 20 * chunks:
            bad.append(("pieces-length-not-exact", "'pieces' has %d bytes but the torrent has %d pieces (surplus or ragged hashes accepted)" % (npieces, chunks)))
        else:
            for f in files:
                lo = f["offset"] // cs
                hi = lo if f["size"] == 0 else (f["offset"] + f["size"] + cs - 1) // cs
                if (f["r1"], f["r2"]) != (lo, hi):
                    bad.append(("file-range", "a file's piece range does not match its offset and size"))
                    break
    # info hash
    kind, _, body = case.partition(" ")
    ih = unhex(d["ih"])
    if kind == "U":
        if not meta or ih not in G.ref_magnet_hash(unhex(body)):
            bad.append(("magnet-hash", "accepted magnet hash is not one the URI denotes (base32 / hex / url-encoded)"))
    else:
        t = case_tree(case)
        info = G.mget(t, "info") if G.is_map(t) else None
        if meta:
            mu = G.mget(t, "magnet-uri") if G.is_map(t) else None
            if isinstance(mu, bytes) and not G.is_map(info):
                if ih not in G.ref_magnet_hash(mu):
                    bad.append(("magnet-hash", "accepted magnet hash is not one the URI denotes"))
            elif isinstance(mu, bytes) and ih in G.ref_magnet_hash(mu):
                pass        # a stored magnet download: the hash is the one its magnet URI gives
            else:
                # a bencoded torrent that sets meta_download ITSELF: the loader takes the info hash
                # from its 'pieces' string, so the hash is chosen by the file's author and is not
                # the SHA-1 of the info dictionary the property demands for bencoded torrents
                bad.append(("meta-download-flag-in-torrent-file",
                            "a bencoded torrent with info.meta_download != 0 is loaded as a magnet-style meta download: "
                            "its info hash is the attacker-supplied 'pieces' string, not SHA-1(info)"))
                if not (G.is_map(info) and G.mget(info, "pieces") == ih):
                    bad.append(("meta-hash", "meta download whose hash is not the supplied one"))
        else:
            if not G.is_map(info) or hashlib.sha1(G7.ref_encode(info)).digest() != ih:
                bad.append(("infohash", "info hash is not the SHA-1 of the canonical info dictionary"))
        if kind == "T" and body.startswith("u ") and G.is_map(info):
            bad.append(("unordered-accepted", "an info dictionary flagged unordered was accepted"))
        if kind == "B" and G.ref_info_unordered(unhex(body)):
            bad.append(("unordered-accepted", "bencoded torrent whose info dictionary is unordered somewhere inside was accepted"))
    # file system: phase 1 under the first root, phase 2 (after close + set_root_dir) under the second
    if " ERR:internal" in line or " ERR:other" in line or "close-err" in line or " REMOVE-ERR" in line:
        bad.append(("lifecycle-crash", "open / hash check / start / stop / close / remove raised a non-storage error: " + line[-120:]))
    elif d["open"] is not None and d["open"] != "skip":
        want = set()
        root = [name] if multi else []
        if multi:
            want.add(("d", name))
        for f in files:
            if f["pad"]:
                continue
            comps = root + f["path"]
            for i in range(1, len(comps)):
                want.add(("d", b"/".join(comps[:i])))
            want.add(("f", b"/".join(comps)))
        exp = [b"/".join(root + f["path"]) for f in files if not f["pad"]]
        for ph, ko, kf, kfr, kin in (("", "open", "fs", "frozen", "inodes"), (" (after close + set_root_dir to a second root)", "open2", "fs2", "frozen2", "inodes2")):
            if d[ko] is None:
                if ko == "open2" and d["open"] == "ok" and d["fs"] == "ok":
                    bad.append(("reopen-missing", "no second life cycle was reported"))
                continue
            if d[ko] != "ok":
                bad.append(("open-failed", "open / hash check / start failed inside an empty scratch root%s: %s" % (ph, d[ko][:60])))
            elif d[kf] != "ok":
                bad.append(("fs-escape", "an inode was created outside the current root" + ph))
            else:
                got = set()
                for x in d[kin]:
                    k, _, h = x.partition(":")
                    got.add((k, unhex(h)))
                if got != want:
                    bad.append(("fs-unexpected", "the inodes created under the current root are not exactly the files' paths and their directories" + ph))
                fr = [unhex(x) if not x.startswith("ABS") else None for x in d.get(kfr, [])]
                if fr != exp:
                    bad.append(("frozen-path", "a frozen path is not current root + '/' + joined components" + ph))
    return bad


MAGNET_TAGS = {
    1: "prefix_bad", 2: "loop_error", 3: "no_hash", 4: "ok_no_trackers", 5: "ok_trackers",
    10: "round_end", 11: "tag_without_eq", 12: "xt_no_urn", 13: "xt_b32_ok", 14: "xt_b32_fail", 15: "xt_raw20",
    16: "xt_hex40_ok", 17: "xt_hex40_bad", 18: "xt_bad_len", 19: "tr", 20: "other_tag", 21: "url_error", 22: "second_hash",
    23: "xt_foreign_skipped(policy)",
    30: "url_end", 31: "pct_truncated", 32: "pct_bad_hex", 33: "pct_ok", 34: "url_amp", 35: "url_plain", 36: "url_fault(unreachable)",
    40: "b32_end_ok", 41: "b32_end_fail", 42: "b32_emit", 43: "b32_no_emit", 44: "b32_too_many", 45: "b32_amp_ok",
    46: "b32_amp_fail", 47: "b32_bad_char",
    50: "decoded_NUL", 51: "decoded_slash", 52: "decoded_amp", 53: "decoded_pct", 54: "decoded_eq", 55: "decoded_high_byte",
}


def magnet_coverage(model, cases, margs, reject_foreign):
    """branch coverage of the MODEL's magnet parser over the U cases: tag -> number of cases"""
    ucases = [c for c in cases if c.startswith("U ")]
    out = ltv.run_sharded(model, ucases, args=list(margs) + ["--cov"])
    cnt = collections.Counter()
    for line in out:
        for t in line.split():
            if t.isdigit():
                cnt[int(t)] += 1
    cov = {MAGNET_TAGS.get(t, str(t)): n for t, n in sorted(cnt.items())}
    # 36 is unreachable by theorem; 12 / 23 are the two sides of the probed policy
    dead = {36, 23 if reject_foreign else 12}
    missing = [name for t, name in MAGNET_TAGS.items() if t not in cnt and t not in dead]
    return dict(branches=cov, reachable_branches=len(MAGNET_TAGS) - len(dead), covered=len([t for t in cnt if t not in dead]),
                never_reached=missing, unreachable_reached=cnt.get(36, 0), uri_cases=len(ucases))


def run(rep, tier, seed, replay):
    coq = ltv.coq_build("C08")
    rep.cov.update(obligations=coq["obligations"], discharged=coq["discharged"], checker_cmd=coq["checker_cmd"],
                   theorems=coq["theorems"], axioms_per_theorem=coq["axioms"],
                   trusted_base=ltv.std_trusted_base(coq, [
                       "modelled not verified: SHA-1 (Section variable H in Coq; the OCaml driver supplies an implementation whose output is compared with the library's object_sha1 on every accepted case)",
                       "modelled not verified: Object/std::map as a sorted association list (C07 value tree); std::sort as insertion sort (unique sorted permutation of a total order); strcmp as comparison of the prefix before the first NUL",
                       "not modelled: TrackerList::insert_url beyond 'does it throw', DownloadWrapper::initialize beyond the zero-hash internal_error, the kernel (mkdir/open) — the scratch tree is walked instead",
                       "harness rules: tracker_key != 0; the life cycle open -> hash_check (driven to completion on the stepped main thread, harness/common/session) -> start(skip_tracker) -> stop -> close -> download_remove is run only when the download has <= 4096 pieces and <= 64 files; the scratch tree is walked after close",
                       "python reference oracle in props/c08.py + gen/c08.py (ref_magnet_hash) evaluated on implementation outputs",
                       "probed policy (harness --params: accepted piece-length interval by bisection assuming one interval around 2^20, foreign-xt policy by one probe URI, HashString::size_data from the compiled header); the model runs with the probed policy and policy_ok is evaluated by the extracted checker",
                       "compared projection: accepted vs rejected (any input_error, incl. bencode_error and decoder rejects, is REJECT; internal_error / other exceptions / hangs stay distinct); accepted downloads are compared in full"]))
    model = ltv.build_model("C08")
    impl = ltv.build_harness("c08", ["c08.cc", "common/session.cc"], libs=["-lcrypto"])
    if replay:
        cases = [json.load(open(replay))["case"]]
        stats = {"replay": 1}
    else:
        cases, stats = G.gen(seed, tier)
    # --- probe what the property leaves open from the COMPILED implementation (ROBUSTNESS 3/4)
    pr, perr, prc = ltv.run_lines(impl, [], args=["--params"], timeout=120)
    probed = {}
    for tok in (pr[0].split()[1:] if pr and pr[0].startswith("PARAMS ") else []):
        k, _, v = tok.partition("=")
        probed[k] = v
    try:
        policy = dict(pl_min=int(probed["pl_min"]), pl_max=int(probed["pl_max"]), reject_foreign_xt=int(probed["reject_foreign_xt"]))
        hash_size = int(probed["hash_size"])
    except (KeyError, ValueError):
        raise ltv.BuildError("C08 harness --params probe failed: %r %s" % (pr, perr[-300:]))
    margs = ["--policy", str(policy["pl_min"]), str(policy["pl_max"]), str(policy["reject_foreign_xt"])]
    pok, _, _ = ltv.run_lines(model, [], args=margs + ["--policy-ok"])
    policy_ok = bool(pok) and pok[0] == "policy_ok=1" and hash_size == 20
    # the regex translator is only a cross-check that may be absent after a refactor
    xcheck = {}
    try:
        txt = open(os.path.join(ltv.COQ, "C08", "ParamsGen.v")).read()
        for name, key in (("c08_piece_length_min", "pl_min"), ("c08_piece_length_max", "pl_max")):
            mm = re.search(name + r" : N := (\d+)%N\. *(\(\* NOT FOUND)?", txt)
            if mm and not mm.group(2):
                xcheck[key] = "agrees" if int(mm.group(1)) == policy[key] else "source text says %s, compiled code behaves as %d" % (mm.group(1), policy[key])
            else:
                xcheck[key] = "regex did not match (ignored)"
    except OSError:
        pass
    rep.cov.update(probed_policy=policy, probed_hash_size=hash_size, policy_ok=policy_ok, probe_note=probed.get("note"), source_text_crosscheck=xcheck)
    if not policy_ok:
        rep.violation("the policy probed from the implementation (%r, hash size %d) violates the side condition policy_ok of the theorems "
                      "(piece length upper bound must stay below 2^32, SHA-1 size 20)" % (policy, hash_size),
                      theorem="policy_ok (coq/C08/Model.v)", found_input=False)
    mo = ltv.run_sharded(model, cases, args=margs)
    io = ltv.run_sharded(impl, cases, timeout=900)
    mcov = magnet_coverage(model, cases, margs, policy["reject_foreign_xt"]) if not replay else {}
    if mcov.get("never_reached") or mcov.get("unreachable_reached"):
        ltv.log("C08 COVERAGE-GAP (model magnet parser): never reached %s; unreachable reached %s" % (
            mcov.get("never_reached"), mcov.get("unreachable_reached")))
    accepted = set()
    outcome = collections.Counter()
    mism = 0
    samples = []
    klass_seen = collections.Counter()
    lifecycle = collections.Counter()
    for i, case in enumerate(cases):
        m = mo[i] if i < len(mo) else "MISSING"
        o = io[i] if i < len(io) else "MISSING"
        outcome[o.split(" ")[0]] += 1
        if o.startswith("OK "):
            accepted.add(hashlib.sha1(case.encode()).digest())
            if "| OPEN:ok" in o:
                lifecycle["opened_checked_started_closed"] += 1
                fpart = o.split(" files=", 1)[1].split(" | ", 1)[0]
                if ":p" in fpart:
                    lifecycle["with_padding_file"] += 1
                if any(f.split(":")[1] == "0" for f in fpart.split(",") if f.count(":") >= 4):
                    lifecycle["with_zero_length_file"] += 1
            elif "| OPEN:skip" in o:
                lifecycle["skipped_too_many_pieces_or_files"] += 1
        if len(samples) < 5 and i % 1499 == 7:
            samples.append({"case": case[:200], "impl": o[:300]})
        try:
            viol = oracle(case, o)
        except Exception as e:       # an output the oracle cannot parse is itself a finding
            viol = [("oracle-parse", "implementation output not understood: %r" % (e,))]
        for kl, _ in viol:
            klass_seen[kl] += 1
        # at most 3 replay files per violation class, so that one class cannot crowd out another
        # (Report keeps 20 in all); every hit is still counted in oracle_classes_seen
        viol = [(kl, tx) for kl, tx in viol if klass_seen[kl] <= 3]
        if m != o:
            mism += 1
            if mism > 6 and not viol:
                continue
            if viol:
                kl, text = viol[0]
                rep.violation("model and implementation differ AND the property fails on the implementation: " + text,
                              case=case, model=m, impl=o, theorem="correspondence C08 (loader outcome / download dump / scratch tree)", klass=kl)
            else:
                rep.violation("correspondence broken: model and implementation differ on this input (property oracle holds on it)",
                              case=case, model=m, impl=o, theorem="correspondence C08 (loader outcome / download dump / scratch tree)", found_input=False)
        else:
            for kl, text in viol:
                rep.violation(text, case=case, model=m, impl=o, theorem="property oracle C08", klass=kl)
    if tier == "thorough" and coq["ok"]:
        r = ltv.sh(["timeout", "900", "coqchk", "-silent", "-o", "-Q", ".", "LTV", "LTV.C08.Properties"], cwd=ltv.COQ)
        chk_ok = r.returncode == 0 and "Axioms: <none>" in r.stdout
        rep.cov["coqchk"] = "ok: no axioms, no type-in-type, no assumed positivity/guardedness" if chk_ok else r.stdout[-800:]
        if not chk_ok:
            rep.violation("coqchk rejects the compiled C08 development: " + r.stdout[-300:], theorem="coqchk LTV.C08.Properties", found_input=False)
    if not coq["ok"]:
        rep.violation("C08 proof obligations no longer check (%d/%d): %s %s" % (
            coq["discharged"], coq["obligations"], "; ".join(coq["lint"] + coq["bad_axioms"]), coq["log"][-1500:]),
            theorem="coq/C08/Properties.v", found_input=False)
    rep.cov.update(evaluations=len(cases), distinct_nontrivial=len(accepted),
                   rule="cases = corpus + hand list + valid torrents + structurally mutated torrents (T) + magnet URIs over a grammar (U) "
                        "+ bencoded torrents with ordered/unordered/duplicate info keys (B) + exhaustive hostile path lists; "
                        "non-trivial = distinct case the implementation ACCEPTS (a download was built, dumped, opened in a scratch root and the tree walked); "
                        "rejected cases are counted in outcome_histogram",
                   samples=samples, input_distribution=stats, outcome_histogram=dict(outcome), mismatches=mism,
                   oracle_classes_seen=dict(klass_seen), lifecycle=dict(lifecycle),
                   model_magnet_branch_coverage=mcov,
                   exhaustive="all 'files' lists of 1..2 entries with 1..2 path components over {a,b,.,..,'',a/b,a\\0} (3192 cases)" if tier != "quick" else "quarter sample of that scope")
    rep.assumptions += ["integers in the torrent object are int64 (what the bencode decoder yields)",
                        "file-system limits (NAME_MAX, PATH_MAX, inode quota) are not hit: generated components are short",
                        "the client root directory contains no NUL byte",
                        "flag_unordered of b[\"info\"] is an explicit input (T cases) or the decoder's whole-object flag with only info unordered (B cases)"]
