"""C05 — uploaded blocks are exactly the requested bytes of verified pieces:
proof obligations + correspondence (session harness, scripted peer) + property oracle."""
import hashlib
import json

import ltv
from gen import c05 as G


def run(rep, tier, seed, replay):
    coq = ltv.coq_build("C05")
    rep.cov.update(obligations=coq["obligations"], discharged=coq["discharged"], checker_cmd=coq["checker_cmd"],
                   theorems=coq["theorems"], axioms_per_theorem=coq["axioms"],
                   trusted_base=ltv.std_trusted_base(coq, [
                       "session harness (harness/common/session.{h,cc}, wirepeer.h): real library stepped manually under a virtual clock; "
                       "::send/::recv interposed to give each event_write an exact byte budget (the model's WriteReady k)",
                       "modelled not verified: RC4 keystream (Section variable ks; the scripted peer decrypts with its own RC4 from harness/common/msepeer.h), throttle quota (unthrottled), storage errors in "
                       "load_up_chunk, other messages sharing the write buffer (filtered out of the compared stream), "
                       "choke_queue policy (decisions are inputs; forced through the real choke_queue by INTERESTED / set_snubbed)",
                       "content bytes are a fixed arithmetic function of the offset, implemented three times (C++, OCaml, python)",
                       "python property oracle gen/c05.py:oracle evaluated on the implementation's output"]))
    model = ltv.build_model("C05")
    impl = ltv.build_harness("c05", ["c05.cc", "common/session.cc"])
    if replay:
        cases = [json.load(open(replay))["case"]]
        stats = {"replay": 1}
    else:
        cases, stats = G.gen(seed, tier)
    # policy of the compiled code (what the property leaves open), probed behaviourally; the theorems'
    # side conditions are evaluated on it by the extracted checker
    probe = ltv.run_lines(impl, ["PROBE"], timeout=120)[0]
    policy = probe[0] if probe else "ERR:no-probe"
    if not policy.startswith("q="):
        rep.violation("the policy probe of the implementation failed: " + policy[:200], theorem="probe C05", found_input=False)
        policy = "q=2048 ll=131072 ei=0 eu=0"
    pok = ltv.run_lines(model, ["PARAMS " + policy])[0]
    if pok != ["PARAMS-OK"]:
        rep.violation("side conditions of the theorems do not hold for the probed policy (%s): request length limit above 2^17" % policy,
                      theorem="params_ok (coq/C05/Proofs.v)", found_input=False)
    io = ltv.run_sharded(impl, cases, timeout=900)
    mcases = [G.model_case(c, o, policy) for c, o in zip(cases, io)]
    mo = ltv.run_sharded(model, mcases)
    nontrivial, mism, samples = set(), 0, []
    opk = {"R": 0, "C": 0, "D": 0, "W": 0}
    npiece = nclosed = niseed = niseed_pieces = 0
    rows = []
    for i, case in enumerate(cases):
        m = mo[i] if i < len(mo) else "MISSING"
        full = io[i] if i < len(io) else "MISSING"
        o = full.partition(" || ")[0]
        for t in case.partition("|")[2].split():
            opk[t[0]] = opk.get(t[0], 0) + 1
        if " msgs=" in o and "P:" in o:
            nontrivial.add(hashlib.sha1(case.encode()).digest())
            npiece += o.count("P:")
        if o.startswith("closed=1"):
            nclosed += 1
        if len(samples) < 5 and i % 41 == 7:
            samples.append({"case": case[:300], "impl": full[:400]})
        if " role=iseed" in case.partition("|")[0]:
            # initial seeding is not modelled (offers, should_upload drops, own chokes): oracle only
            niseed += 1
            if "P:" in o:
                niseed_pieces += o.count("P:")
            m = o
        rows.append((case, m, o, full, G.oracle(case, full)))
        if m != o:
            mism += 1
    # concrete property failures first (the report keeps the first 20 violations), shortest case first
    for case, m, o, full, viol in sorted((x for x in rows if x[4]), key=lambda x: len(x[0])):
        kl, text = viol[0]
        if m != o:
            rep.violation("model and implementation differ AND the property fails on the implementation: " + text,
                          case=case, model=m, impl=full, theorem="correspondence C05 (peer-visible stream, snapshots)", klass=kl)
        else:
            rep.violation(text, case=case, model=m, impl=full, theorem="property oracle C05", klass=kl)
    for case, m, o, full, viol in rows:
        if m != o and not viol:
            rep.violation("correspondence broken: model and implementation differ on this input (property oracle holds on it)",
                          case=case, model=m, impl=full, theorem="correspondence C05 (peer-visible stream, snapshots)",
                          found_input=False)
    if not coq["ok"]:
        rep.violation("C05 proof obligations no longer check (%d/%d): %s %s" % (
            coq["discharged"], coq["obligations"], "; ".join(coq["lint"] + coq["bad_axioms"]), coq["log"][-1500:]),
            theorem="coq/C05/Properties.v", found_input=False)
    stats = dict(stats)
    stats.update(probed_policy=policy, ops=opk, piece_messages_seen=npiece, cases_closed_by_library=nclosed,
                 initial_seed_cases_oracle_only=niseed, initial_seed_piece_messages=niseed_pieces)
    rep.cov.update(evaluations=len(cases), distinct_nontrivial=len(nontrivial),
                   rule="cases = corpus + hand lists (plain, RC4, 512 KiB pieces) + random valid / boundary / malformed / inner-file-part request streams over 6 layouts, plain and RC4 "
                        "+ queue-limit case (+ exhaustive op lists of length <= 4 over 6 ops in thorough); "
                        "non-trivial = distinct case in which the implementation sent at least one PIECE",
                   samples=samples, input_distribution=stats, mismatches=mism,
                   exhaustive=(tier == "thorough"))
    rep.assumptions += ["plain and RC4 (MSE, crypto_select 2) connections", "upload throttle disabled (quota never limits a block)",
                        "no storage error while mapping a chunk",
                        "request fields are uint32 (wire format)", "one scripted peer per connection; torrent not changing during a case"]
