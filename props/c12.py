"""C12 — rate limits bound bytes transferred: proof obligations + correspondence + property oracle."""
import hashlib
import json
import os
import re

import ltv
from gen import c12 as G

INT32_MAX = 2**31 - 1
W32 = 2**32


def parse_nodes(s):
    return [tuple(int(x) for x in e.split(":")) for e in s.split(",") if e]


LIST_RE = re.compile(r"e=(\d) sz=(\d+) o=(\d+) ua=(\d+) uu=(\d+) ra=(\d+) mn=(\d+) mx=(\d+) rs=(\d+) A\[([^\]]*)\] I\[([^\]]*)\]")


def parse_list(txt):
    m = LIST_RE.search(txt)
    e, sz, o, ua, uu, ra, mn, mx, rs = (int(m.group(i)) for i in range(1, 10))
    return dict(e=e, sz=sz, o=o, ua=ua, uu=uu, ra=ra, mn=mn, mx=mx, rs=rs,
                A=parse_nodes(m.group(10)), I=parse_nodes(m.group(11)))


def parse_dump(d):
    segs = d.split(" | ")
    hd = dict(kv.split("=") for kv in segs[0].split())
    st = dict(now=int(hd["t"]), rate=int(hd["r"]), un=int(hd["un"]), nx=int(hd["nx"]), lt=int(hd["lt"]), iv=int(hd["iv"]))
    lists = []
    for i, s in enumerate(segs[1:]):
        L = parse_list(s)
        if i == 0:
            L["rate"], L["un"] = st["rate"], st["un"]
        else:
            m = re.match(r"L\d+ r=(\d+) un=(\d+)", s)
            L["rate"], L["un"] = int(m.group(1)), int(m.group(2))
        lists.append(L)
    st["lists"] = lists
    st["stray"] = "STRAY" in d
    return st


def held(L):
    return L["o"] + L["ua"] + L["uu"]


def total_held(st):
    return st["un"] + sum(held(L) + (L["un"] if i > 0 else 0) for i, L in enumerate(st["lists"]))


INIT = None


def init_state():
    L = dict(e=0, sz=0, o=0, ua=0, uu=0, ra=0, mn=2048, mx=16384, rs=0, A=[], I=[], rate=0, un=0)
    return dict(now=32000000000000, rate=0, un=0, nx=0, lt=32000000000000, iv=1000000, lists=[L], stray=False)


def oracle(case, line):
    """Property C12 evaluated on ONE implementation output line. Returns list of (klass, text)."""
    bad = []
    if line.startswith("CRASH") or line.startswith("BADCASE") or line == "MISSING":
        return [("crash", "throttle code crashed: " + line[:200])]
    valid = G.static_valid(case)
    ops = [o.split() for o in case.split(",") if o.strip()]
    parts = line.split(" ; ") if line != "-" else []
    prev = init_state()
    unl = {}      # slave list -> [window start, payload] while the ROOT is unlimited and the slave rate > 0
    acct = {}     # list -> [budget, payload] while the root is limited
    starve2 = {}  # any list under a limited root -> consecutive ticks after which it holds nothing while a node waits
    starve = {}   # slave list with rate 0 under a limited root -> consecutive ticks with a node kept inactive
    flagged = set()
    waitc = {}    # (list, node) waiting -> [updates allowed before it must be active, good updates survived]
    maxg = {}     # largest tick grant since the root limit was set
    ers = {}      # erases per list since the last tick (erase returns a node's quota to the pool)
    for i, part in enumerate(parts):
        if part.startswith("ERR:internal"):
            tag = part.split(":")[-1]
            if valid:
                kl = "rate-added-overflow" if tag == "rate_insert" else "internal-error-" + tag
                bad.append((kl, "internal_error (%s) thrown on an op list a client can produce, at op %d (%s)" % (
                    tag, i, " ".join(ops[i]) if i < len(ops) else "?")))
            break
        if i >= len(ops):
            bad.append(("output-shape", "more results than ops"))
            break
        out, _, dump = part.partition("#")
        try:
            st = parse_dump(dump)
        except Exception:
            bad.append(("output-shape", "unparsable dump at op %d" % i))
            break
        op = ops[i]
        where = "after op %d (%s)" % (i, " ".join(op))
        if not 100000 <= st["iv"] <= 1000000:
            bad.append(("tick-interval", "calculate_interval() = %d us is outside [0.1 s, 1 s] %s" % (st["iv"], where)))
        if st["stray"]:
            bad.append(("stray-quota", "a node outside the list holds quota " + where))
        for li, L in enumerate(st["lists"]):
            nodes = L["A"] + L["I"]
            if L["o"] != sum(q for _, q in nodes) % W32:
                bad.append(("conservation", "outstanding quota != sum of node quotas in list %d %s" % (li, where)))
            if L["sz"] != len(nodes) or len(set(k for k, _ in nodes)) != len(nodes):
                bad.append(("split", "size / active-inactive split inconsistent in list %d %s" % (li, where)))
            if not L["e"]:
                if L["o"] or L["ua"] or L["uu"] or any(q for _, q in nodes):
                    bad.append(("disabled-holds-quota", "disabled list %d holds quota %s" % (li, where)))
                if valid and L["I"]:
                    bad.append(("disabled-inactive", "disabled list %d has inactive nodes %s" % (li, where)))
            if valid and L["e"] != st["lists"][0]["e"]:
                bad.append(("enabled-sync", "slave list %d enabled differs from root %s" % (li, where)))
        if valid:
            k = op[0]
            if k in ("X", "V", "I", "E", "U") and int(op[1]) < len(prev["lists"]):
                li = int(op[1])
                P, L = prev["lists"][li], st["lists"][li]
                if k == "X" and out.startswith("x="):
                    n = int(out[2:])
                    if not P["e"]:
                        if n != min(INT32_MAX, int(op[3])):
                            bad.append(("unlimited-held-back", "disabled list held a transfer back " + where))
                    else:
                        if held(L) != held(P) - n:
                            bad.append(("quota-created", "consumed %d bytes but held quota went %d -> %d %s" % (n, held(P), held(L), where)))
                        if n > dict(P["A"]).get(int(op[2]), 0) + P["ua"]:
                            bad.append(("over-quota", "moved more bytes than node quota + unallocated " + where))
                elif k == "X" and out == "deact":
                    q = dict(P["A"]).get(int(op[2]), 0)
                    if q + P["ua"] >= P["mn"]:
                        bad.append(("deactivated-with-quota", "node deactivated although min_chunk was available " + where))
                    if held(L) != held(P):
                        bad.append(("quota-created", "held quota changed by deactivate " + where))
                elif held(L) > held(P):
                    bad.append(("quota-created", "held quota grew without a tick: %d -> %d %s" % (held(P), held(L), where)))
            # limit removed: every connection parked in an inactive queue must be woken (its activate slot run),
            # otherwise it stays out of the poll set although nothing limits it any more
            if k == "R" and int(op[1]) == 0 and prev["lists"][0]["e"] and not st["lists"][0]["e"] and out.startswith("act="):
                woken = set(tuple(int(v) for v in a.split(":")) for a in out[4:].split(",") if a)
                for li, P in enumerate(prev["lists"]):
                    miss = [kq[0] for kq in P["I"] if (li, kq[0]) not in woken]
                    if miss:
                        bad.append(("unlimited-not-woken", "limit removed but deactivated connection(s) %s of list %d were not activated: "
                                    "they stay held back with no limit in force %s" % (miss, li, where)))
                        break
            # bounded wait of EVERY waiting connection (list_reactivation_liveness / every_waiter_served_within): a
            # connection that had a others ahead of it in the waiting queue is active again before the (a+1)-th
            # update that found min_chunk in the pool. Counters restart when chunk sizes change (set_max_rate).
            if k == "R":
                waitc.clear()
                starve2.clear()
            if k == "T" or (k == "R" and int(op[1]) == 0 and not prev["lists"][0]["e"] and st["lists"][0]["e"]):
                for li, L in enumerate(st["lists"]):
                    if li >= len(prev["lists"]):
                        continue
                    P = prev["lists"][li]
                    ids_before = [kq[0] for kq in P["I"]]
                    still = set(kq[0] for kq in L["I"])
                    goodu = bool(P["I"]) and P["ua"] + P["uu"] >= P["mn"] and (L["A"], L["I"], L["ua"], L["uu"]) != (P["A"], P["I"], P["ua"], P["uu"])
                    for pos, nid in enumerate(ids_before):
                        key = (li, nid)
                        if key not in waitc:
                            waitc[key] = [pos + 1, 0]
                        if goodu and nid in still:
                            waitc[key][1] += 1
                            if waitc[key][1] >= waitc[key][0] and "starve-w" not in flagged:
                                flagged.add("starve-w")
                                bad.append(("waiter-starved", "connection %d of list %d had %d connection(s) ahead of it in the waiting queue and is "
                                            "still waiting after %d updates that found min_chunk in the pool %s" % (
                                                nid, li, waitc[key][0] - 1, waitc[key][1], where)))
            for key in [kk for kk in waitc if kk[0] < len(st["lists"]) and kk[1] not in set(q[0] for q in st["lists"][kk[0]]["I"])]:
                del waitc[key]
            grant = None
            if k == "T":
                grant = (st["now"] - prev["lt"]) * prev["rate"] // 10**6
                cnt = st["now"] - prev["lt"]
            elif k == "R" and int(op[1]) == 0 and prev["rate"] == 0 and st["rate"] != 0:
                grant = st["rate"]
                cnt = 10**6
            if grant is not None:
                if total_held(st) > total_held(prev) + grant:
                    bad.append(("tick-overgrant", "all throttles together hold %d after a tick granting %d (before: %d) %s" % (
                        total_held(st), grant, total_held(prev), where)))
                for li, L in enumerate(st["lists"]):
                    if li < len(prev["lists"]):
                        P = prev["lists"][li]
                        lim = cnt * L["rate"] // 10**6 if L["rate"] else grant   # rate 0 = unlimited: shares the parent's quota (5638f7b)
                        if held(L) > held(P) + min(lim, grant):
                            bad.append(("tick-overgrant", "list %d got more than elapsed*rate (%d > %d + %d) %s" % (
                                li, held(L), held(P), min(lim, grant), where)))
                        # carry-over cap (update_quota_reactivation: unalloc' <= q = uu'): a list reached by the tick has
                        # ua <= uu, a list not reached keeps its ua
                        if L["e"] and L["ua"] > max(L["uu"], P["ua"]):
                            bad.append(("carry-over-cap", "list %d keeps %d unallocated after a tick whose grant was %d (before: ua=%d uu=%d): "
                                        "unused quota is carried over beyond one tick %s" % (li, L["ua"], L["uu"], P["ua"], P["uu"], where)))
                        # reactivation: an update leaves either no inactive node or no unallocated quota
                        if L["e"] and L["uu"] != P["uu"] and L["I"] and L["ua"] > 0:
                            bad.append(("not-reactivated", "list %d was updated, has unallocated quota but kept nodes inactive %s" % (li, where)))
        if valid:
            k = op[0]
            root_on = prev["lists"][0]["e"] == 1
            # --- windows
            for li, L in enumerate(st["lists"]):
                P = prev["lists"][li] if li < len(prev["lists"]) else None
                if li >= 1 and st["rate"] == 0 and L["rate"] > 0:
                    if P is None or prev["rate"] != 0 or P["rate"] != L["rate"] or li not in unl:
                        unl[li] = [st["now"], 0]
                else:
                    unl.pop(li, None)
                if st["lists"][0]["e"] == 1:
                    if P is None or not root_on or li not in acct:
                        acct[li] = [held(L), 0]
                else:
                    acct.pop(li, None)
            if k == "T" and root_on:
                grant_t = (st["now"] - prev["lt"]) * prev["rate"] // 10**6
                for li, L in enumerate(st["lists"]):
                    if li in acct and li < len(prev["lists"]):
                        acct[li][0] += min((st["now"] - prev["lt"]) * L["rate"] // 10**6, grant_t) if L["rate"] else grant_t
                    # a rate-0 slave is reached by the cursor at least once every len(lists) ticks and then holds
                    # the grant (uu > 0); holding nothing for longer than that is the starvation of 5638f7b
                    if li >= 1 and li < len(prev["lists"]) and L["rate"] == 0 and prev["lists"][li]["I"] and L["I"] and grant_t >= 1 and held(L) == 0:
                        starve[li] = starve.get(li, 0) + 1
                        if starve[li] >= len(st["lists"]) + 2 and "starve" not in flagged:
                            flagged.add("starve")
                            bad.append(("slave-rate0-starved", "slave list %d has rate 0 (= unlimited in Throttle's API) under a limited root: "
                                        "its deactivated node got no quota over %d ticks %s" % (li, starve[li], where)))
                    else:
                        starve.pop(li, None)
                    # the same for EVERY list that shares the root's limit (the root's own list, slaves with or without
                    # a rate of their own): the round-robin cursor starts a tick at each list at least once every
                    # len(lists) ticks (cursor_reaches_every_list), so a list whose waiter holds nothing and which
                    # itself holds nothing after each of 2*len(lists)+3 consecutive granting ticks is starved
                    own = (st["now"] - prev["lt"]) * L["rate"] // 10**6 if (li >= 1 and L["rate"]) else grant_t
                    if li < len(prev["lists"]) and L["e"] and prev["lists"][li]["I"] and L["I"] and grant_t >= 1 and own >= 1 and held(L) == 0 \
                            and prev["rate"] == st["rate"] and len(prev["lists"]) == len(st["lists"]):
                        starve2[li] = starve2.get(li, 0) + 1
                        if starve2[li] >= 2 * len(st["lists"]) + 3 and "starve2" not in flagged:
                            flagged.add("starve2")
                            bad.append(("list-starved", "list %d has a deactivated connection under a limited root but was handed no quota "
                                        "by %d consecutive ticks (other lists take every tick's grant) %s" % (li, starve2[li], where)))
                    else:
                        starve2.pop(li, None)
            # fixed burst: whatever a list holds is bounded independently of how long it has been idle
            if k == "T" and root_on:
                maxg["g"] = max(maxg.get("g", 0), (st["now"] - prev["lt"]) * prev["rate"] // 10**6)
                for li, L in enumerate(st["lists"]):      # a list reached by the tick is clamped: ua <= uu
                    if L["ua"] <= L["uu"]:
                        ers.pop(li, None)
            elif k == "R" and int(op[1]) == 0 and not root_on and st["lists"][0]["e"]:
                maxg["g"] = st["rate"]
                ers.clear()
            elif k == "R" and int(op[1]) == 0 and not st["lists"][0]["e"]:
                maxg.pop("g", None)
            if k == "E" and int(op[1]) < len(prev["lists"]):
                ers[int(op[1])] = ers.get(int(op[1]), 0) + 1
            if st["lists"][0]["e"] and "g" in maxg:
                for li, L in enumerate(st["lists"]):
                    fixed = 65536 * (len(L["A"]) + len(L["I"]) + ers.get(li, 0)) + 2 * maxg["g"]
                    if held(L) > fixed and "burst" not in flagged:
                        flagged.add("burst")
                        bad.append(("burst-unbounded", "list %d holds %d bytes of quota, more than the fixed burst allowance %d "
                                    "(65536 per node + two ticks of the largest grant %d): the burst grows with idle time %s" % (
                                        li, held(L), fixed, maxg["g"], where)))
            if k == "X" and out.startswith("x=") and int(op[1]) < len(prev["lists"]):
                li, n = int(op[1]), int(out[2:])
                L = st["lists"][li]
                if li in unl and prev["rate"] == 0 and li >= 1:
                    unl[li][1] += n
                    bound = L["rate"] * (st["now"] - unl[li][0]) // 10**6 + 65536 * max(1, len(L["A"]) + len(L["I"])) + 2 * L["rate"]
                    if unl[li][1] > bound and "unl" not in flagged:
                        flagged.add("unl")
                        bad.append(("slave-limit-ignored-root-unlimited",
                                    "slave list %d limited to %d B/s moved %d payload bytes in %d us while the root is unlimited (bound incl. burst: %d) %s" % (
                                        li, L["rate"], unl[li][1], st["now"] - unl[li][0], bound, where)))
                if li in acct and prev["lists"][li]["e"]:
                    acct[li][1] += n
                    if acct[li][1] + held(L) > acct[li][0] and "rb" not in flagged:
                        flagged.add("rb")
                        bad.append(("rate-bound", "list %d: payload %d + held %d exceeds burst + granted %d since the root limit was set %s" % (
                            li, acct[li][1], held(L), acct[li][0], where)))
        prev = st
    # a real violation outranks a known finding
    bad.sort(key=lambda b: b[0] in ("slave-limit-ignored-root-unlimited",))
    return bad


def session_oracle(case, line):
    """rate_bound_hierarchy and the consumer tie evaluated on a REAL session trace (harness/c12s.cc)."""
    bad = []
    if line.startswith(("CRASH", "ERR:", "BADCASE", "MISSING")):
        return [("session-crash", "session run failed: " + line[:200])], {}
    body, _, tail = line.partition(" || ")
    kv = dict(t.split("=") for t in tail.split())
    if kv.get("bad") != "0":
        bad.append(("session-payload", "PIECE payload differs from the torrent content"))
    toks = [[int(v) for v in t.split(":")] for t in body.split()]
    # t raw pieces un o ua uu nA nI lt rate Hslave srate
    n = len(toks)
    use_slave = " slave=" in " " + case
    nthr = 2 if use_slave else 1
    pay = [0] * n
    grant = [0] * n
    sgrant = [0] * n
    G = [t[3] + t[4] + t[5] + t[6] for t in toks]
    seg = [0, 0, 0]
    maxg = toks[0][10]       # the enabling tick (one second's worth) happened before the measurement
    for k in range(1, n):
        t, p = toks[k], toks[k - 1]
        pay[k] = max(0, t[1] - 13 * (t[2] + 1))
        if t[9] != p[9] or (p[10] == 0 and t[10] != 0):
            el = 10**6 if p[10] == 0 else t[9] - p[9]
            grant[k] = el * t[10] // 10**6
            sgrant[k] = min(grant[k], el * t[12] // 10**6) if t[12] else grant[k]
            maxg = max(maxg, grant[k])
        # consumer tie: between ticks the throttle's books move by what the connection moved (payload reported
        # through node_used, the 13-byte headers through node_used_unthrottled). Accumulated over each tick-free
        # segment; slack = bytes the kernel accepted in one step but delivered to the peer in the next (two blocks).
        if grant[k] == 0 and t[10] == p[10] and t[10] != 0:
            seg[0] += G[k - 1] - G[k]
            seg[1] += pay[k]
            seg[2] += t[1]
            if seg[0] + 2 * 16397 < seg[1] or seg[0] > seg[2] + 2 * 16397:
                bad.append(("session-consumer-report", "tick-free segment ending %d us: the peer received %d bytes (>= %d payload) but the throttle's books moved by %d" % (t[0], seg[2], seg[1], seg[0])))
                break
        else:
            seg = [0, 0, 0]
        if t[10] != 0 and G[k] > 65536 * (t[7] + t[8]) + 3 * nthr * max(maxg, 1) + 65536:
            bad.append(("session-burst", "at %d us the throttles hold %d, above the fixed burst allowance" % (t[0], G[k])))
            break
    # rate_bound_hierarchy on every window [i, j] during which the root is limited
    done = False
    for i in range(n):
        if toks[i][10] == 0 or done:
            continue
        sp = sg = ss = 0
        for j in range(i + 1, n):
            if toks[j][10] == 0:
                break
            sp += pay[j]
            sg += grant[j]
            ss += sgrant[j]
            if sp > G[i] + sg:
                bad.append(("session-rate-bound", "window %d..%d us: %d payload bytes > %d held at its start + %d granted by the ticks in it" % (
                    toks[i][0], toks[j][0], sp, G[i], sg)))
                done = True
                break
            if use_slave and toks[j][12] and toks[i][12] == toks[j][12] and sp > toks[i][11] + ss:
                bad.append(("session-slave-rate-bound", "window %d..%d us: %d payload bytes through the slave > %d held by it + %d (its share of the ticks)" % (
                    toks[i][0], toks[j][0], sp, toks[i][11], ss)))
                done = True
                break
    # not held back: unlimited -> every outstanding request is served in each step; limited -> the
    # connection keeps being reactivated and uses most of what the ticks grant
    total_pay = sum(pay)
    if all(t[10] == 0 for t in toks[1:]):
        if any(t[2] < 20 for t in toks[1:]) and "blocks=192/192" not in tail:
            bad.append(("session-held-back", "unlimited upload did not serve the outstanding requests"))
    elif "blocks=192/192" not in tail:
        # reactivation on the real path: with requests outstanding the deactivated connection is activated again;
        # no stretch of 4 consecutive ticks of a limited root (outside the scripted idle phase) moves nothing
        idle_us = int(dict(x.split("=") for x in case.split()).get("idle", 0)) * 10**6
        ticks = moved = 0
        for k in range(1, n):
            if toks[k][10] == 0 or toks[k][0] <= idle_us + 10**6:
                ticks = moved = 0
                continue
            moved += pay[k]
            if grant[k] >= 4096:
                ticks += 1
                if ticks >= 4 and moved == 0:
                    bad.append(("session-held-back", "no payload over 4 consecutive ticks ending at %d us although requests are outstanding" % toks[k][0]))
                    break
                if moved:
                    ticks = moved = 0
    return bad, dict(steps=n - 1, payload=total_pay, granted=sum(grant))


def run_session(rep, tier, seed):
    impl = ltv.build_harness("c12s", ["c12s.cc", "common/session.cc"], libs=["-lcrypto"])
    cases = G.gen_session(seed, tier)
    io = ltv.run_sharded(impl, cases, timeout=600)
    tot = dict(cases=len(cases), steps=0, payload=0, granted=0)
    for i, case in enumerate(cases):
        o = io[i] if i < len(io) else "MISSING"
        viol, st = session_oracle(case, o)
        for k in ("steps", "payload", "granted"):
            tot[k] += st.get(k, 0)
        for kl, text in viol[:1]:
            rep.violation("session level (real up_chunk under an upload limit): " + text, case="SESSION " + case, impl=o[:1500],
                          theorem="rate_bound_hierarchy / consumer_step on a real session trace", klass=kl)
    return tot


PROJ_RE = re.compile(r" (?:rs|iv)=\d+")


def project(line):
    """What is compared between model and implementation: everything on the quota path. Rate's averaged
    value (rs=) and calculate_interval (iv=) are statistics / tick scheduling, which the unit-level ops do not
    read (ticks are driven by T ops); iv is checked against its proved bounds by the oracle instead."""
    return PROJ_RE.sub("", line)


POLICY_V = os.path.join(ltv.COQ, "C12", "PolicyGen.v")


def probe_policy(impl, rates):
    """Constants and chunk-size policy of the code under test, probed from the compiled code."""
    out, err, rc = ltv.run_lines(impl, [" ".join(str(r) for r in rates)], args=["--params"], timeout=120)
    if rc != 0 or len(out) != 1 or " | " not in out[0]:
        raise ltv.BuildError("c12 --params failed: %s %s" % (out[:1], err[-500:]))
    head, _, tail = out[0].partition(" | ")
    consts = dict((k, int(v)) for k, v in (t.split("=") for t in head.split()))
    pol = [tuple(int(v) for v in t.split(":")) for t in tail.split()]
    return consts, pol


def policy_text(consts, pol):
    ent = "; ".join("(%d%%N, (%d%%N, %d%%N))" % p for p in pol)
    return ("(* GENERATED by props/c12.py from `harness/c12.cc --params` (values PROBED from the compiled code under\n"
            "   test on every run; no source text involved). Do not edit. *)\n"
            "From Coq Require Import NArith List.\nImport ListNotations.\nModule Policy.\n\n"
            "Definition chunk_probe : list (N * (N * N)) := [%s].\n"
            "Definition list_min_init : N := %d%%N.\nDefinition list_max_init : N := %d%%N.\n"
            "Definition fraction_bits : N := %d%%N.\nDefinition tick_min_us : N := %d%%N.\n"
            "Definition rate_bytes_shift : N := %d%%N.\nDefinition rate_cur_shift : N := %d%%N.\n\nEnd Policy.\n" % (
                ent, consts["list_min"], consts["list_max"], consts["fraction_bits"], consts["tick_min_us"],
                consts["rate_bytes_shift"], consts["rate_cur_shift"]))


def write_policy(txt):
    old = open(POLICY_V).read() if os.path.exists(POLICY_V) else None
    if old != txt:
        with open(POLICY_V + ".tmp", "w") as f:
            f.write(txt)
        os.replace(POLICY_V + ".tmp", POLICY_V)


def run(rep, tier, seed, replay):
    # the implementation is built first: the model is run (and the theorems are re-checked) with the
    # chunk-size policy and constants probed from it
    impl = ltv.build_harness("c12", ["c12.cc"])
    if replay and not json.load(open(replay))["case"].startswith("SESSION "):
        pre_cases = [json.load(open(replay))["case"]]
    else:
        pre_cases = G.gen(seed, tier)[0]
    consts, pol = probe_policy(impl, G.all_rates(pre_cases))
    ptxt = policy_text(consts, pol)
    write_policy(ptxt)
    coq = ltv.coq_build("C12")
    if open(POLICY_V).read() != ptxt:        # a concurrent run on another tree rewrote it: once more
        write_policy(ptxt)
        coq = ltv.coq_build("C12")
    rep.cov.update(obligations=coq["obligations"], discharged=coq["discharged"], checker_cmd=coq["checker_cmd"],
                   theorems=coq["theorems"], axioms_per_theorem=coq["axioms"],
                   trusted_base=ltv.std_trusted_base(coq, [
                       "modelled not verified: per-node Rate (only its bytes > 2^28 throw, which coincides with the list's), "
                       "the scheduler entry of the tick task (receive_tick is called directly with a controlled clock), "
                       "slaves of slaves (create_slave only on the root), std::list as two Coq lists (active ++ inactive)",
                       "python oracle props/c12.py (conservation, no creation of quota, tick grant bound, carry-over cap, fixed burst, "
                       "disabled = unlimited) evaluated on implementation outputs",
                       "session-level cross-check harness/c12s.cc + harness/common/session.* + wirepeer.h (real up_chunk/node_quota/"
                       "node_used/node_deactivate under a global upload limit, virtual clock): rate_bound_hierarchy and the "
                       "consumer accounting are evaluated on the real trace by python (not compared with the extracted model)"]))
    model = ltv.build_model("C12")
    if replay and json.load(open(replay))["case"].startswith("SESSION "):
        impl_s = ltv.build_harness("c12s", ["c12s.cc", "common/session.cc"], libs=["-lcrypto"])
        c = json.load(open(replay))["case"][8:]
        o = ltv.run_sharded(impl_s, [c], timeout=600)[0]
        for kl, text in session_oracle(c, o)[0][:1]:
            rep.violation("session level: " + text, case="SESSION " + c, impl=o[:1500], theorem="rate_bound_hierarchy on a real session trace", klass=kl)
        return
    if replay:
        cases = [json.load(open(replay))["case"]]
        stats = {"replay": 1}
    else:
        cases, stats = G.gen(seed, tier)
    mo = ltv.run_sharded(model, cases)
    io = ltv.run_sharded(impl, cases)
    nontrivial = set()
    mism = 0
    samples = []
    errs = {}
    for i, case in enumerate(cases):
        m = mo[i] if i < len(mo) else "MISSING"
        o = io[i] if i < len(io) else "MISSING"
        if "x=" in o and "act=" in o and " I[" in o:
            if re.search(r"act=\d", o) or re.search(r"I\[\d", o):
                nontrivial.add(hashlib.sha1(case.encode()).digest())
        me = re.search(r"ERR:internal:(\w+)", o)
        if me:
            errs[me.group(1)] = errs.get(me.group(1), 0) + 1
        if len(samples) < 4 and i % 499 == 7:
            samples.append({"case": case[:200], "impl": o[:300]})
        viol = oracle(case, o)
        if project(m) != project(o):
            mism += 1
            if viol:
                kl, text = viol[0]
                rep.violation("model and implementation differ AND the property fails on the implementation: " + text,
                              case=case, model=m[-1500:], impl=o[-1500:], theorem="correspondence C12 (throttle op trace)", klass=kl)
            else:
                # find the first differing op for the report
                pm, pi = m.split(" ; "), o.split(" ; ")
                j = next((j for j in range(min(len(pm), len(pi))) if project(pm[j]) != project(pi[j])), min(len(pm), len(pi)))
                rep.violation("correspondence broken: model and implementation differ at op %d (property oracle holds on this trace)" % j,
                              case=case, model=(pm[j] if j < len(pm) else "<end>"), impl=(pi[j] if j < len(pi) else "<end>"),
                              theorem="correspondence C12 (throttle op trace)", found_input=False)
        else:
            for kl, text in viol[:2]:
                rep.violation(text, case=case, model=m[-1500:], impl=o[-1500:], theorem="property oracle C12", klass=kl)
    if not coq["ok"]:
        rep.violation("C12 proof obligations no longer check (%d/%d): %s %s" % (
            coq["discharged"], coq["obligations"], "; ".join(coq["lint"] + coq["bad_axioms"]), coq["log"][-1500:]),
            theorem="coq/C12/Properties.v", found_input=False)
    stats["impl_internal_errors"] = errs
    if not replay:
        stats["session_level"] = run_session(rep, tier, seed)
    rep.cov.update(evaluations=len(cases), distinct_nontrivial=len(nontrivial),
                   rule="cases = corpus + hand list + valid client streams + raw op streams (+ exhaustive small scope in thorough); "
                        "non-trivial = distinct case whose implementation trace has a consumption (x=), a tick, and at least one "
                        "deactivated or re-activated node",
                   samples=samples, input_distribution=stats, mismatches=mism,
                   exhaustive=(tier == "thorough"))
    rep.assumptions += ["virtual time (cached_time) only; receive_tick invoked directly, not through the scheduler",
                        "theorems assume per-tick quota <= 2^26, <= 1024 nodes per list, <= 8 slaves (no uint32 wrap); no_internal_error additionally carves out Rate::insert's own argument range (rate_quietb)",
                        "two-level hierarchy (root + slaves)"]
