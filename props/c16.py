"""C16 — every way a connection or torrent ends releases all its resources.
Proof obligations (coq/C16: resource-ledger model, theorems for ALL op lists) + correspondence.
The correspondence is FAULT ENUMERATION on the implementation (this part is enumeration, not proof): scripted
sessions are cut at byte offsets of the remote stream (close / RST / half close / timeout / local stop / close /
remove / every peer at once / library shutdown); after each stage the resource ledger is read from the real library
(private state, /proc/self/fd, epoll fdinfo, a close() counter) and must equal the ledger the extracted Coq model
computes from the recorded mechanism-level events; the property ORACLE is evaluated on the implementation directly
(rows released, descriptors closed exactly once, counters back to baseline, no internal_error, restart works)."""
import concurrent.futures as cf
import os
import hashlib
import json
import re

import ltv
from gen import c16 as G

KLASS = [
    ("peerinfo-transfer-counter", "dissimilar-transfer-leak"),
    ("stop-not-zero:px", "refused-handshake-pex-leak"),
]


def strip_ledger(s):
    s = re.sub(r"~ke\d+", "", s)
    s = re.sub(r"~ks-?\d+,ke-?\d+(,qu\d+,qd\d+)?", "", s)
    # a disconnected PeerInfo without transfers may be culled by the hourly tick: same as no entry
    s = re.sub(r"pi=-:0(?=[ \]])", "pi=none", s)
    return s


def impl_ledger(iline):
    m = re.search(r"pre=\[(.*?)\] post=\[(.*?)\] stop=\[(.*?)\] fin=", iline)
    if not m:
        return "NOLEDGER " + iline[:120]
    return "pre=[%s] post=[%s] stop=[%s] rej=0" % tuple(strip_ledger(x + " ").rstrip() for x in m.groups())


def model_ledger(mline):
    m = re.search(r"pre=\[(.*?)\] post=\[(.*?)\] stop=\[(.*?)\] (rej=\d)", mline)
    if not m:
        return mline
    return "pre=[%s] post=[%s] stop=[%s] %s" % (tuple(strip_ledger(x + " ").rstrip() for x in m.groups()[:3]) + (m.group(4),))


def model_input(case, iline, layouts=None):
    kv = dict(t.split("=", 1) for t in case.split())
    ev = iline.split(" ")[0]
    ev = ev[3:] if ev.startswith("ev=") else "-"
    np_ = layouts[kv["sc"]]["peers"] if layouts else {"dis": 2, "multi": 3, "hs3": 4, "full": 3, "fullx": 3, "ddisl": 2}.get(kv["sc"], 1)
    return "seed=%d f=%s tgt=%s np=%d | %s" % (1 if kv["sc"] in G.SEEDING else 0, kv["f"], kv.get("tgt", "0"), np_, ev.rstrip(","))


def oracle(case, iline):
    """Property C16 on ONE implementation output line -> list of (klass, text)."""
    if iline.startswith("CRASH"):
        return [(None, "sanitizer report / abort during teardown: " + iline[:300])]
    if iline.startswith("ERR:hang"):
        return [("hang", "the case did not finish within the 30 s watchdog")]
    if iline.startswith("ERR:internal"):
        return [(None, "internal_error raised by a teardown path: " + iline[:300])]
    if iline.startswith("ERR:") or iline.startswith("BADCASE") or iline == "MISSING":
        return [("harness", "harness could not run the case: " + iline[:200])]
    verdict = iline.partition(" || ")[2].partition(" ;; ")[0]
    bad = []
    if verdict.startswith("VIOL"):
        by = {}
        for tok in verdict.split()[1:]:
            kl = next((k for pre, k in KLASS if tok.startswith(pre)), None)
            by.setdefault(kl, []).append(tok)
        for kl, toks in by.items():
            bad.append((kl, "resources not released after the fault: " + " ".join(toks)))
    elif verdict != "ok":
        bad.append((None, "no verdict: " + iline[:200]))
    return bad


def get_layouts(impl):
    res, err, rc = ltv.run_lines(impl, ["sc=%s info=1" % s for s in G.SCENARIOS])
    if len(res) != len(G.SCENARIOS):
        raise ltv.BuildError("harness did not print the scenario layouts: " + err[-400:])
    return {s: G.parse_layout(l) for s, l in zip(G.SCENARIOS, res)}


def probe_params(rep):
    """ROBUSTNESS.md rule 3: the constants of the theorems are read from the compiled code before the Coq build."""
    from gen import params_c16 as PP
    try:
        impl = ltv.build_harness("c16", ["c16.cc", "common/session.cc"])
        res, err, rc = ltv.run_lines(impl, ["sc=hin params=1"], timeout=120)
        kv = dict(t.split("=", 1) for t in res[0].split())
        vals = {k: int(v) for k, v in kv.items()}
        os.makedirs(os.path.dirname(PP.probe_file()), exist_ok=True)
        with open(PP.probe_file(), "w") as f:
            json.dump(vals, f)
        return vals
    except Exception as e:   # the harness does not build / run: reported below by the normal path; regex fallback is used
        try:
            os.unlink(PP.probe_file())
        except OSError:
            pass
        return {"probe_failed": str(e)[-200:]}


def run(rep, tier, seed, replay):
    probed = probe_params(rep)
    coq = ltv.coq_build("C16")
    rep.cov.update(obligations=coq["obligations"], discharged=coq["discharged"], checker_cmd=coq["checker_cmd"],
                   theorems=coq["theorems"], axioms_per_theorem=coq["axioms"],
                   trusted_base=ltv.std_trusted_base(coq, [
                       "theorems (all op lists, by induction): ledger_inv, counters_nonneg, abort_releases_all (state level), stop_zero, "
                       "restartable, block_owners_inv, blocks_requestable_after_stop, disconnect_queued_releases_all, stale_queue_harmless_after_stop (delayed-disconnect queue: ConnectionList::erase(.., disconnect_delayed) / disconnect_queued, scenarios ddis / ddisl, ledger token DQ); THE TIE IS ENUMERATION, NOT PROOF: the theorems are about the ledger model (coq/C16/Model.v); that the real "
                       "teardown code has the ledger effects the model ascribes to each event is checked only on the enumerated "
                       "(scenario, cut offset, fault) cases listed in coverage",
                       "session harness (harness/common/session.{h,cc}, wirepeer.h) + harness/c16.cc: scripted sessions, event recording "
                       "from the script and from the peers' sockets, ledger read from private library state (-fno-access-control), "
                       "/proc/self/fd, /proc/self/fdinfo of the epoll descriptors, and a close() interposer keyed by socket inode",
                       "ocaml/c16_driver.ml: translation of event tokens to model ops (which payload byte of the scripted 'bad' block "
                       "differs is script knowledge), rendering of the model state in the harness's ledger format",
                       "modelled not verified: kernel descriptor semantics (closed exactly once is observed through the close() "
                       "interposer only), epoll, choke slot availability (slots are free in every scenario), the 10 s re-unchoke rule "
                       "as a per-direction flag (no time passes inside a scripted session except the PEX tick), handshake writes always "
                       "complete, hash results only as 'verified' events, MSE handshakes, "
                       "DownloadMain::do_peer_exchange's activation conditions",
                       "property oracle evaluated in harness/c16.cc on the implementation; classification in props/c16.py"]))
    impl = ltv.build_harness("c16", ["c16.cc", "common/session.cc"])
    model = None
    try:
        model = ltv.build_model("C16")
    except ltv.BuildError as e:
        rep.violation("model driver does not build: " + str(e)[-800:], theorem="coq/C16/Extract.v", found_input=False)
    layouts = get_layouts(impl)
    if replay:
        cases = [json.load(open(replay))["case"]]
        shutdown, stats = [], {"replay": 1}
        if " f=Q" in cases[0]:
            shutdown, cases = cases, []
    else:
        cases, shutdown, stats = G.gen(seed, tier, layouts)
    io = ltv.run_sharded(impl, cases, timeout=1500)
    hang = {"hang_retries": 0, "hang_cleared_by_rerun": 0, "hang_reproduced": 0}

    def rerun_alone(case, first):
        """A watchdog verdict depends on wall-clock: it only counts if it reproduces when the case runs ALONE in a fresh
        process (up to 3 attempts); a loaded machine must not produce a violation."""
        if not (first.startswith("ERR:hang") or first.startswith("CRASH TIMEOUT")):
            return first
        for _ in range(3):
            hang["hang_retries"] += 1
            r, e, rc = ltv.run_lines(impl, [case], timeout=300)
            out = r[0] if r else "CRASH " + ltv.crash_kind(e, rc)
            if not (out.startswith("ERR:hang") or out.startswith("CRASH TIMEOUT")):
                hang["hang_cleared_by_rerun"] += 1
                return out
        hang["hang_reproduced"] += 1
        return first

    io = [rerun_alone(c, io[i]) if i < len(io) else "MISSING" for i, c in enumerate(cases)]
    mi = [model_input(c, io[i] if i < len(io) else "MISSING", layouts) for i, c in enumerate(cases)]
    mo = ltv.run_sharded(model, mi) if model else []
    nontrivial, mism, samples = set(), 0, []
    pre_kinds = {}
    for i, case in enumerate(cases):
        full = io[i] if i < len(io) else "MISSING"
        m = model_ledger(mo[i]) if i < len(mo) else "MISSING"
        want = impl_ledger(full)
        viol = oracle(case, full)
        mpre = re.search(r"pre=\[(.*?) G:", want)
        if mpre:
            shape = re.sub(r"pi=[^ ]*", "", mpre.group(1))
            pre_kinds[shape] = pre_kinds.get(shape, 0) + 1
            if "=H:" in shape or "=C:" in shape:
                nontrivial.add(hashlib.sha1(case.encode()).digest())
        if len(samples) < 6 and i % 997 == 5:
            samples.append({"case": case, "impl": full[:700], "model": m[:400]})
        if "post=[-]" in full:
            # the harness abandoned the session after reporting an orphaned PEX slot: only the pre-fault ledger exists
            a = re.search(r"pre=\[(.*?)\]", full)
            b = re.search(r"pre=\[(.*?)\]", m)
            want = "pre=[%s]" % strip_ledger(a.group(1) + " ").rstrip() if a else want
            m = "pre=[%s]" % b.group(1) if b else m
        if model and want != m:
            mism += 1
            if viol:
                kl, text = viol[0]
                rep.violation("model and implementation ledgers differ AND the property fails on the implementation: " + text,
                              case=case, model=m, impl=full, theorem="correspondence C16 (ledger after events / fault / stop)", klass=kl)
            else:
                rep.violation("correspondence broken: the model's ledger differs from the implementation's on this case "
                              "(property oracle holds on it)", case=case, model=m, impl=full,
                              theorem="correspondence C16 (ledger after events / fault / stop)", found_input=False)
        else:
            for kl, text in viol:
                rep.violation(text, case=case, model=m, impl=full, theorem="property oracle C16 (abort_releases_all / stop_zero / restartable)", klass=kl)
    # library shutdown: one process per case (the session cannot be re-created)
    def one(c):
        r, e, rc = ltv.run_lines(impl, [c], timeout=300)
        return r[0] if r else "CRASH " + ltv.crash_kind(e, rc)
    with cf.ThreadPoolExecutor(ltv.NCPU) as ex:
        so = list(ex.map(one, shutdown))
    so = [rerun_alone(c, o) for c, o in zip(shutdown, so)]
    for c, o in zip(shutdown, so):
        for kl, text in oracle(c, o):
            rep.violation("library shutdown (torrent::cleanup) with live connections: " + text, case=c, impl=o,
                          theorem="property oracle C16 (shutdown)", klass=kl)
    if not coq["ok"]:
        rep.violation("C16 proof obligations no longer check (%d/%d): %s %s" % (
            coq["discharged"], coq["obligations"], "; ".join(coq["lint"] + coq["bad_axioms"]), coq["log"][-1500:]),
            theorem="coq/C16/Properties.v", found_input=False)
    stats = dict(stats)
    stats["distinct_pre_fault_row_shapes"] = len(pre_kinds)
    stats["params_probed_from_compiled_code"] = probed
    stats.update(hang)
    rep.cov.update(evaluations=len(cases) + len(shutdown), distinct_nontrivial=len(nontrivial),
                   traces_validated_against_impl=len(cases) - mism,
                   rule="cases = corpus + for each of 11 scripted sessions (incoming / outgoing plain handshake, seeding with requests in "
                        "flight, leeching mid-piece, two peers with a dissimilar transfer, PEX enabled, three peers in different "
                        "states, multi-block pieces with pipelined requests, four simultaneous handshakes, connection list full with "
                        "racing handshakes (+ the same with PEX-enabled extension peers)): cut offsets (quick: every handshake threshold and message boundary +-1, PIECE header and mismatch "
                        "thresholds, block boundary + 0..12 bytes, a seeded stride elsewhere; thorough: EVERY offset 0..N, with the reduced fault "
                        "set {close per peer, stop} off the boundaries of the 16 KiB-block script) x faults (peer close / RST / half close per "
                        "peer, 500 s timeout, local stop / close / remove, all peers at once) + library shutdown cases (one process each); "
                        "non-trivial = distinct case in which at least one handshake or connection was live in the library when the fault hit",
                   samples=samples, input_distribution=stats, mismatches=mism,
                   exhaustive=(tier == "thorough"),
                   explanation="exhaustive (thorough tier) means every byte offset of the 11 fixed scripts, not every session")
    rep.assumptions += ["plain (unencrypted) handshakes", "pieces of 1 block (2048 bytes) or 2 blocks (32 KiB)", "choke slots available",
                        "throttles unlimited except in the two rate-limited sessions (1000 B/s global limit, no tick inside the session)", "a single active torrent per session",
                        "the correspondence between model and code is established by enumeration of the listed faults only"]
