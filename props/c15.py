"""C15 — DHT routing table, tokens, peer store: proof obligations + correspondence + property oracle."""
import hashlib
import json
import re

import ltv
from gen import c15 as G

MAXID = (1 << 160) - 1
NODE_RE = re.compile(r"^([0-9a-f]{40})/(\d+)/(\d+)/(\d+)/([01])/(\d+)(!?)$")


def parse_dump(d):
    """'own=.. now=.. cur=.. prev=.. nn=.. B[..]... chain=.. trk=..' -> dict (None if unparsable)"""
    m = re.match(r"own=([0-9a-f]{40}) now=(\d+) cur=(-?\d+) prev=(-?\d+) nn=(\d+)((?: B\[[^\]]*\])*) chain=([0-9a-f,]*) trk=(.*)$", d)
    if not m:
        return None
    out = dict(ownkey=int(m.group(1), 16), now=int(m.group(2)), cur=int(m.group(3)), prev=int(m.group(4)),
               nn=int(m.group(5)), buckets=[], chain=[int(x, 16) for x in m.group(7).split(",") if x], flags=[])
    for bm in re.finditer(r" B\[([0-9a-f]{40})-([0-9a-f]{40}) c=(-?\d+) g=(\d+) b=(\d+) k=(\d+)( KEY!)?:([^\]]*)\]", m.group(6)):
        nodes = []
        for ns in [x for x in bm.group(8).split(",") if x]:
            nm = NODE_RE.match(ns)
            if not nm:
                return None
            nodes.append(dict(id=int(nm.group(1), 16), ip=int(nm.group(2)), port=int(nm.group(3)), seen=int(nm.group(4)),
                              act=nm.group(5) == "1", inact=int(nm.group(6))))
            if nm.group(7):
                out["flags"].append("node-bucket-pointer")
        if bm.group(7):
            out["flags"].append("map-key")
        out["buckets"].append(dict(lo=int(bm.group(1), 16), hi=int(bm.group(2), 16), changed=int(bm.group(3)),
                                   good=int(bm.group(4)), bad=int(bm.group(5)), cache=int(bm.group(6)), nodes=nodes))
    out["trk"] = {}
    for tm in re.finditer(r"\[([0-9a-f]{40}):([^\]]*)\]", m.group(8)):
        out["trk"][int(tm.group(1), 16)] = [x for x in tm.group(2).split(",") if x]
    return out


def table_inv(t, own, ksize=8, maxfail=5):
    """the table part of property C15 on one dump; returns list of (klass, text)"""
    bad = []
    bs = t["buckets"]
    if t["flags"]:
        bad.append(("table-pointers", "inconsistent pointers: " + ",".join(t["flags"])))
    if not bs or bs[0]["lo"] != 0 or bs[-1]["hi"] != MAXID:
        bad.append(("table-partition", "buckets do not cover the id space"))
    for a, b in zip(bs, bs[1:]):
        if b["lo"] != a["hi"] + 1:
            bad.append(("table-partition", "gap or overlap between consecutive buckets"))
    seen = set()
    total = 0
    ownb = None
    for b in bs:
        size = b["hi"] - b["lo"] + 1
        if size <= 0 or size & (size - 1) or b["lo"] % size:
            bad.append(("table-prefix", "bucket range is not a prefix interval"))
        if len(b["nodes"]) > ksize:
            bad.append(("table-capacity", "bucket holds %d nodes" % len(b["nodes"])))
        for n in b["nodes"]:
            total += 1
            if not (b["lo"] <= n["id"] <= b["hi"]):
                bad.append(("table-node-range", "node outside the range of its bucket"))
            if n["id"] in seen:
                bad.append(("table-unique", "node id twice in the table"))
            seen.add(n["id"])
            if n["id"] == own or n["id"] == 0:
                bad.append(("table-own-id", "own id or zero id stored as a node"))
        if b["good"] != sum(1 for n in b["nodes"] if n["act"]):
            bad.append(("table-counters", "good counter differs from the number of good nodes"))
        if b["bad"] < sum(1 for n in b["nodes"] if n["inact"] >= maxfail) or b["bad"] > len(b["nodes"]) + 8:
            bad.append(("table-counters", "bad counter below the number of bad nodes (or wrapped)"))
        if b["lo"] <= own <= b["hi"]:
            ownb = b
    if total != t["nn"]:
        bad.append(("table-orphan", "node map size differs from the number of nodes in buckets"))
    if ownb is None or ownb["hi"] != t["ownkey"]:
        bad.append(("table-own-bucket", "router's bucket pointer is not the bucket covering the own id"))
    if sorted(t["chain"]) != sorted(b["hi"] for b in bs) or (t["chain"] and t["chain"][-1] != t["ownkey"]):
        bad.append(("table-chain", "parent/child chain is not a list of all buckets ending in the own bucket"))
    else:
        # chain ordered by range: every bucket is wider or equal than its child
        w = {b["hi"]: b["hi"] - b["lo"] for b in bs}
        for a, b in zip(t["chain"], t["chain"][1:]):
            if w[a] < w[b]:
                bad.append(("table-chain", "child bucket wider than its parent"))
    return bad


def only_own_splits(t1, t2, own):
    r2 = {(b["lo"], b["hi"]) for b in t2["buckets"]}
    for b in t1["buckets"]:
        if (b["lo"], b["hi"]) not in r2 and not (b["lo"] <= own <= b["hi"]):
            return [("split-foreign-bucket", "a bucket not containing the own id was split or changed range")]
    return []


def tok(secret, ip):
    return bytes.fromhex(G.token(secret, ip))


def fld(x):
    """case-line field -> bytes or None (absent / wrong type)"""
    if x in ("~", "!"):
        return None
    return b"" if x == "-" else bytes.fromhex(x)


class Store:
    """The oracle's own book of accepted announces per info-hash.  Mirrors only what the property
    needs of DhtTracker: one entry per address, at most 128 entries (the first oldest is replaced),
    entries older than 30 min dropped by housekeeping."""

    def __init__(self):
        self.t = {}
        self.cov = {}

    def add(self, ih, ip, port, now):
        l = self.t.setdefault(ih, [])
        self.cov.pop(ih, None)
        for e in l:
            if e[0] == ip:
                e[1], e[2] = port, now
                return
        if len(l) < 128:
            l.append([ip, port, now])
        else:
            l[min(range(len(l)), key=lambda j: (l[j][2], j))] = [ip, port, now]

    def prune(self, now):
        for ih in list(self.t):
            self.t[ih] = [e for e in self.t[ih] if e[2] >= now - 1800]
            if not self.t[ih]:
                del self.t[ih]
        self.cov = {}

    def check(self, ih, vals, rnd):
        """clauses on a get_peers value list: every value a stored peer of THIS info-hash; at most 32;
        with <= 32 stored all of them; with more, every stored peer reachable: once the list has been
        asked with every random() value 0..127 the union of the answers must be the whole store"""
        bad = []
        l = self.t.get(ih, [])
        stored = {e[0].to_bytes(4, "big") + e[1].to_bytes(2, "big") for e in l}
        sw = lambda v: v[:4] + v[5:6] + v[4:5]
        for v in vals:
            if v not in stored:
                if sw(v) in stored:
                    bad.append(("announce-port-host-order", "accepted announce (ip, port) not returned by get_peers in network byte order"))
                else:
                    bad.append(("values-foreign", "get_peers returned a value nobody announced for this info-hash"))
                break
        if len(vals) > 32:
            bad.append(("values-too-many", "get_peers returned %d values (limit 32)" % len(vals)))
        if len(l) <= 32:
            for v in stored:
                if v not in vals and sw(v) not in vals:
                    bad.append(("announce-lost", "a peer whose (re-)announce was accepted less than 30 min before the last housekeeping is missing from get_peers"))
                    break
        else:
            rs, un = self.cov.setdefault(ih, (set(), set()))
            rs.add(rnd)
            un.update(vals)
            if all(r in rs for r in range(128)):
                miss = stored - un
                if miss:
                    bad.append(("peer-unreachable", "%d of %d stored peers are returned for NO value of random() (all of 0..127 tried)" % (len(miss), len(l))))
                del self.cov[ih]
        return bad


def check_nodes(nb, table, target):
    """a `nodes` string against the routing table dumped right before the query"""
    if len(nb) == 0 or len(nb) % 26 or len(nb) > 8 * 26:
        return [("nodes-shape", "nodes is not 1..8 whole 26-byte entries")]
    if table is None:
        return []
    alln = {(n["id"], n["ip"], n["port"]): n for b in table["buckets"] for n in b["nodes"]}
    fresh = all(b["cache"] == 0 for b in table["buckets"])
    cover = [b for b in table["buckets"] if b["lo"] <= target <= b["hi"]]
    for i in range(0, len(nb), 26):
        key = (int.from_bytes(nb[i:i + 20], "big"), int.from_bytes(nb[i + 20:i + 24], "big"), int.from_bytes(nb[i + 24:i + 26], "big"))
        if key not in alln:
            own_bucket = cover and cover[0]["lo"] <= key[0] <= cover[0]["hi"]
            return [("nodes-deleted-served-own-bucket" if own_bucket else "nodes-deleted-served-borrowed",
                     "nodes entry %040x is not (any more) a node of the routing table" % key[0])]
        if alln[key]["inact"] >= 5:
            return [("nodes-not-live" if fresh else "nodes-bad-served",
                     "nodes entry %040x is a bad node (five failed queries)" % key[0])]
    return []


def check_dgram(f, res, own, cur, prev, now, store, over, table):
    """reply_shape on the implementation's answer to one datagram op
       U,ip,rnd,t,y,q,id,target,ih,token,port"""
    bad = []
    ip = int(f[1])
    t, y, q, nid, target, ih, tk = [fld(x) for x in f[3:10]]
    port = f[10]
    if y in (b"r", b"e"):
        return bad
    if any(w in res for w in ("UNDECODABLE", "NO-Y", "NO-V", "ODD", "BAD-BODY", "NO-BODY", "WRONG-SOURCE", "TO-OTHER", "EXTRA", "?")):
        return [("reply-shape", "reply is not a well-formed DHT message from the server port to the source address: " + res[:120])]
    if " + " in res:
        return [("reply-count", "more than one reply to one datagram: " + res[:120])]
    ownb = own.to_bytes(20, "big")
    portv = int(port) if port not in ("~", "!") else None
    wf = (t is not None and len(t) <= 20 and y == b"q" and nid is not None and len(nid) >= 20 and nid[:20] != ownb
          and q in (b"ping", b"find_node", b"get_peers", b"announce_peer"))
    if wf and q == b"find_node":
        wf = target is not None and len(target) >= 20
    if wf and q in (b"get_peers", b"announce_peer"):
        wf = ih is not None and len(ih) >= 20
    if wf and q == b"announce_peer":
        if tk is not None and portv is not None and not (1 <= portv <= 65535):
            # out-of-range port: must be refused (error) or dropped, never accepted
            if re.match(r"r t=", res):
                p16 = portv % 65536
                if p16 and ih is not None:
                    store.add(int.from_bytes(ih[:20], "big"), ip, p16, now)
                return [("announce-port-out-of-range", "announce_peer with port %d accepted (stored as port %d)" % (portv, p16))]
            return bad
        wf = tk is not None and portv is not None
    m = re.match(r"r t=(\S+) id=(\S+) tok=(\S+) n=(\S+) v=(\S+)$", res)
    e = re.match(r"e t=(\S+) (\d+) (\S+)$", res)
    if not wf:
        # malformed: an error reply or nothing, and no state change that matters to the property
        if m and not (q == b"announce_peer" or True):
            pass
        if res != "none" and not e and not m:
            bad.append(("reply-shape", "unparsable reply: " + res[:120]))
        if m and q == b"announce_peer":
            bad.append(("malformed-accepted", "malformed announce_peer answered with a normal reply"))
        return bad
    # ---- well-formed query: exactly one reply, t echoed
    if res == "none":
        return [("reply-count", "no reply to a well-formed %s query" % q.decode())]
    tt = (t.hex() or "-")
    if (m and m.group(1) != tt) or (e and e.group(1) != tt):
        bad.append(("reply-t", "transaction id not echoed"))
    ihv = int.from_bytes(ih[:20], "big") if ih else None
    if q == b"announce_peer":
        want = len(tk) == 8 and tk in (tok(cur, ip), tok(prev, ip))
        if want != bool(m):
            bad.append(("token-window", "announce_peer accepted=%s but token issued-to-this-ip-within-two-rotations=%s" % (bool(m), want)))
        if m:
            store.add(ihv, ip, portv, now)
        elif not (e and e.group(2) == "203"):
            bad.append(("reply-shape", "refused announce_peer without a 203 error"))
        if m and (m.group(3), m.group(4), m.group(5)) != ("~", "~", "~"):
            bad.append(("reply-body", "announce_peer reply carries a body"))
        return bad
    if e and q == b"get_peers":
        bad += store.check(ihv, [], int(f[2]))                # "nothing to return" although peers are stored?
    if e:
        # the only legitimate error for a well-formed query: nothing to return (201)
        if not (e.group(2) == "201" and q in (b"find_node", b"get_peers")):
            bad.append(("reply-shape", "well-formed %s answered with error %s %s" % (q.decode(), e.group(2), e.group(3))))
        return bad
    if not m:
        return [("reply-shape", "unparsable reply: " + res[:120])]
    if m.group(2) != ownb.hex():
        bad.append(("reply-id", "r.id is not the node's own id"))
    tokr, nodes, vals = m.group(3), m.group(4), m.group(5)
    if q == b"ping" and (tokr, nodes, vals) != ("~", "~", "~"):
        bad.append(("reply-body", "ping reply carries a body"))
    if q == b"find_node" and (tokr != "~" or vals != "~" or nodes == "~"):
        bad.append(("reply-body", "find_node reply must carry nodes only"))
    if q == b"get_peers":
        if tokr == "~" or bytes.fromhex(tokr) != tok(cur, ip):
            bad.append(("token-issue", "get_peers token is not H(current secret, source ip)[0..8]"))
        if (nodes == "~") == (vals == "~"):
            bad.append(("reply-body", "get_peers reply must carry exactly one of nodes / values"))
    if nodes != "~":
        nb = bytes.fromhex(nodes) if nodes != "-" else b""
        tgt = target if q == b"find_node" else ih
        bad += check_nodes(nb, table, int.from_bytes(tgt[:20], "big"))
    if vals != "~":
        vl = [bytes.fromhex(x) for x in vals.split(",")] if vals != "-" else []
        if not vl or any(len(v) != 6 for v in vl):
            bad.append(("values-shape", "values is not a non-empty list of 6-byte strings"))
        bad += store.check(ihv, vl, int(f[2]))
    elif q == b"get_peers":
        bad += store.check(ihv, [], int(f[2]))                # no values at all: stored peers must not be lost
    return bad


def oracle_search(case, line):
    """dht::DhtSearch unit: never more than `concurrency` queries outstanding; a contact is handed out
    only while uncontacted, i.e. at most once per time it was offered; hand-outs <= offers"""
    if line.startswith("CRASH TIMEOUT"):
        return [("hang", "the implementation did not finish this case within the watchdog limit")]
    if line.startswith("CRASH") or "BADCASE" in line or "BADOP" in line:
        return [("crash", "DhtSearch crashed: " + line[-200:])]
    ops = case.split()[2:]
    parts = line.split(" | ")
    bad = []
    offered = {}
    handed = {}
    for o, p in zip(ops, parts):
        if p.startswith("ERR:"):
            break
        res = p[2:p.rindex("#")]
        f = o.split(",")
        if f[0] == "a" and res == "1":
            offered[f[1]] = offered.get(f[1], 0) + 1
        if f[0] == "g" and res != "none":
            handed[res] = handed.get(res, 0) + 1
            if handed[res] > offered.get(res, 0):
                bad.append(("search-contact-twice", "a contact was handed out more often than it was offered"))
    m = re.search(r"END n=(\d+) p=(\d+) c=(\d+) r=(\d+) k=(\d+)", line)
    if m:
        if int(m.group(2)) > int(m.group(5)):
            bad.append(("search-concurrency", "more queries pending than the concurrency limit"))
        if int(m.group(3)) != sum(handed.values()) or int(m.group(3)) > sum(offered.values()):
            bad.append(("search-measure", "contacted counter differs from the hand-outs or exceeds the offers"))
    return bad


def oracle(case, line):
    """Property C15 (unit level) evaluated on ONE implementation output line."""
    if case.startswith("S "):
        return oracle_search(case, line)
    if line.startswith("CRASH TIMEOUT"):
        return [("hang", "the implementation did not finish this case within the watchdog limit")]
    if line.startswith("CRASH") or "ERR:" in line or "BADCASE" in line or "BADOP" in line:
        return [("crash", "router/tracker crashed or raised internal_error: " + line[-200:])]
    toks = case.split()
    own = int(toks[1], 16)
    cur, prev, now = int(toks[2]), int(toks[3]), int(toks[4])
    ops = toks[5:]
    parts = line.split(" | ")
    if len(parts) != len(ops) + 1:
        return [("crash", "output has %d parts for %d ops" % (len(parts), len(ops)))]
    bad = []
    last = None
    store = Store()
    over = None
    prevk = None
    kk = None
    lastz = None
    pending_check = None
    prevhash = curhash = None
    for o, p in list(zip(ops, parts)) + [("END", parts[-1])]:
        f = o.split(",")
        prevk = kk
        k = kk = f[0]
        prevhash = curhash
        curhash = p[p.rindex("#"):] if "#" in p and k != "END" else None
        if k == "Z" and pending_check is not None and p.startswith("Z:tx="):
            key, should_be_gone = pending_check
            present = ("%d/%d/" % key) in p
            if should_be_gone and present:
                bad.append(("transaction-not-cleared", "an answered transaction is still pending"))
            pending_check = None
        elif k != "Z":
            pass
        if k == "END":
            res = p[4:]
        else:
            res = p[len(k) + 1:p.rindex("#")]
        if k in ("D", "END"):
            t = parse_dump(res)
            if t is None:
                bad.append(("crash", "unparsable dump"))
                continue
            bad += table_inv(t, own)
            if last is not None:
                bad += only_own_splits(last, t, own)
            last = t
            if t["cur"] != cur or t["prev"] != prev:
                bad.append(("token-rotation", "secrets after rotation are not (new, old current)"))
        elif k == "T":
            now += int(f[1])
        elif k == "H":
            prev, cur = cur, int(f[1])
            store.prune(now)
        elif k == "G":
            if bytes.fromhex(res if res != "-" else "") != tok(cur, int(f[1])):
                bad.append(("token-issue", "issued token is not H(current secret, ip)[0..8]"))
        elif k in ("K", "A"):
            tk = bytes.fromhex(f[1] if k == "K" else f[4]) if (f[1] if k == "K" else f[4]) != "-" else b""
            ip = int(f[2])
            want = len(tk) == 8 and tk in (tok(cur, ip), tok(prev, ip))
            got = res == "1" if k == "K" else res == "ok"
            inrange = k == "K" or 1 <= int(f[3]) <= 65535
            if want != got and (inrange or got or not want):
                bad.append(("token-window", "token accepted=%s but issued-to-this-ip-within-two-rotations=%s" % (got, want)))
            if k == "A" and got:
                port = int(f[3]) % 65536
                if not inrange:
                    bad.append(("announce-port-out-of-range", "announce_peer with port %s accepted (stored as port %d)" % (f[3], port)))
                if port:
                    store.add(int(f[1], 16), ip, port, now)
        elif k == "P":
            ih = int(f[1], 16)
            if not res.startswith("t=") and not res.startswith("err:"):
                bad.append(("crash", "get_peers: unexpected result"))
                continue
            vals = []
            m = re.search(r" v=(\S+)", res)
            if m and m.group(1) != "-":
                vals = [bytes.fromhex(x.lstrip("?")) for x in m.group(1).split(",")]
                if "?" in m.group(1):
                    bad.append(("values-shape", "value entry is not a 6-byte string"))
            # also when no values came back (nodes, or the "nothing to return" error): stored peers must not be lost
            bad += store.check(ih, vals, int(f[3]))
            nm = re.search(r" n=([0-9a-f]+)", res)
            if nm:
                bad += check_nodes(bytes.fromhex(nm.group(1)), last if prevk == "D" else None, ih)
        elif k == "Z":
            lastz = None
            if res.startswith("tx="):
                mz = re.match(r"tx=(\S*) up=([01])$", res)
                if not mz:
                    bad.append(("crash", "unparsable transaction dump"))
                else:
                    lastz = {}
                    for e in [x for x in mz.group(1).split(",") if x]:
                        a = e.split("/")
                        lastz[(int(a[0]), int(a[1]))] = int(a[2], 16)
        elif k in ("Y", "E") and res != "x":
            # transaction matching: needs the transaction dump taken right before (generator emits Z)
            hbefore = prevhash
            hafter = p[p.rindex("#"):]
            if res != "none" and not re.match(r"e t=\S+ \d+ \S+$", res):
                bad.append(("reply-shape", "unexpected answer to a reply/error datagram: " + res[:100]))
            tb = fld(f[2])
            if prevk == "Z" and lastz is not None and tb is not None and len(tb) == 1:
                key = (int(f[1]), tb[0])
                idv = fld(f[3]) if k == "Y" else None
                idn = int.from_bytes(idv[:20], "big") if idv is not None and len(idv) >= 20 else None
                solicited = key in lastz and (k == "E" or (idn is not None and (lastz[key] in (0, idn))))
                if not solicited and hafter != hbefore and not (k == "Y" and idn is None):
                    bad.append(("unsolicited-reply-effect", "a reply/error that matches no pending transaction (address, id) changed the router state"))
                pending_check = (key, solicited and (k == "E" or idn != own))
        elif k == "X":
            if res != "none":
                bad.append(("reply-to-garbage", "a datagram that is not a bencode dictionary was answered: " + res[:80]))
        elif k == "U":
            bad += check_dgram(f, res, own, cur, prev, now, store, over, last if prevk == "D" else None)
        elif k == "F":
            if res.startswith("n="):
                bad += check_nodes(bytes.fromhex(res[2:]), last if prevk == "D" else None, int(f[1], 16))
    return bad


def proj(line):
    """What the correspondence compares (ROBUSTNESS rule 4): the property does not fix the text or
    class of an error reply (any applicable one is fine), nor WHICH window of 32 peers get_peers
    returns when more are stored; those are projected out here and judged by the oracle's clauses
    (refused vs accepted, every value a stored peer, every stored peer reachable).  The state
    checksum after every op stays in the comparison, so the accepted set cannot drift."""
    out = []
    for part in line.split(" | "):
        part = re.sub(r"^(U|Y|E):e t=(\S+) \d+ \S+#", r"\1:e t=\2#", part)
        part = re.sub(r"^(A|P|F):err:[^#]*#", r"\1:err#", part)
        m = re.search(r" v=([0-9a-f,]+)", part)
        if m and m.group(1).count(",") == 31:
            part = part.replace(m.group(0), " v=<32>")
        out.append(part)
    return " | ".join(out)


def run(rep, tier, seed, replay):
    coq = ltv.coq_build("C15")
    rep.cov.update(obligations=coq["obligations"], discharged=coq["discharged"], checker_cmd=coq["checker_cmd"],
                   theorems=coq["theorems"], axioms_per_theorem=coq["axioms"],
                   trusted_base=ltv.std_trusted_base(coq, [
                       "modelled not verified: SHA-1 (Section variable in Coq; OCaml SHA-1 in ocaml/c15_driver.ml vs utils/sha1.h in the harness), "
                       "std::map/unordered_map as sorted/assoc lists, libstdc++ std::partition (bidirectional variant) as hoare_partition, "
                       "the parent/child pointer chain as a list of bucket keys",
                       "datagram level: the dispatcher (event_read checks, process_query, create_*_response, create_error) is modelled over DECODED "
                       "messages; static_map_read_bencode / bencode writing are not modelled (the harness encodes the case's fields with sorted keys, "
                       "the real server parses them; C07/C14 cover the codecs)",
                       "transaction layer: ping transactions, process_response / process_error / DhtServer::receive_timeout are modelled (y=r / y=e "
                       "datagrams, op kinds Y/E/S/Z) until the server starts its first DhtSearch (housekeeping of a non-empty table, or a split that "
                       "leaves a half empty); from then on both sides skip those ops. NOT modelled: DhtSearch / DhtAnnounce state machines "
                       "(dht_search.cc, dht_announce.cc), find_node / get_peers / announce_peer transactions, the 15 s reply queue age limit and the "
                       "1024-packet reply queue cap (the harness flushes after every datagram); effects of search traffic reach the router only as "
                       "explicit Q/R/I ops",
                       "outgoing search: dht::DhtSearch (contact set ordered by XOR distance, concurrency limit, trim to 18) is modelled in "
                       "coq/C15/ModelSearch.v and tied to the real object by its own case kind ('S ...' lines); DhtAnnounce and the search "
                       "transactions that drive it from DhtServer are not modelled",
                       "projection of the comparison (ROBUSTNESS rule 4): error reply code/text and the choice of the 32-peer get_peers window are "
                       "not compared between model and implementation; the oracle judges them by clauses (refused vs accepted, every value a stored "
                       "peer, <= 32 values, every stored peer reachable over random() = 0..127)",
                       "constants and the 'reply caches of the whole chain are invalidated' flag come from probes compiled against the tree "
                       "(gen/params_c15.py; regexes only as fallback)",
                       "random(): the harness returns the case's rnd while a datagram is processed and a per-case constant otherwise (transaction ids)",
                       "python oracle props/c15.py (table invariant, token window, announce-then-get) on implementation outputs",
                       "little-endian host for the in-memory layout of SocketAddressCompact.port"]))
    model = ltv.build_model("C15")
    impl = ltv.build_harness("c15", ["c15.cc"])
    if replay:
        cases = [json.load(open(replay))["case"]]
        stats = {"replay": 1}
    else:
        cases, stats = G.gen(seed, tier)
    mo = ltv.run_sharded(model, cases)
    # watchdog (ROBUSTNESS rule 5): a shard that does not finish is re-run case by case with the same
    # limit; the hanging case becomes 'CRASH TIMEOUT' = one violation of class 'hang', the run goes on
    io = ltv.run_sharded(impl, cases, timeout=90 if tier == "quick" else 300)
    nontrivial = set()
    mism = 0
    samples = []
    nevals = 0
    per_class = {}

    def report(kl, *a, **kw):
        # at most 2 replays per violation class, so that one frequent class cannot use up the
        # 20-replay budget of ltv.Report
        per_class[kl] = per_class.get(kl, 0) + 1
        if per_class[kl] <= 2:
            rep.violation(*a, klass=kl, **kw)

    for i, case in enumerate(cases):
        m = mo[i] if i < len(mo) else "MISSING"
        o = io[i] if i < len(io) else "MISSING"
        nevals += max(0, len(case.split()) - (2 if case.startswith("S ") else 5))
        if o.split("END ")[-1].count(" B[") >= 2 or " v=" in o or "U:r t=" in o:
            nontrivial.add(hashlib.sha1(case.encode()).digest())
        if len(samples) < 4 and i % 61 == 7:
            samples.append({"case": case[:300], "impl": o[-300:]})
        viol = oracle(case, o)
        if proj(m) != proj(o):
            mism += 1
            # first differing op, for the replay file
            where = next((j for j, (a, b) in enumerate(zip(proj(m).split(" | "), proj(o).split(" | "))) if a != b), -1)
            if viol:
                kl, text = viol[0]
                report(kl, "model and implementation differ (op %d) AND the property fails on the implementation: %s" % (where, text),
                       case=case, model=m, impl=o, theorem="correspondence C15 (per-op results and table dumps)")
            elif mism <= 3:
                rep.violation("correspondence broken: model and implementation differ at op %d (property oracle holds on this case)" % where,
                              case=case, model=m, impl=o, theorem="correspondence C15 (per-op results and table dumps)", found_input=False)
        else:
            seen = set()
            for kl, text in viol:
                if kl in seen:
                    continue
                seen.add(kl)
                report(kl, text, case=case, model=m, impl=o, theorem="property oracle C15")
    if not coq["ok"]:
        rep.violation("C15 proof obligations no longer check (%d/%d): %s %s" % (
            coq["discharged"], coq["obligations"], "; ".join(coq["lint"] + coq["bad_axioms"]), coq["log"][-1500:]),
            theorem="coq/C15/Properties.v", found_input=False)
    rep.cov.update(evaluations=nevals, cases=len(cases), distinct_nontrivial=len(nontrivial),
                   rule="evaluations = ops executed on both sides (each followed by a checksum of the full state dump); "
                        "non-trivial case = distinct case line after which the implementation's table has at least two buckets "
                        "(a split happened), or in which get_peers returned peer values, or in which the real server answered a datagram with a normal reply",
                   samples=samples, input_distribution=stats, mismatches=mism, violation_classes=per_class, exhaustive=(tier == "thorough"),
                   exhaustive_scope="thorough: all op sequences of length <= 4 over a 7-op alphabet on a full own bucket (2801 cases)")
    rep.assumptions += ["IPv6 is out of scope IN THE CODE: DhtServer::start opens an IPv4 socket only, event_read drops every datagram whose "
                        "(un-mapped) source is not AF_INET, DhtRouter::contact returns for non-AF_INET, DhtTransaction::key throws internal_error for "
                        "inet6, DhtNode::store_compact throws for non-inet; the model has IPv4 addresses only","virtual time below 2^32 - 1 seconds (no_internal_error / only_own_bucket_splits need it: find_replacement_candidate "
                        "returns no node when every last-seen time is 2^32 - 1)", "IPv4 only (the code drops everything else)",
                        "contact ops never carry the router's own id (DhtServer::event_read rejects such packets)",
                        "fewer than 2^32 consecutive failed queries to one node"]
