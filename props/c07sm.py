"""C07, static-map / raw reader part: proof obligations (coq/C07/PropertiesSM.v) + correspondence of
the extracted model (coq/C07/StaticMap.v) with the real static_map_read_bencode_c /
static_map_write_bencode_c_wrap + an independent python oracle for what a static-map read may store.

run_part(rep, tier, seed) is called from props/c07.py; run(...) makes `./check C07SM` work alone."""
import hashlib
import json
import os
import re
import sys
import time

import ltv
from gen import c07 as B
from gen import c07sm as G

sys.setrecursionlimit(20000)

PROP = "C07"
SM_FILES = ["StaticMap.v", "ProofsSM.v", "ProofsSMTotal.v", "ProofsSMFaith.v", "ProofsSMRT.v", "ProofsSMRound.v", "ProofsSMWrite.v", "PropertiesSM.v", "ExtractSM.v"]


def coq_build_sm(timeout=1500):
    """ltv.coq_build for the files of this part: make PropertiesSM.vo + ExtractSM.vo, then coqc
    PropertiesSM.v alone to capture every Print Assumptions. Same result dict as ltv.coq_build."""
    with ltv.Lock("coq"):
        files = ltv.coq_prepare()
        mine = [f for f in files if f.startswith(PROP + "/") and os.path.basename(f) in SM_FILES]
        lint = ltv.coq_lint([os.path.join(ltv.COQ, f) for f in mine])
        targets = [PROP + "/PropertiesSM.vo", PROP + "/ExtractSM.vo"]
        t0 = time.time()
        r = ltv.sh(["timeout", str(timeout), "make", "-k", "-j%d" % ltv.NCPU] + targets, cwd=ltv.COQ)
        mk_ok = r.returncode == 0
        props_v = os.path.join(ltv.COQ, PROP, "PropertiesSM.v")
        ptxt = re.sub(r"\(\*.*?\*\)", "", open(props_v).read(), flags=re.S)
        thms = re.findall(r"^\s*(?:Theorem|Corollary)\s+(\w+)", ptxt, flags=re.M)
        r2 = ltv.sh(["timeout", "600", "coqc", "-Q", ".", "LTV", "-w", "-all", os.path.join(PROP, "PropertiesSM.v")], cwd=ltv.COQ)
        out = r2.stdout
        pa = re.findall(r"Print\s+Assumptions\s+(\w+)", ptxt)
        chunks = re.split(r"(?m)^(?=Closed under the global context|Axioms:)", out)
        chunks = [c for c in chunks if c.startswith("Closed under") or c.startswith("Axioms:")]
        axioms = {}
        for name, c in zip(pa, chunks):
            axioms[name] = [] if c.startswith("Closed") else sorted(set(re.findall(r"^([A-Za-z_][\w.']*)\s*:", c, flags=re.M)))
        ok = mk_ok and r2.returncode == 0 and not lint
        discharged = len(thms) if ok else 0
        if not ok and r2.returncode != 0:
            m = re.search(r'PropertiesSM\.v", line (\d+)', out)
            if m:
                before = "\n".join(open(props_v).read().split("\n")[:int(m.group(1)) - 1])
                discharged = max(0, len(re.findall(r"^\s*(?:Theorem|Corollary)\s+\w+", before, flags=re.M)) - 1)
        bad_ax = sorted({a for axs in axioms.values() for a in axs
                         if a not in ltv.ALLOWED_AXIOMS and a.split(".")[-1] not in ltv.ALLOWED_AXIOMS})
        if bad_ax or len(axioms) < len(thms):
            ok = ok and not bad_ax and len(axioms) >= len(thms)
        return dict(obligations=len(thms), discharged=discharged, theorems=thms, axioms=axioms, ok=ok, lint=lint,
                    bad_axioms=bad_ax,
                    log=(r.stdout[-6000:] if not mk_ok else "") + (out[-6000:] if r2.returncode != 0 else ""),
                    wall=time.time() - t0,
                    checker_cmd="cd /verif/coq && coq_makefile -f _CoqProject -o Makefile && make -k -j%d %s && coqc -Q . LTV %s/PropertiesSM.v"
                                % (ltv.NCPU, " ".join(targets), PROP))


# ------------------------------------------------------------------ parsing of result lines

def parse_table(ts):
    if ts in G.REAL:
        return G.REAL[ts]
    body = ts[2:]
    if not body:
        return []
    out = []
    for it in body.split(","):
        i, h = it.split(".")
        out.append((int(i), bytes.fromhex(h) if h != "-" else b""))
    return out


def unhx(h):
    return bytes.fromhex(h) if h != "-" else b""


def parse_sval(txt):
    txt = txt.strip()
    if txt == "-":
        return None
    toks = txt.split()
    if toks[0] == "V":
        tree, _ = B.parse_result_tree(toks, 2)
        return ("V", toks[1] == "u", tree)
    return (toks[0], unhx(toks[1]))


def parse_read(v):
    """'OK n | 0=.. | 1=..' -> (consumed, [sval...]) ; else None"""
    if not v.startswith("OK "):
        return None
    parts = v.split(" | ")
    n = int(parts[0].split()[1])
    ents = []
    for p in parts[1:]:
        i, _, sv = p.partition("=")
        ents.append(parse_sval(sv))
    return n, ents


def parse_w_case(toks):
    """tokens after 'W <tspec> <k>' -> list of (idx, sval)"""
    out = []
    i = 0
    while i < len(toks):
        idx = int(toks[i])
        kind = toks[i + 1]
        if kind in ("V", "U"):
            tree, j = B.parse_result_tree(toks, i + 2)
            out.append((idx, ("V", kind == "U", B.normalize(tree))))
            i = j
        else:
            out.append((idx, (kind, unhx(toks[i + 2]))))
            i += 3
    return out


# ------------------------------------------------------------------ the property oracle

def check_entries(tbl, data, consumed, ents):
    """Every stored entry must be what the part of the input its table key names denotes.
    Returns list of (klass, text)."""
    bad = []
    try:
        root = G.span_parse(data[:consumed])
        if root.b != consumed or root.kind != "d":
            raise B.NoParse
    except (B.NoParse, RecursionError):
        if B_depth(data[:consumed]) > 1400:
            return bad
        return [("static-map-accepts-non-bencode", "static-map reader accepted input that is not a bencoded dictionary")]
    s = data[:consumed]
    group_pos = {}
    for pos, (idx, key) in enumerate(tbl):
        pass
    # an entry index may be shared by several table rows: a stored value is fine if ANY row explains it
    by_idx = {}
    for pos, (idx, key) in enumerate(tbl):
        by_idx.setdefault(idx, []).append((pos, key))
    for idx, sv in enumerate(ents):
        if sv is None:
            continue
        rows = by_idx.get(idx, [])
        verdicts = []
        for pos, key in rows:
            path, leaf, raw = G.parse_key(key)
            for exact in (True, False):
                kind, cands = G.candidates(root, path, leaf, exact=exact)
                if kind == "leaf":
                    nodes = cands
                else:
                    nodes = [e for l in cands for e in l.items]
                ok = any(G.stored_matches(s, n, sv) for n in nodes)
                if ok:
                    verdicts.append("exact" if exact else "nul")
                    break
            else:
                # the "*M" / "*L" quirk: right bytes, wrong container type
                kind, cands = G.candidates(root, path, leaf, exact=False)
                nodes = cands if kind == "leaf" else [e for l in cands for e in l.items]
                if sv[0] in ("M", "L") and any(s[n.a + 1:n.b - 1] == sv[1] and n.kind in "ild" for n in nodes):
                    verdicts.append("rawtype")
                elif any(G.stored_matches(s, n, sv) for n in alias_nodes(root, key)):
                    verdicts.append("alias")
        if "exact" in verdicts:
            continue
        if "nul" in verdicts:
            bad.append(("static-map-key-nul-truncated",
                        "entry %d holds the value of an input key that only matches the table key after truncation at an embedded NUL" % idx))
        elif "alias" in verdicts:
            bad.append(("static-map-key-separator-alias",
                        "entry %d holds the value of an input key that contains the table's path syntax ('::', '[]', '*') literally" % idx))
        elif "rawtype" in verdicts:
            bad.append(("raw-map-type-liberal",
                        "entry %d holds a raw_map/raw_list view of a value that is not a dictionary/list (is_raw_map tests >= 'd')" % idx))
        else:
            bad.append(("static-map-value-not-denoted",
                        "entry %d holds a value that no part of the input named by its table key denotes" % idx))
    return bad


def alias_nodes(root, key):
    """Used ONLY to name the class of a violation: the values reachable when input keys are
    concatenated into the flat C string the reader compares with the table key (so that an input
    key spelling 'm::ut_pex' or 'e[]' literally reaches the entries of those table rows)."""
    out = []

    def walk(d, prefix, depth):
        if d.kind != "d" or depth > 9:
            return
        for k, v in d.items:
            cs = prefix + k.split(b"\x00", 1)[0]
            if not key.startswith(cs) or not cs:
                continue
            rest = key[len(cs):]
            if rest == b"" or rest[:1] == b"*":
                out.append(v)
            elif rest[:2] == b"::":
                walk(v, cs + b"::", depth + 1)
            elif rest[:2] == b"[]" and v.kind == "l":
                out.extend(v.items)

    walk(root, b"", 0)
    return out


def ints_in_range(t):
    if isinstance(t, int):
        return B.INT64_MIN <= t <= B.INT64_MAX
    if isinstance(t, list):
        return all(ints_in_range(x) for x in t)
    if isinstance(t, tuple):
        return all(ints_in_range(v) for _, v in t[1])
    return True


def canonical_dict(s):
    """s is exactly the canonical encoding of a dictionary (sorted unique keys, minimal integers)"""
    try:
        t, q = B.ref_decode(s)
        return q == len(s) and isinstance(t, tuple) and ints_in_range(t) and B.ref_encode(t) == s
    except (B.NoParse, RecursionError):
        return False


def check_projection(tbl, data, consumed, ents, pre=None):
    """Completeness: on a CANONICAL dictionary and a well-formed sorted table (table_plain) the static-map
    result must be the projection of the tree the input denotes onto the key table; rows without a
    (well-typed) value keep what the map held before (pre, default empty)."""
    s = data[:consumed]
    if not table_plain(tbl) or B_depth(s) > 100 or not canonical_dict(s):
        return []
    try:
        root = G.span_parse(s)
        want = G.projection(tbl, s, root)
    except (B.NoParse, RecursionError):
        return []
    if pre is not None:
        want = [w if w is not None else pre.get(i) for i, w in enumerate(want)]
    bad = []
    for i, (w, g) in enumerate(zip(want, ents)):
        if w != g:
            bad.append(("static-map-projection",
                        "entry %d is not the projection of the decoded tree onto the key table (expected %s, got %s)"
                        % (i, short_sv(w), short_sv(g))))
            break
    return bad


def short_sv(sv):
    if sv is None:
        return "empty"
    return (sv[0] + " " + repr(sv[1:]))[:60]


def B_depth(s):
    d = m = 0
    for c in s:
        if c in (0x6c, 0x64):
            d += 1
            m = max(m, d)
        elif c == 0x65:
            d -= 1
    return m


def list_groups_prefix_filled(tbl, given):
    """round trip is only claimed when, inside each run of equal "x[]…" keys, the filled entries
    form a prefix of the run (a list has no holes)"""
    pos = 0
    while pos < len(tbl):
        k = tbl[pos][1]
        run = [pos]
        while pos + 1 < len(tbl) and tbl[pos + 1][1] == k:
            pos += 1
            run.append(pos)
        if b"[]" in k:
            seen_empty = False
            for p in run:
                filled = tbl[p][0] in given
                if filled and seen_empty:
                    return False
                if not filled:
                    seen_empty = True
        pos += 1
    return True


def table_plain(tbl):
    """tables for which the round trip is claimed: distinct indices, in-range, strictly increasing
    key order in the order find_key_match relies on (runs of equal keys only for '[]' lists),
    well-formed separators, at most one '[]' per key and only as the last separator."""
    idxs = [i for i, _ in tbl]
    if len(set(idxs)) != len(idxs) or any(i >= len(tbl) for i in idxs):
        return False
    keys = [k for _, k in tbl]
    for k in keys:
        if re.search(rb":(?!:)", k.replace(b"::", b"")) or re.search(rb"\[(?!\])", k):
            return False
        path, leaf, raw = G.parse_key(k)
        kinds = [kd for _, kd in path]
        if "l" in kinds and (kinds.index("l") != len(kinds) - 1 or leaf != b""):
            return False
        if any(name == b"" for name, _ in path[:1]):
            return False
        if not path and leaf == b"":
            return False
    for a, b in zip(keys, keys[1:]):
        if a == b:
            if b"[]" not in a:
                return False
        elif not a < b:
            return False
    # no name may be both a leaf/list and a dictionary, nor two different leaf kinds; a list ("x[]") may be
    # named by ONE key string only (a run of equal rows, as DhtMessage's two "e[]*" rows): the reader fills
    # consecutive rows only while their keys are strcmp-equal, so "ab[]*" followed by "ab[]*L" is not a
    # table the code supports (no real table has that shape)
    names = {}
    list_owner = {}
    for k in keys:
        path, leaf, raw = G.parse_key(k)
        pre = b""
        for name, kd in path:
            pre += name
            if names.setdefault(pre, kd) != kd:
                return False
            if kd == "l" and list_owner.setdefault(pre, k) != k:
                return False
            pre += b"::" if kd == "d" else b"[]"
        if not (path and path[-1][1] == "l"):
            pre += leaf
            kd = "v" + str(raw)
            if names.setdefault(pre, kd) != kd:
                return False
    # upper-case / digit characters sort before '[' and ':' : a sibling like "aB" blocks "a[]" (find_key_match break)
    for k in keys:
        if re.search(rb"[^a-z_:\[\]*SLM]", k):
            return False
    return True


def sval_type_ok(key, sv):
    path, leaf, raw = G.parse_key(key)
    is_list = bool(path) and path[-1][1] == "l"
    want = ("B" if raw else None) if is_list else raw
    if want is None:
        return sv[0] == "V"
    return sv[0] == want


def raw_payload_ok(sv):
    try:
        if sv[0] == "B":
            n = G.span_parse(sv[1])
            return n.b == len(sv[1])
        if sv[0] == "L":
            n = G.span_parse(b"l" + sv[1] + b"e")
            return n.b == len(sv[1]) + 2
        if sv[0] == "M":
            n = G.span_parse(b"d" + sv[1] + b"e")
            return n.b == len(sv[1]) + 2
    except (B.NoParse, RecursionError):
        return False
    return True


def oracle(case, line):
    if line.startswith("CRASH") or line.startswith("ERR:other") or line.startswith("ERR:bencode") or line.startswith("FAULT"):
        return [("crash", "static-map reader/writer crashed or raised a non-input error: " + line[:200])]
    toks = case.split()
    kind = toks[0]
    if kind == "T":
        tbl = parse_table(toks[1])
        want = "TABLE %d" % len(tbl) + "".join(" %d.%s" % (i, G.hx(k)) for i, k in tbl)
        if line != want:
            return [("table-differs", "key table of the implementation differs from the expected one")]
        return []
    tbl = parse_table(toks[1])
    if kind == "R":
        if line.startswith("ERR:internal"):
            return [("crash", "static_map_read_bencode_c raised internal_error")]
        data = unhx(toks[2])
        rd = parse_read(line)
        if rd is None:
            if table_plain(tbl) and canonical_dict(data) and B_depth(data) < 100:
                return [("static-map-projection", "static-map reader rejects a canonical dictionary")]
            return []
        return check_entries(tbl, data, rd[0], rd[1]) + check_projection(tbl, data, rd[0], rd[1])
    if kind == "RI":
        if line.startswith("ERR:internal"):
            return [("crash", "static_map_read_bencode_c raised internal_error")]
        k = int(toks[2])
        data = unhx(toks[-1])
        pre = {i: sv for i, sv in parse_w_case(toks[3:-1]) if i < len(tbl)}
        rd = parse_read(line)
        if rd is None:
            return []
        # soundness on the entries that changed; completeness / destination independence on canonical input
        changed = [g if g != pre.get(i) else None for i, g in enumerate(rd[1])]
        return check_entries(tbl, data, rd[0], changed) + check_projection(tbl, data, rd[0], rd[1], pre)
    if kind == "W":
        given = dict(parse_w_case(toks[3:]))
        given = {i: sv for i, sv in given.items() if i < len(tbl)}
        plain = table_plain(tbl)
        if line.startswith("ERR:internal"):
            if plain and given:
                return [("static-map-writer-internal", "writer raised internal_error on a well-formed table")]
            return []
        f = {}
        for part in line.split(" | ", 1):
            k, _, v = part.partition(":")
            f[k.strip()] = v
        enc_part, _, read_part = line.partition(" | ")
        enc = unhx(enc_part[4:])
        rd = parse_read(read_part)
        bad = []
        claim = (plain and list_groups_prefix_filled(tbl, given)
                 and all(sval_type_ok(dict((i, k) for i, k in tbl)[i], sv) and raw_payload_ok(sv) for i, sv in given.items()))
        if rd is not None:
            bad += check_entries(tbl, enc, rd[0], rd[1])
        if claim:
            if rd is None:
                bad.append(("static-map-roundtrip", "reader rejects the writer's output for a well-formed table and entries"))
            else:
                n, ents = rd
                want = [given.get(i) for i in range(len(tbl))]
                if n != len(enc) or ents != want:
                    bad.append(("static-map-roundtrip", "reading back the writer's output does not give the written entries / consume exactly the output"))
                # canonical output: sorted keys, minimal integers (when the raw payloads are canonical themselves)
                try:
                    t, q = B.ref_decode(enc)
                    if all(sv[0] in ("V", "S") for sv in given.values()) and B.ref_encode(t) != enc:
                        bad.append(("static-map-writer-not-canonical", "writer output is not canonical bencode"))
                except (B.NoParse, RecursionError):
                    bad.append(("static-map-writer-not-canonical", "writer output is not bencode"))
        return bad
    return []


# ------------------------------------------------------------------ the run

TRUST = ["modelled not verified (static-map part): Object's representation of raw_bencode/raw_string/raw_list/raw_map views as byte lists; "
         "the writer's output buffer handling (object_write_to_buffer with a 1 MiB buffer in the harness)",
         "python reference oracle gen/c07sm.py (span_parse/candidates/stored_matches) for what a static-map entry may hold"]


def run_part(rep, tier, seed, replay_case=None):
    """Runs the static-map part; adds violations to rep; returns a dict of coverage numbers that the
    caller merges into rep.cov (prefixed)."""
    coq = coq_build_sm()
    model = ltv.build_model("C07SM")
    impl = ltv.build_harness("c07sm", ["c07sm.cc", "c07sm_dht.cc"])
    if replay_case is not None:
        cases, stats = [replay_case], {"replay": 1}
    else:
        cases, stats = G.gen(seed, tier)
    mo = ltv.run_sharded(model, cases)
    io = ltv.run_sharded(impl, cases)
    nontrivial = set()
    mism = 0
    samples = []
    deferred = []
    for i, case in enumerate(cases):
        m = mo[i] if i < len(mo) else "MISSING"
        o = io[i] if i < len(io) else "MISSING"
        if (" | " in o and "=" in o and re.search(r"\d=[VBSLM] ", o)):
            nontrivial.add(hashlib.sha1(case.encode()).digest())
        if len(samples) < 5 and i % 1499 == 100:
            samples.append({"case": case[:200], "impl": o[:300]})
        try:
            viol = oracle(case, o)
        except Exception as ex:  # an oracle bug must not hide a disagreement
            viol = [("oracle-error", "oracle failed on this case: %r" % (ex,))]
        if m != o:
            mism += 1
            shown = False
            if viol:
                kl, text = viol[0]
                shown = rep.violation("static-map: model and implementation differ AND the property fails on the implementation: " + text,
                                      case=case, model=m, impl=o, theorem="correspondence C07 static map (read/write outputs)", klass=kl)
            if not shown:
                # no oracle verdict, or only one of a recorded class: the disagreement itself must still be
                # reported — after the concrete failing inputs (the report keeps a bounded number of replays)
                deferred.append((case, m, o))
        else:
            for kl, text in viol:
                rep.violation("static-map: " + text, case=case, model=m, impl=o, theorem="property oracle C07 static map", klass=kl)
    for case, m, o in deferred:
        rep.violation("static-map correspondence broken: model and implementation differ on this input (property oracle holds on it, or fails only in a recorded class)",
                      case=case, model=m, impl=o, theorem="correspondence C07 static map (read/write outputs)", found_input=False)
    if not coq["ok"]:
        rep.violation("C07 static-map proof obligations no longer check (%d/%d): %s %s" % (
            coq["discharged"], coq["obligations"], "; ".join(coq["lint"] + coq["bad_axioms"]), coq["log"][-1500:]),
            theorem="coq/C07/PropertiesSM.v", found_input=False)
    return dict(coq=coq, evaluations=len(cases), distinct_nontrivial=len(nontrivial), mismatches=mism, samples=samples,
                input_distribution=stats,
                rule="static-map cases = table dumps (T) + hand list + valid / unsorted / duplicate / unknown-key / wrong-type / "
                     "embedded-NUL messages for the 4 real and 4 synthetic tables + every outer key after every nested dictionary + "
                     "reads into maps holding stale values (RI) + every prefix + mutations + key lengths 11..18 + "
                     "deep nesting + random tables + writer round trips (W) + exhaustive small bodies; non-trivial = distinct case "
                     "on which the implementation stores at least one entry")


def run(rep, tier, seed, replay):
    rc = None
    if replay:
        rc = json.load(open(replay))["case"]
    part = run_part(rep, tier, seed, rc)
    coq = part.pop("coq")
    rep.cov.update(obligations=coq["obligations"], discharged=coq["discharged"], checker_cmd=coq["checker_cmd"],
                   theorems=coq["theorems"], axioms_per_theorem=coq["axioms"],
                   trusted_base=ltv.std_trusted_base(coq, TRUST), exhaustive=False, **part)
    rep.assumptions += ["buffers shorter than 2^31 bytes", "key tables satisfy table_ok (indices inside the value array, keys of at most 15 non-NUL characters)",
                        "stored values contain no empty (TYPE_NONE) objects"]
