"""C13 — tracker announce protocol: proof obligations + correspondence + property oracle.

Correspondence: after EVERY op the extracted model and the real TrackerController/TrackerList
(real tracker thread, scripted workers, virtual clock) must print the same segment: clock,
controller flags, next timeout, the tracker list in order with every TrackerState field, and the
requests handed to the workers during the op (tracker, event, uploaded/completed/left, replaced).

Oracle (python, evaluated on the IMPLEMENTATION's output only): the statement of C13 read
strictly, independent of the controller's own flags. Deviations that the faithful model also
shows (see the *_refuted theorems) are reported with a finding class."""
import hashlib
import json
import os
import re

import ltv
from gen import c13 as G

EV_NONE, EV_COMPLETED, EV_STARTED, EV_STOPPED = 0, 1, 2, 3
F_UPDATE, F_COMPLETED, F_START, F_STOP, F_ACTIVE, F_REQUESTING, F_FAILURE, F_PROMISC = (1 << i for i in range(8))
USEC = 1000000


def params():
    txt = open(os.path.join(ltv.COQ, "C13", "ParamsGen.v")).read()
    out = {}
    for m in re.finditer(r"Definition (trk_\w+) : Z := (-?\d+)%Z", txt):
        out[m.group(1)] = int(m.group(2))
    return out


def parse_seg(seg):
    """'now flags tmo trackers Rreqs' -> dict"""
    now, fl, tmo, tsc, pend, trs, reqs, scr = seg.split(" ")
    tl = []
    for t in trs.split(";") if trs else []:
        f = t.split(".")
        tl.append(dict(id=int(f[0]), en=f[1] == "1", busy=f[2] == "1", ev=int(f[3]), sc=int(f[4]), fc=int(f[5]),
                       stl=int(f[6]), ftl=int(f[7]), ni=int(f[8]), mi=int(f[9]), sct=int(f[10])))
    rl = []
    body = reqs[1:]
    for q in body.split(",") if body else []:
        f = q.split(":")
        rl.append(dict(id=int(f[0]), ev=int(f[1]), up=int(f[2]), comp=int(f[3]), left=int(f[4]), repl=f[5] == "1"))
    sl = [int(x) for x in scr[1:].split(",")] if len(scr) > 1 else []
    return dict(now=int(now), fl=int(fl, 16), tmo=None if tmo == "-" else int(tmo), tsc=None if tsc == "-" else int(tsc),
                pend=None if pend == "P-" else int(pend[1:]), trs=tl, reqs=rl, scrapes=sl)


def backoff(P, fc):
    return min(P["trk_backoff_base"] << min(fc - 1, P["trk_backoff_shift_cap"]), P["trk_min_min_interval"])


def atn(P, t):
    """TrackerState::activity_time_next"""
    if t["fc"] != 0:
        return t["ftl"] + (t["mi"] if t["mi"] > P["trk_min_min_interval"] else backoff(P, t["fc"]))
    if t["sc"] == 0:
        return 0
    return t["stl"] + max(t["ni"], t["mi"], P["trk_min_normal_interval"])


BEP15 = {"ss": 2, "ST": 2, "sc": 1, "sp": 3, "SP": 3, "mr": 0}
BEP15_NAME = {0: "none", 1: "completed", 2: "started", 3: "stopped"}


def oracle_udp(case, line):
    """U cases: the announce packet on the wire (BEP 15): event code at offset 80 and the three counters."""
    head, _, opstr = case.partition(" ; ")
    up, comp, left = head.split()[1:4]
    ops = opstr.split()
    segs = line.split(" | ")
    if len(segs) != len(ops):
        return [(None, "UDP case: %d packets reported for %d client events: %s" % (len(segs), len(ops), line[:200]))]
    bad = []
    pending = None
    for i, (op, seg) in enumerate(zip(ops, segs)):
        silent = op.endswith("!")
        op = op.rstrip("!")
        if silent:
            if seg not in ("timeout", "-"):
                bad.append((None, "UDP case: silent tracker at op %d (%s): %s" % (i, op, seg[:80])))
            if op in ("ss", "ST"):
                pending = 2
            elif op == "sc":
                pending = 1
            continue
        if op in ("ss", "ST"):
            pending = 2
        elif op == "sc":
            pending = 1
        elif op in ("sp", "SP"):
            pending = None
        if seg == "-":
            continue
        f = seg.split(":")
        if len(f) != 4 or not all(x.isdigit() for x in f):
            bad.append((None, "UDP case: op %d (%s): %s" % (i, op, seg[:120])))
            continue
        want = BEP15[op] if op in BEP15 and op != "mr" else (pending if pending is not None else 0)
        if int(f[0]) != want:
            bad.append((None, "UDP announce packet for a '%s' event carries BEP-15 event code %s (%s) at op %d (%s)" % (
                BEP15_NAME[want], f[0], BEP15_NAME.get(int(f[0]), "?"), i, op)))
        if (f[1], f[2], f[3]) != (comp, left, up):
            bad.append((None, "UDP announce packet downloaded/left/uploaded = %s/%s/%s differ from the download info %s/%s/%s at op %d (%s)" % (
                f[1], f[2], f[3], comp, left, up, i, op)))
        if want in (1, 2) and int(f[0]) == want:
            pending = None      # the harness tracker answers every announce with a success
    return bad[:2]


def oracle_download(case, line):
    """D cases: the figures handed to the tracker through the real Download API match the transfer state:
    uploaded / downloaded count from the baseline taken at the last start (unless start_keep_baseline)."""
    head, _, opstr = case.partition(" ; ")
    comp, left = int(head.split()[1]), int(head.split()[2])
    ops = opstr.split()
    segs = line.split(" | ")
    if len(segs) != len(ops):
        return [(None, "D case: %d segments for %d ops: %s" % (len(segs), len(ops), line[:200]))]
    up = upb = compb = 0
    active = False
    bad = []
    for i, (op, seg) in enumerate(zip(ops, segs)):
        want_ev = None
        if op in ("start", "starts", "startk") and not active:
            active = True
            if op != "startk":
                upb, compb = up, comp
            if op != "starts":
                want_ev = 2
        elif op in ("stop", "stops") and active:
            active = False
        elif op.startswith("up:"):
            up += int(op[3:])
        for q in (seg[1:].split(",") if len(seg) > 1 else []):
            f = [int(x) for x in q.split(":")]
            if (f[1], f[2], f[3]) != (max(up - upb, 0), max(comp - compb, 0), left):
                bad.append(("figures-not-transfer-state", "announce (event %d) reports uploaded/downloaded/left %d/%d/%d but the transfer state of this session is %d/%d/%d at op %d (%s)" % (
                    f[0], f[1], f[2], f[3], max(up - upb, 0), max(comp - compb, 0), left, i, op)))
            if want_ev is not None and f[0] != want_ev:
                bad.append((None, "Download::start sent event %d instead of 'started' at op %d" % (f[0], i)))
    return bad[:1]


def oracle_http(case, line):
    """H cases (real TrackerHttp, hand-drained main thread): every announce between a start / completed and the reply
    that accepts an announce CARRYING that event carries it; figures equal the case's."""
    head, _, opstr = case.partition(" ; ")
    up, comp, left = head.split()[1:4]
    ops = opstr.split()
    segs = line.split(" | ")
    if len(segs) != len(ops):
        return [(None, "H case: %d segments for %d ops: %s" % (len(segs), len(ops), line[:200]))]
    pending = None          # event code the client is waiting to get accepted
    inflight = None         # event of the request the tracker has not answered yet
    queued = None           # (event, ok) of an answered request whose result the main thread has not run yet
    bad = []
    for i, (op, seg) in enumerate(zip(ops, segs)):
        f = seg.split(" ")
        reqs = f[2][1:].split(",") if len(f) == 3 and len(f[2]) > 1 else []
        if op == "ss":
            pending = 2
        elif op == "sc":
            pending = 1
        elif op == "sp":
            pending = None
        elif op in ("ok", "fl") and inflight is not None and queued is None:
            queued, inflight = (inflight, op == "ok"), None
        elif op == "dr" and queued is not None:
            if queued[1] and queued[0] == pending:
                pending = None
            queued = None
        for q in reqs:
            g = q.split(":")
            ev = int(g[0])
            if (g[1], g[2], g[3]) != (up, comp, left):
                bad.append((None, "HTTP announce reports %s/%s/%s, the download info says %s/%s/%s at op %d (%s)" % (g[1], g[2], g[3], up, comp, left, i, op)))
            if pending in (1, 2) and ev != pending:
                bad.append(("stale-reply-accepts-pending-event", "HTTP announce carries event %d while '%s' is still pending (no tracker accepted an announce that carried it) at op %d (%s)" % (
                    ev, BEP15_NAME[pending], i, op)))
            inflight = ev
            queued = None           # a new request supersedes a result still waiting for the main thread
    return bad[:1]


def oracle(case, line, P):
    """Returns list of (klass or None, text). klass None = unclassified violation."""
    if line.startswith("CRASH") and ("rc=-14" in line or "signal=14" in line or "TIMEOUT" in line):
        return [(None, "hang: the implementation did not finish this case within the per-case watchdog (30 s)")]
    if line.startswith("CRASH") or "ERR:" in line or "BAD" in line or line == "MISSING" or "SETUP-FAIL" in line or "unexpected-packet" in line or "no-announce" in line:
        return [(None, "implementation crashed or raised: " + line[-200:])]
    if case.startswith("U "):
        return oracle_udp(case, line)
    if case.startswith("D "):
        return oracle_download(case, line)
    if case.startswith("H "):
        return oracle_http(case, line)
    head, _, opstr = case.partition(" ; ")
    ht = head.split()
    groups = [int(x.rstrip("s")) for x in ht[4:4 + int(ht[3])]]
    ops = [x for x in opstr.split() if not x.startswith("h:")]
    segs = line.split(" | ") if line != "-" else []
    if len(segs) != len(ops):
        return [(None, "implementation printed %d segments for %d ops" % (len(segs), len(ops)))]
    bad = []
    group_of = dict(enumerate(groups))
    inflight = {}            # tracker id -> event of the announce in flight
    scraping = set()         # trackers with a scrape in flight
    used = set()             # trackers with a counted success since the statistics were last reset (enable / start)
    was_active = False
    done_ev = {}             # tracker id -> event of the announce whose reply the worker has produced but main has not counted yet
    pend_start = pend_comp = ever_start = ever_comp = False
    stats = (0, 0, 0)
    raw = (0, 0, 0)
    base = (0, 0)
    prev = None
    for i, (op, seg) in enumerate(zip(ops, segs)):
        try:
            st = parse_seg(seg)
        except Exception:
            return bad + [(None, "unparsable segment %d: %s" % (i, seg[:120]))]
        o = op.split(":")[0]
        pre_fl = prev["fl"] if prev else 0
        pre_trs = {t["id"]: t for t in (prev["trs"] if prev else st["trs"])}
        post = {t["id"]: t for t in st["trs"]}
        nows = st["now"] // USEC
        timer_driven = o in ("ad", "nx", "nxs", "fl", "fi", "ok", "te", "td", "cy", "dr", "dok", "dfl", "dfi", "sr")
        # a worker finished its request (busy -> idle without a new request): the reply exists from now on
        for tid, t in post.items():
            p = pre_trs.get(tid)
            if p and p["busy"] and not t["busy"] and not any(q["id"] == tid for q in st["reqs"]):
                if tid in scraping:
                    scraping.discard(tid)
                elif tid in inflight:
                    done_ev[tid] = inflight.pop(tid)
        # answered and requested again within the op (the counters moved although it is busy before and after)
        for tid, t in post.items():
            p = pre_trs.get(tid)
            if p and p["busy"] and t["busy"] and (t["fc"] == p["fc"] + 1 or t["sc"] == p["sc"] + 1) and any(q["id"] == tid for q in st["reqs"]):
                if tid in scraping:
                    scraping.discard(tid)
                elif tid in inflight:
                    done_ev[tid] = inflight.pop(tid)
        # the main thread counted a reply: an accepted announce delivers the event it carried
        for tid, t in post.items():
            p = pre_trs.get(tid)
            if p and t["sc"] == p["sc"] + 1:
                used.add(tid)
                ev_done = done_ev.pop(tid, None)
                if ev_done == EV_STARTED:
                    pend_start = False
                if ev_done == EV_COMPLETED:
                    pend_comp = False
            elif p and t["fc"] == p["fc"] + 1:
                done_ev.pop(tid, None)
        # enable() on an inactive controller resets every tracker's statistics (enable_dont_reset_stats does not)
        if o in ("en", "ST") and not was_active:
            used = set()
        was_active = bool(st["fl"] & F_ACTIVE)
        if o in ("ST", "STK"):
            base = (raw[0], raw[1])
            stats = (0, 0, raw[2])
        if o in ("ss", "ST", "STB"):
            ever_start = True
            pend_start, pend_comp = True, False
        elif o == "sc":
            ever_comp = True
            pend_comp, pend_start = True, False
        elif o in ("sp", "SP"):
            pend_start = pend_comp = False
        elif o == "st":
            f = op.split(":")
            raw = (int(f[1]), int(f[2]), int(f[3]))
            stats = (max(raw[0] - base[0], 0), max(raw[1] - base[1], 0), raw[2])
        elif o == "in":
            group_of[len(group_of)] = int(op.split(":")[1].rstrip("s"))
        elif o == "bl":
            f = op.split(":")
            base = (int(f[1]), int(f[2]))
            stats = (max(raw[0] - base[0], 0), max(raw[1] - base[1], 0), raw[2])
        for t in st["trs"]:
            if not (P["trk_min_normal_interval"] <= t["ni"] <= P["trk_max_normal_interval"] and
                    P["trk_min_min_interval"] <= t["mi"] <= P["trk_max_min_interval"]):
                bad.append((None, "interval outside the clamps at op %d (%s): tracker %d ni=%d mi=%d" % (i, op, t["id"], t["ni"], t["mi"])))
        pre_inflight = set(inflight) | set(scraping)
        for q in st["reqs"]:
            tid, ev = q["id"], q["ev"]
            t = post[tid]
            # a request that is no longer in flight at the end of the op was answered within the op (a queued or
            # explicit reply processed after it): the timing clauses are then judged on the state before the op
            if not t["busy"] and tid in pre_trs:
                t = pre_trs[tid]
            where = "op %d (%s) tracker %d event %d" % (i, op, tid, ev)
            # one in flight; newer event replaces, never duplicates
            if q["repl"] != (tid in inflight or tid in scraping) and tid not in st["scrapes"]:
                bad.append((None, "worker in-flight state disagrees with the request history at " + where))
            scraping.discard(tid)       # an announce replaces a scrape in flight
            done_ev.pop(tid, None)      # and supersedes a reply of this tracker still waiting for the main thread
            if tid in inflight and (ev == inflight[tid] or ev == EV_NONE):
                bad.append((None, "a pending announce was replaced by a duplicate / plain update at " + where))
            if not pre_trs[tid]["en"] and not t["en"]:
                bad.append((None, "request sent to a disabled tracker at " + where))
            # figures match the transfer state at send time
            if (q["up"], q["comp"], q["left"]) != stats:
                bad.append((None, "uploaded/completed/left differ from the download info at " + where))
            # event protocol
            if pend_start and ev != EV_STARTED:
                kl = "update-drops-pending-event" if o in ("mr", "su") else \
                     "unrelated-success-clears-pending-event" if not (pre_fl & F_START) else None
                bad.append((kl, "announce without 'started' while a start is pending at " + where))
            if pend_comp and ev != EV_COMPLETED:
                kl = "update-drops-pending-event" if o in ("mr", "su") else \
                     "unrelated-success-clears-pending-event" if not (pre_fl & F_COMPLETED) else None
                bad.append((kl, "announce without 'completed' while a completed is pending at " + where))
            if ev == EV_STOPPED:
                p = pre_trs[tid]
                if o not in ("sp", "SP") or not p["en"] or tid not in used:
                    bad.append((None, "'stopped' sent outside stop or to a tracker that was not successfully used in this session at " + where))
            if ev == EV_STARTED and not ever_start:
                bad.append((None, "'started' sent although the client never asked for a start at " + where))
            if ev == EV_COMPLETED and not ever_comp:
                bad.append((None, "'completed' sent although the client never asked for it at " + where))
            # hammering: only for announces the client did not ask for in this very op
            if timer_driven:
                if t["fc"] > 0:
                    need = t["ftl"] + (t["mi"] if t["mi"] > P["trk_min_min_interval"] else backoff(P, t["fc"]))
                    if nows < need:
                        bad.append((None, "failed tracker retried %d s before its back-off at %s" % (need - nows, where)))
                elif t["sc"] > 0:
                    need = t["stl"] + t["mi"]
                    if nows < need:
                        kl = "min-interval-above-interval" if t["mi"] > t["ni"] else None
                        bad.append((kl, "successful tracker re-announced %d s before its min interval at %s" % (need - nows, where)))
                # tier order (normal mode only). Theorem tier_order: an enabled never-failed tracker u of an
                # earlier tier is either in flight, or the first requestable tracker has failed and the
                # chosen tracker's next-activity time is not later than u's (the two listed findings).
                if not (pre_fl & (F_PROMISC | F_REQUESTING)):
                    g = group_of[tid]
                    for u in st["trs"]:
                        if group_of[u["id"]] < g and u["en"] and u["fc"] == 0:
                            if u["id"] in inflight:
                                kl = "tier-skipped-while-in-flight"
                            elif atn(P, t) <= atn(P, u) and any(p["en"] and p["fc"] > 0 and p["id"] not in inflight for p in st["trs"]):
                                kl = "tier-skipped-not-due"
                            elif u["id"] in scraping:
                                kl = "tier-skipped-scrape-in-flight"     # not a listed finding: a scrape must be replaced, not waited for
                            else:
                                kl = None
                            bad.append((kl, "tier %d contacted while tier %d has a usable tracker without failure (tracker %d) at %s" % (g, group_of[u["id"]], u["id"], where)))
                            break
            inflight[tid] = ev
            if not post[tid]["busy"]:
                # answered within this op
                ev_done = inflight.pop(tid)
                p = pre_trs.get(tid)
                if p and post[tid]["sc"] == p["sc"] + 1:
                    if ev_done == EV_STARTED:
                        pend_start = False
                    if ev_done == EV_COMPLETED:
                        pend_comp = False
        for tid in st["scrapes"]:
            if tid in pre_inflight and not any(q["id"] == tid for q in st["reqs"]):
                bad.append((None, "scrape sent to tracker %d while it has a request in flight at op %d (%s)" % (tid, i, op)))
            if not post[tid]["en"] and not pre_trs.get(tid, post[tid])["en"]:
                bad.append((None, "scrape sent to disabled tracker %d at op %d (%s)" % (tid, i, op)))
            if post[tid]["busy"] and post[tid]["ev"] == 4:
                inflight.pop(tid, None)
                scraping.add(tid)
        # the per-tracker busy flag agrees with the request history
        for tid, t in post.items():
            if t["busy"] != (tid in inflight or tid in scraping):
                bad.append((None, "tracker %d busy flag %s but request history says %s after op %d (%s)" % (tid, t["busy"], tid in inflight, i, op)))
                inflight = {k: v for k, v in inflight.items() if post[k]["busy"]}
                scraping = {k for k in scraping if post[k]["busy"]}
                for k, v in post.items():
                    if v["busy"] and k not in scraping:
                        inflight.setdefault(k, v["ev"])
                break
        prev = st
    # one report per class per case
    seen, out = set(), []
    for kl, text in bad:
        if kl not in seen:
            seen.add(kl)
            out.append((kl, text))
    return out


def with_hints(case, impl_line):
    if not case.startswith("T "):
        return case
    head, _, opstr = case.partition(" ; ")
    ops = opstr.split()
    segs = impl_line.split(" | ")
    if len(segs) != len(ops):
        return case
    out = []
    for op, seg in zip(ops, segs):
        m = re.search(r" R(\d[^ ]*)", seg)
        if m:
            ids = [q.split(":")[0] for q in m.group(1).split(",")]      # in the order they were contacted
            if len(ids) >= 1:
                out.append("h:" + ",".join(ids))
        out.append(op)
    return head + " ; " + " ".join(out)


def first_diff(m, o):
    ms, os_ = m.split(" | "), o.split(" | ")
    for i in range(max(len(ms), len(os_))):
        a = ms[i] if i < len(ms) else "<none>"
        b = os_[i] if i < len(os_) else "<none>"
        if a != b:
            return "segment %d: model=%s impl=%s" % (i, a[:300], b[:300])
    return ""


def run(rep, tier, seed, replay):
    # constants are probed from the compiled code of the tree under check BEFORE the Coq lock is taken
    # (gen/params_c13.py then only reads the stored probe)
    try:
        import importlib.util
        spec = importlib.util.spec_from_file_location("params_c13", os.path.join(ltv.VERIF, "gen", "params_c13.py"))
        pm = importlib.util.module_from_spec(spec)
        spec.loader.exec_module(pm)
        probed = pm.probe(build=True)
    except ltv.BuildError:
        raise
    except Exception as e:
        probed = {}
        ltv.log("params probe failed: %s" % (str(e)[:200],))
    coq = ltv.coq_build("C13")
    rep.cov.update(obligations=coq["obligations"], discharged=coq["discharged"], checker_cmd=coq["checker_cmd"],
                   theorems=coq["theorems"], axioms_per_theorem=coq["axioms"],
                   params_probed_from_compiled_code=sorted(probed.keys()),
                   trusted_base=ltv.std_trusted_base(coq, [
                       "UDP wire cases: real TrackerUdp + UdpRouter on loopback; the tracker thread's clock is stepped by the harness to reach UdpRouter's retransmission timeouts",
                       "modelled not verified: tracker workers (HTTP/UDP/DHT) are the environment; the harness worker applies the same TrackerState updates (set_*_interval through the real clamping setters, requesting flags) as TrackerHttp/TrackerUdp",
                       "modelled not verified: Scheduler reduced to the single m_task_timeout entry; tracker thread is quiescent between two main-thread events (the harness waits for it)",
                       "python oracle props/c13.py (strict reading of the C13 statement) on implementation outputs"]))
    P = params()
    model = ltv.build_model("C13")
    # both drivers are linked right away (and once more if the shared library cache was pruned by a concurrent run
    # between the two links: lib/ltv.py keeps only the three most recent trees)
    def build_both():
        return (ltv.build_harness("c13", ["c13.cc"]),
                ltv.build_harness("c13d", ["c13d.cc", "common/session.cc"], libs=["-lcrypto"]))
    try:
        impl, impl_d = build_both()
    except ltv.BuildError as e:
        if "libltv.a" not in str(e):
            raise
        impl, impl_d = build_both()
    if replay:
        cases = [json.load(open(replay))["case"]]
        stats = {"replay": 1}
    else:
        cases, stats = G.gen(seed, tier)
    # D cases go to the session-based driver (real torrent::Download), everything else to harness/c13.cc
    didx = [i for i, c in enumerate(cases) if c.startswith("D ")]
    oidx = [i for i, c in enumerate(cases) if not c.startswith("D ")]
    io = [None] * len(cases)
    # the network-backed cases (real TrackerHttp / TrackerUdp: seconds each) are spread over all shards on their own
    slow = [i for i in oidx if cases[i][:2] in ("H ", "U ")]
    fast = [i for i in oidx if cases[i][:2] not in ("H ", "U ")]
    import concurrent.futures as _cf
    with _cf.ThreadPoolExecutor(2) as ex:
        f_slow = ex.submit(ltv.run_sharded, impl, [cases[i] for i in slow], len(slow) or 1, timeout=900)
        f_fast = ex.submit(ltv.run_sharded, impl, [cases[i] for i in fast], timeout=900)
        for i, r in zip(slow, f_slow.result()):
            io[i] = r
        for i, r in zip(fast, f_fast.result()):
            io[i] = r
    if didx:
        for i, r in zip(didx, ltv.run_sharded(impl_d, [cases[i] for i in didx], timeout=900)):
            io[i] = r
    io = [r if r is not None else "MISSING" for r in io]
    # Second pass: the model. Which READY tracker of a tier is contacted in promiscuous/requesting mode is left open
    # by the property; the model is told which trackers the implementation contacted in each op ("h:" tokens) and
    # follows that choice only among the trackers it considers ready in that tier (Model.pick_hinted).
    mo = ltv.run_sharded(model, [with_hints(c, o) for c, o in zip(cases, io)])
    nontrivial = set()
    pending = []
    mism = 0
    samples = []
    nreq = 0
    opkinds = {}
    evkinds = {0: 0, 1: 0, 2: 0, 3: 0}
    maxfail = 0
    for i, case in enumerate(cases):
        m = mo[i] if i < len(mo) else "MISSING"
        o = io[i] if i < len(io) else "MISSING"
        reqs = re.findall(r"R(\d[^ ]*)", o)
        n = sum(len(x.split(",")) for x in reqs)
        nreq += n
        for x in reqs:
            for q in x.split(","):
                k = int(q.split(":")[0 if case[:2] in ("D ", "H ") else 1])
                evkinds[k] = evkinds.get(k, 0) + 1
        for f in re.findall(r"\d+\.[01]\.[01]\.\d\.\d+\.(\d+)\.", o):
            maxfail = max(maxfail, int(f))
        for op in case.partition(" ; ")[2].split():
            k = op.split(":")[0]
            opkinds[k] = opkinds.get(k, 0) + 1
        if n >= 2:
            nontrivial.add(hashlib.sha1(case.encode()).digest())
        if len(samples) < 4 and i % 499 == 3:
            samples.append({"case": case[:300], "impl": o[:400]})
        viol = oracle(case, o, P)
        if m != o:
            mism += 1
            # prefer an unclassified property failure as the headline of a disagreement
            real = sorted(viol, key=lambda v: v[0] is not None)
            if real:
                kl, text = real[0]
                pending.append((0 if kl is None else 1, dict(
                    what="model and implementation differ AND the property fails on the implementation: " + text + " ; " + first_diff(m, o),
                    case=case, model=m, impl=o, theorem="correspondence C13 (per-op controller/list state and requests)", klass=kl)))
            else:
                pending.append((2, dict(
                    what="correspondence broken: model and implementation differ on this history (property oracle holds on it): " + first_diff(m, o),
                    case=case, model=m, impl=o, theorem="correspondence C13 (per-op controller/list state and requests)", found_input=False)))
        else:
            for kl, text in viol:
                pending.append((0 if kl is None else 3, dict(what=text, case=case, model=m, impl=o, theorem="property oracle C13", klass=kl)))
    # new / unclassified failures first (the report keeps the first 20 replays), shortest history first
    pending.sort(key=lambda x: (x[0], len(x[1]["case"])))
    for _, kw in pending:
        what = kw.pop("what")
        rep.violation(what, **kw)
    if not coq["ok"]:
        rep.violation("C13 proof obligations no longer check (%d/%d): %s %s" % (
            coq["discharged"], coq["obligations"], "; ".join(coq["lint"] + coq["bad_axioms"]), coq["log"][-1500:]),
            theorem="coq/C13/Properties.v", found_input=False)
    stats.update(op_kinds=opkinds, requests_by_event={"none": evkinds[0], "completed": evkinds[1], "started": evkinds[2], "stopped": evkinds[3]},
                 max_failed_counter=maxfail)
    rep.cov.update(evaluations=len(cases), distinct_nontrivial=len(nontrivial), requests_observed=nreq,
                   rule="cases = corpus + hand timelines + boundary sweeps + random client streams + random primitive streams "
                        "(+ exhaustive op lists of length <= 5 in the thorough tier); non-trivial = distinct case in which the "
                        "implementation handed at least 2 requests to tracker workers",
                   samples=samples, input_distribution=stats, mismatches=mism,
                   exhaustive=(tier != "quick"))
    rep.assumptions += ["tracker thread handles Manager::send_event callbacks before the next main-thread event (harness quiesces after every op)",
                        "no scrape requests and no DHT-type tracker (not modelled); counters below 2^32; interval values within int64",
                        "send_stop_event is always followed by disable (the only use in src/torrent/download.cc)",
                        "at most ONE worker result callback is kept queued for the main thread (ops dok/dfl/dfi are dropped while one is queued, by model and harness alike): "
                        "with two queued callbacks the main thread runs both in one batch; if the first is a failure its do_timeout hands a new request to the tracker "
                        "thread, whose remove_events() for the second callback's tracker then RACES with the main thread reaching that callback in the same batch "
                        "(Thread::process_callbacks checks the cancellation generation only when it gets to the entry). That outcome is genuinely schedule dependent, "
                        "so it cannot be compared against a deterministic model; the theorems (stale_reply_never_accepts, drain_accepts_only_carrier) are about the one-slot queue",
                        "two controller timers due at the same instant fire announce-timer first (the order is the scheduler heap's, not constrained by the property; the harness imposes it)"]
