"""C02 — piece space maps one-to-one onto file bytes: proof obligations + correspondence +
property oracle (gen/c02.py:oracle, an independent flat-stream specification) evaluated on the
implementation's outputs."""
import hashlib
import json
import os
import re

import ltv
from gen import c02 as G


def canon_model(line):
    """the model prints the bytes HashChunk hands to SHA-1 ('hashin=<hex>'); SHA-1 itself is an external
    function (hashlib here, OpenSSL in the library): compare digests"""
    if "hashin=" not in line:
        return line
    def h(m):
        b = bytes.fromhex(m.group(1)) if m.group(1) != "-" else b""
        return "hash=" + hashlib.sha1(b).hexdigest()
    return re.sub(r"hashin=([0-9a-f]+|-)", h, line)


def run(rep, tier, seed, replay):
    coq = ltv.coq_build("C02")
    rep.cov.update(obligations=coq["obligations"], discharged=coq["discharged"], checker_cmd=coq["checker_cmd"],
                   theorems=coq["theorems"], axioms_per_theorem=coq["axioms"],
                   trusted_base=ltv.std_trusted_base(coq, [
                       "modelled not verified: the kernel's shared file mappings (a MAP_SHARED window of a file IS the file's bytes; "
                       "ftruncate zero-extends; anonymous mappings start zeroed), msync, page alignment arithmetic of SocketFile::create_chunk "
                       "(exercised by the page-sized cases of the correspondence only)",
                       "modelled not verified: File::prepare / FileManager (create-queued and resize-queued flags reduce to: files exist empty "
                       "after FileList::open, the first writable chunk request resizes a file to its size)",
                       "python reference oracle gen/c02.py (Ref/oracle): flat-stream specification evaluated on implementation outputs"]))
    model = ltv.build_model("C02")
    impl = ltv.build_harness("c02", ["c02.cc"])
    # --- constants of the side conditions, probed from the COMPILED implementation (ROBUSTNESS rule 3)
    pr, perr, prc = ltv.run_lines(impl, [], args=["--params"], timeout=120)
    probed = dict(t.split("=", 1) for t in pr[0].split()[1:]) if pr and pr[0].startswith("PARAMS ") and "error" not in pr[0] else {}
    try:
        pvals = [int(probed[k]) for k in ("left_shift", "pl_min_excl", "pl_max")]
        page = int(probed["page"])
    except (KeyError, ValueError):
        raise ltv.BuildError("C02 harness --params probe failed: %r %s" % (pr, perr[-300:]))
    pok, _, _ = ltv.run_lines(model, [], args=["--probed-ok"] + [str(max(0, v)) for v in pvals])
    probed_ok = bool(pok) and pok[0] == "probed_ok=1" and min(pvals) >= 0
    # the regex translator (gen/params_c02.py -> coq/C02/ParamsGen.v) is only a cross-check that may be absent
    xcheck = {}
    try:
        txt = open(os.path.join(ltv.COQ, "C02", "ParamsGen.v")).read()
        for name, val in (("c02_left_bytes_limit_shift", pvals[0]), ("c02_loader_piece_length_min_excl", pvals[1]),
                          ("c02_loader_piece_length_max", pvals[2]), ("c02_flag_attr_padding_shift", int(probed.get("pad_shift", -1)))):
            mm = re.search(name + r" : N := (\d+)%N\. *(\(\* NOT FOUND)?", txt)
            if mm and not mm.group(2):
                xcheck[name] = "agrees" if int(mm.group(1)) == val else "source text says %s, compiled code behaves as %d" % (mm.group(1), val)
            else:
                xcheck[name] = "regex did not match (ignored)"
    except OSError:
        pass
    rep.cov.update(probed_constants=probed, probed_ok=probed_ok, source_text_crosscheck=xcheck)
    if not probed_ok:
        rep.violation("the constants probed from the implementation (%r) violate the side condition probed_ok of the theorems "
                      "(left_bytes bound >= 2^60, largest loadable piece length < 2^32)" % probed,
                      theorem="probed_ok (coq/C02/Model.v)", found_input=False)
    if replay:
        cases = [json.load(open(replay))["case"]]
        stats = {"replay": 1}
    else:
        cases, stats = G.gen(seed, tier)
    mo = [canon_model(l) for l in ltv.run_sharded(model, cases, env={"LTV_PAGE": str(page)})]
    io = ltv.run_sharded(impl, cases, timeout=900)   # per-case 30 s watchdog inside the harness (common/supervise.h)
    # the supervisor reports a dead worker as "CRASH exit=N"; name the sanitizer report for the first few
    named = 0
    for i, o in enumerate(io):
        if o.startswith("CRASH") and named < 5:
            named += 1
            r1, e1, rc1 = ltv.run_lines(impl, [cases[i]], timeout=120)
            kind = ltv.crash_kind(e1, rc1)
            if kind and not kind.startswith("rc="):
                io[i] = o + " (" + kind + ")"
    nontrivial = set()
    skipped = 0
    mism = 0
    samples = []
    nops = 0
    for i, case in enumerate(cases):
        m = mo[i] if i < len(mo) else "MISSING"
        o = io[i] if i < len(io) else "MISSING"
        if o.startswith("SKIPPED-AFTER-HANGS"):
            skipped += 1          # the supervisor gave up on this shard after three hangs: not evaluated
            continue
        nops += case.count(";")
        # non-trivial: at least one chunk was created, written and read back by the implementation
        if "wr=ok" in o and "dump=" in o:
            nontrivial.add(hashlib.sha1(case.encode()).digest())
        if len(samples) < 5 and i % 397 == 11:
            samples.append({"case": case[:300], "impl": o[:400]})
        try:
            viol = G.oracle(case, o)
        except Exception as e:      # belt and braces: the oracle is total, the check must never die on an output
            viol = [("crash", "oracle could not interpret the implementation output (%r): %s" % (e, o[:160]))]
        if m != o:
            mism += 1
            if viol:
                kl, text = viol[0]
                rep.violation("model and implementation differ AND the property fails on the implementation: " + text,
                              case=case, model=m, impl=o, theorem="correspondence C02 (parts, reads, file images, ranges, accounting)", klass=kl)
            else:
                rep.violation("correspondence broken: model and implementation differ on this input (property oracle holds on it)",
                              case=case, model=m, impl=o, theorem="correspondence C02 (parts, reads, file images, ranges, accounting)",
                              found_input=False)
        else:
            for kl, text in viol[:1]:
                rep.violation(text, case=case, model=m, impl=o, theorem="property oracle C02", klass=kl)
    if not coq["ok"]:
        rep.violation("C02 proof obligations no longer check (%d/%d): %s %s" % (
            coq["discharged"], coq["obligations"], "; ".join(coq["lint"] + coq["bad_axioms"]), coq["log"][-1500:]),
            theorem="coq/C02/Properties.v", found_input=False)
    rep.cov.update(evaluations=len(cases), operations=nops, distinct_nontrivial=len(nontrivial),
                   rule="cases = corpus + hand list + random layouts/op lists (valid and malformed streams) + close/re-open/update_completed "
                        "sequences + loader-driven torrents (download_add, files not path-sorted) + sparse >4 GiB layouts (pread at "
                        "absolute offsets) + page-sized layouts + exhaustive small size vectors; non-trivial = distinct case in which the implementation created a chunk, "
                        "wrote into it successfully and the files were read back from disk",
                   samples=samples, input_distribution=stats, mismatches=mism, skipped_after_hangs=skipped,
                   exhaustive=stats.get("exhaustive_scope", False))
    rep.assumptions += ["total size > 0 (the loader rejects zero-length torrents; FileList::completed_bytes reads bitfield bit "
                        "size_chunks()-1 and is not called on an empty torrent)",
                        "piece count below 2^32 ((total + cs - 1) / cs < 2^32; the uint32 truncation of the count is C08's subject)",
                        "bitfield allocated (Download::open state); files are not modified by anyone else while the torrent is open",
                        "op R = FileList/Download close + open + bitfield allocate + unset_all + update_completed (what Download::open + "
                        "Download::hash_check do without resume data); op S sets a bitfield bit only (resume / hash bookkeeping), U = update_completed",
                        "per-file completed_chunks (File::completed_chunks): oracle = number of set pieces overlapping the file, never above its "
                        "piece count, 0 for empty files (strict since fix 17569a5; a counter above that is klass file-completed-overcount); "
                        "after raw bitfield edits (op S) the counters are only compared again after update_completed / re-open",
                        "op X = Chunk::preload + the do { data(); io; } while (n && forward(n)) loop of PeerConnectionBase::down_chunk / up_chunk, "
                        "run in the harness with the real ChunkIterator and a scripted schedule of short transfers (the socket, throttle and "
                        "encryption around it are not part of C02); ranges with first >= last are modelled but not generated",
                        "every case runs under the 30 s per-case watchdog of harness/common/supervise.h (HANG -> klass hang, run continues)",
                        "op H = HashChunk over create_hashing_chunk_index(idx) with a schedule of perform(l, force=true) calls; the model prints the bytes "
                        "handed to SHA-1 and the glue hashes them with hashlib (SHA-1 is an external function on both sides); incore_length / "
                        "force=false is not modelled",
                        "parts carry MemoryChunk::page_align(); the model computes file_offset mod page for the page size of this machine (LTV_PAGE); "
                        "the theorems hold for every page size > 0",
                        "file images in the model are sparse (length + written cells, zero elsewhere) so >4 GiB files are ordinary inputs; such cases "
                        "are compared through pread windows (op P), never dumped",
                        "one Chunk alive at a time in the correspondence (the ChunkList reference counting is not part of C02)",
                        "buffer position+length below 2^32 (Chunk::to/from/compare_buffer compute position+length in uint32; the model "
                        "reproduces the wrapped bound check but walks the parts with the unwrapped end; the theorems assume pos+len < 2^32)"]
