"""C14 — tracker / DHT / PEX reply parsing: proof obligations + correspondence + property oracle."""
import hashlib
import json
import struct
import sys

import ltv
from gen import c07 as G7
from gen import c14 as G

sys.setrecursionlimit(20000)


def parse_kv(s):
    out = {}
    for t in s.split():
        k, _, v = t.partition("=")
        out[k] = v
    return out


def usable(a):
    return a[2] != 0 and a[1] != 0


def check_retained(addrs, where, mapped=True):
    bad = []
    for a in addrs:
        if a[2] == 0:
            bad.append(("port-zero-retained", "%s: an address with port 0 is retained (%s)" % (where, G.show_addr(a))))
        # unspecified = 0.0.0.0, :: and 0.0.0.0 in the IPv4-mapped form ::ffff:0.0.0.0 (a dual-stack socket connects the
        # mapped form to the IPv4 unspecified address; the code's own sa_is_any counts it)
        if a[1] == 0 or (mapped and a[0] == 6 and a[1] == 0xffff00000000):
            bad.append(("unspecified-address-retained", "%s: the unspecified address is retained as a peer (%s)" % (where, G.show_addr(a))))
    return bad


def http_verdict(body):
    """'ok' / 'fail' for bodies the reference decides, None otherwise"""
    try:
        tree, _n = G7.ref_decode(body, liberal_istream=True)
        tree = G7.normalize(tree)
    except (G7.NoParse, RecursionError):
        return "fail"
    if not (isinstance(tree, tuple) and tree[0] == "M"):
        return "fail"
    d = dict(tree[1])
    if b"failure reason" in d:
        return "fail"
    if isinstance(d.get(b"warning message"), bytes):
        return None
    if b"peers" in d or isinstance(d.get(b"peers6"), bytes):
        return "ok"
    return None


def oracle(case, line):
    """Property C14 evaluated on ONE implementation output line. Returns list of (klass, text)."""
    if line.startswith("CRASH") and ("TIMEOUT" in line or "rc=3" in line):
        return [("hang", "processing a reply blocked: the per-case watchdog (20 s) expired: " + line[:120])]
    if line.startswith(("SETUP-FAIL", "BADCASE", "MISSING")):
        return []      # the harness could not set the case up (not evidence about the property); model != impl reports it
    if line.startswith(("CRASH", "ERR:", "NONDET")) or "ERR:" in line or "fault" in line.split(" | ")[0].split(" ")[0]:
        return [("crash", "reply processing crashed, threw past the handler or read stale buffer bytes: " + line[:200])]
    toks = case.split()
    kind = toks[0]
    bad = []
    if kind in ("AC", "AC6", "AB"):
        data = bytes.fromhex(toks[1]) if toks[1] != "-" else b""
        want = G.ref_compact(data, 6) if kind == "AC" else G.ref_compact(data, 18) if kind == "AC6" else G.ref_bencode_peers(data)
        if line != "OK " + G.show_addrs(want):
            bad.append(("compact-not-exact", "%s: parsed list is not exactly the whole records of the payload, in order" % kind))
    elif kind == "AN":
        tree, _ = G7.parse_result_tree(toks, 1)
        tree = G7.normalize(tree)
        got = line[3:] if line.startswith("OK ") else None
        if got != G.show_addrs(G.ref_normal(tree, True)):
            if got == G.show_addrs(G.ref_normal(tree, False)):
                bad.append(("normal-ip-nul-truncated", "dictionary-form peer whose ip string contains a NUL byte is accepted (string cut at the NUL)"))
            else:
                bad.append(("normal-not-exact", "dictionary-form list: result is not exactly the entries with valid ip and 0 < port < 65536"))
        elif got is not None:
            bad += check_retained(G.parse_addrs(got), "parse_address_normal", mapped=False)   # parser stage: the mapped form is dropped later, by PeerList::insert_available
    elif kind == "PL":
        if not line.startswith("OK "):
            return [("crash", "PeerList pipeline: " + line[:200])]
        f = parse_kv(line[3:])
        avail = G.parse_addrs(f["avail"])
        mx = int(toks[1])
        bad += check_retained(avail, "available list")
        if len(avail) > mx:
            bad.append(("cap-exceeded", "available list holds %d addresses, configured maximum is %d" % (len(avail), mx)))
        if len(set(avail)) != len(avail):
            bad.append(("duplicate-retained", "available list holds the same address and port twice"))
        offered, i = [], 2
        while i < len(toks):
            if toks[i] == "X":
                offered += G.ref_compact(bytes.fromhex(toks[i + 1]) if toks[i + 1] != "-" else b"", 6)
                i += 2
            else:
                offered += G.ref_compact(bytes.fromhex(toks[i + 1]) if toks[i + 1] != "-" else b"", 6)
                offered += G.ref_compact(bytes.fromhex(toks[i + 2]) if toks[i + 2] != "-" else b"", 18)
                i += 3
        if not set(avail) <= set(offered):
            bad.append(("invented-address", "available list holds an address that is in no payload"))
        def is_any(a):   # sa_is_any: 0.0.0.0, :: and the v4-mapped ::ffff:0.0.0.0
            return a[1] == 0 or (a[0] == 6 and a[1] >> 32 == 0xffff and a[1] & 0xffffffff == 0)
        if len(avail) < mx and not {a for a in offered if a[2] != 0 and not is_any(a)} <= set(avail):
            bad.append(("valid-address-lost", "an address with a valid port was not retained although the list is below its maximum"))
    elif kind == "U":
        fam, other_tx = int(toks[1]), int(toks[2])
        dgs, i = [], 4
        while i < len(toks):
            dgs.append((toks[i + 1] == "1", bytes.fromhex(toks[i + 2]) if toks[i + 2] != "-" else b""))
            i += 3
        f = parse_kv(line)
        evs = f.get("ev", "-")
        evs = [] if evs == "-" else evs.split(";")
        want = G.ref_udp(fam, other_tx, dgs)
        if len(evs) != len(want):
            return [("udp-events", "number of reported events differs from the number of datagrams")]
        for (ok, d), e, w in zip(dgs, evs, want):
            name, _, arg = e.partition(":")
            if w[0] == "none":
                if name not in ("drop", "ign"):
                    bad.append(("udp-header-accepts", "a datagram that is too short, from the wrong source, or with a wrong action / transaction id had an effect: " + e[:80]))
            elif w[0] == "fail":
                if name != "fail":
                    bad.append(("udp-malformed-not-failed", "an error / malformed reply with matching transaction id did not fail the request: " + e[:80]))
            elif w[0] == "reset":
                if name != "reset":
                    bad.append(("udp-malformed-not-failed", "an error / malformed reply did not reset just this family: " + e[:80]))
            elif name != w[0] or arg != w[1]:
                bad.append(("udp-reply-wrong", "well-formed reply: expected %s:%s, got %s" % (w[0], w[1][:60], e[:80])))
            if name in ("success", "newpeers") and w[0] in ("success", "newpeers"):
                pass
        if bad:
            return bad
    elif kind == "DH":
        own = bytes.fromhex(toks[1])
        outs = [] if line == "-" else line.split(" ; ")
        dgs, i = [], 2
        while i < len(toks):
            dgs.append(bytes.fromhex(toks[i + 2]) if toks[i + 2] != "-" else b"")
            i += 3
        if len(outs) != len(dgs):
            return [("dht-events", "number of reported outcomes differs from the number of datagrams")]
        for d, o in zip(dgs, outs):
            if "TO-OTHER-ADDRESS" in o or "+" in o or o.split(" ")[0] not in ("none", "e", "Q"):
                bad.append(("dht-reply-misdirected", "a DHT datagram caused more than one reply, a reply to another address, or an undecodable reply: " + o[:80]))
                continue
            w = G.ref_dht(own, d)
            if w == "none" and o != "none":
                bad.append(("dht-malformed-answered", "a datagram that is not a bencoded dictionary was answered / processed: " + o[:80]))
            elif w == "Q" and o != "Q":
                bad.append(("dht-query-refused", "a well-formed query envelope was not dispatched: " + o[:80]))
            elif w == "e203" and not o.startswith("e "):
                bad.append(("dht-bad-envelope-accepted", "a message without usable t / y / id was not answered with a protocol error: " + o[:80]))
    elif kind == "DF":
        own = toks[1]
        matched = toks[5:8] == ["m", "m", "s"]
        recs = [(t_[1:41], int(t_.split(":")[1])) for t_ in toks[8:] if t_.startswith("R")]
        qs = [] if line == "-" else line.split(",")
        fn = [q for q in qs if q.startswith("find_node@")]
        if any("!not-our-id" in q or q.split("@")[0] not in ("find_node", "get_peers") for q in qs):
            bad.append(("dht-odd-query", "after a find_node reply the server sent something that is not its own find_node / get_peers query: " + line[:100]))
        if not matched and qs:
            bad.append(("dht-unmatched-reply-used", "a reply with the wrong transaction id / node id / source address had an effect: " + line[:100]))
        if len(fn) > 3:
            bad.append(("dht-search-concurrency", "more than 3 find_node queries in flight for one search"))
        allowed = {k for i_, k in recs if i_ != own}
        for q in fn:
            k = int(q.split("@")[1])
            if k not in allowed:
                if any(i_ == own and kk == k for i_, kk in recs):
                    bad.append(("dht-own-id-contacted", "our own node id from a compact nodes string became a search contact (query sent to its address)"))
                else:
                    bad.append(("dht-invented-contact", "a find_node query went to an address that is in no record of the reply"))
    elif kind == "DS":
        own = toks[1]
        kof = {}
        for t_ in toks[3:]:
            if t_[0] in "IRE":
                kof.setdefault(t_[1:41], int(t_.split(":")[1]))
        known = {kof[t_[1:41]] for t_ in toks[3:] if t_[0] == "I"}
        segs = line.split(" ; ")
        evs = [i_ for i_, t_ in enumerate(toks) if t_[0] == "E" and i_ >= 3]
        if len(segs) != len(evs) + 1:
            return [("dht-events", "number of reported steps differs from the number of replies")]
        for n_, seg in enumerate(segs):
            if n_ > 0:      # what the replies processed so far have named
                j = evs[n_ - 1] + 1
                while j < len(toks) and toks[j][0] != "E":
                    if toks[j][0] == "R" and toks[j][1:41] != own:
                        known.add(int(toks[j].split(":")[1]))
                    j += 1
            qs = [] if seg == "-" else seg.split(",")
            if any("!not-our-id" in q or not q.startswith("find_node@") for q in qs):
                bad.append(("dht-odd-query", "during a find_node search the server sent something that is not its own find_node query: " + seg[:100]))
                continue
            for q in qs:
                k_ = int(q.split("@")[1])
                if k_ == kof.get(own):
                    bad.append(("dht-own-id-contacted", "our own node id from a compact nodes string became a search contact (query sent to its address)"))
                elif k_ not in known:
                    bad.append(("dht-invented-contact", "a find_node query went to an address that no reply and no routing-table entry named"))
    elif kind == "DV":
        d = bytes.fromhex(toks[1]) if toks[1] != "-" else b""
        w = G.ref_values(d)
        if line.startswith("OK "):
            f = parse_kv(line[3:])
            if w is not None and f["values"] != w:
                bad.append(("dht-values-not-exact", "peers taken from r.values are not exactly the leading 6-byte entries"))
        elif w is not None and line == "REJECT":
            bad.append(("dht-valid-reply-rejected", "a canonical DHT reply was rejected by the static-map reader"))
    elif kind == "PI":
        if not line.startswith("OK "):
            return [("crash", "PeerList/PeerInfo pipeline: " + line[:200])]
        f = parse_kv(line[3:])
        avail = G.parse_addrs(f["avail"])
        mx = int(toks[1])
        bad += check_retained(avail, "available list (known peers)")
        if len(avail) > mx + sum(1 for t_ in toks if t_ == "I"):
            bad.append(("cap-exceeded", "available list holds %d addresses, configured maximum is %d" % (len(avail), mx)))
        if len(set(avail)) != len(avail):
            bad.append(("duplicate-retained", "available list holds the same address and port twice"))
        # an address whose PeerInfo was connected from its creation on, and that was never inserted as 'available',
        # must never be in the available list
        offered, always_conn, inserted_avail, i = [], {}, set(), 3
        seen_offer = set()
        while i < len(toks):
            o = toks[i]
            if o == "I":
                rec = bytes.fromhex(toks[i + 1])
                a = G.ref_compact(rec, len(rec))[0]
                offered.append(a)
                if toks[i + 2] == "1":
                    inserted_avail.add((a[0], a[1]))
                i += 3
            elif o == "S":
                ip = toks[i + 1]
                key = (4 if len(ip) == 8 else 6, int(ip, 16))
                if toks[i + 2] == "1" and key not in seen_offer and key not in always_conn:
                    always_conn[key] = True
                elif toks[i + 2] != "1":
                    always_conn[key] = False
                i += 4
            elif o == "N":
                i += 2
            elif o == "X":
                l = G.ref_compact(bytes.fromhex(toks[i + 1]) if toks[i + 1] != "-" else b"", 6)
                offered += l
                seen_offer |= {(a[0], a[1]) for a in l if always_conn.get((a[0], a[1])) is not True}
                i += 2
            else:
                l = G.ref_compact(bytes.fromhex(toks[i + 1]) if toks[i + 1] != "-" else b"", 6) + \
                    G.ref_compact(bytes.fromhex(toks[i + 2]) if toks[i + 2] != "-" else b"", 18)
                offered += l
                seen_offer |= {(a[0], a[1]) for a in l if always_conn.get((a[0], a[1])) is not True}
                i += 3
        if not set(avail) <= set(offered):
            bad.append(("invented-address", "available list holds an address that is in no payload"))
        for a in avail:
            if always_conn.get((a[0], a[1])) is True and (a[0], a[1]) not in inserted_avail:
                bad.append(("connected-peer-offered", "an address whose PeerInfo is connected was added to the available list: " + G.show_addr(a)))
    elif kind == "PX":
        if not line.startswith("OK "):
            return [("crash", "PEX pipeline: " + line[:200])]
        f = parse_kv(line[3:])
        avail = G.parse_addrs(f["avail"])
        mx = int(toks[1])
        bad += check_retained(avail, "available list (ut_pex)")
        if len(avail) > mx:
            bad.append(("cap-exceeded", "available list holds %d addresses, configured maximum is %d" % (len(avail), mx)))
        offered = []
        rets = f["ret"].split(",")
        for ptxt, rt in zip(toks[2:], rets):
            added = G.ref_pex_added(bytes.fromhex(ptxt) if ptxt != "-" else b"")
            if added is None:
                if rt != "REJECT":
                    bad.append(("pex-malformed-accepted", "a ut_pex payload that is not a bencoded dictionary was accepted"))
            else:
                offered += G.ref_compact(added, 6)
        if not set(avail) <= set(offered):
            bad.append(("invented-address", "available list holds an address that is in no ut_pex payload"))
    elif kind == "UP":
        f = parse_kv(line)
        evs = f.get("ev", "-")
        for e in ([] if evs == "-" else evs.split(";")):
            if e != "drop":
                bad.append(("udp-unresolved-accepts", "a datagram was processed for a UDP tracker connection whose host name is not resolved yet: " + e[:80]))
    elif kind == "H3":
        head, _, st = line.partition(" | ")
        segs = head.split(" / ")
        anns, i = [], 2
        while i + 3 < len(toks) + 0 and toks[i] == "A":
            anns.append((toks[i + 1], [bytes.fromhex(t_) if t_ != "-" else b"" for t_ in toks[i + 2:i + 4] if t_ != "~"]))
            i += 4
        if len(segs) != len(anns):
            return [("http-events", "number of reported announces differs from the number of announces")]
        for (cfg, bodies), seg in zip(anns, segs):
            names = [e.partition(":")[0] for e in ([] if seg == "-" else seg.split(";"))]
            if cfg == "n":
                if names != ["fail"]:
                    bad.append(("http-no-family", "an announce with both address families blocked did not fail: " + seg[:60]))
            elif cfg in "46" and bodies:
                v = http_verdict(bodies[0])
                if v == "fail" and names[:1] != ["fail"]:
                    bad.append(("http-malformed-reported-success", "a malformed / failure reply to a single-family announce was not reported through the failure slot: " + seg[:60]))
                if v == "ok" and names[:1] != ["success"]:
                    bad.append(("http-good-reply-lost", "a good reply to a single-family announce was not reported as success: " + seg[:60]))
            elif cfg == "b" and bodies:
                v = [http_verdict(b) for b in bodies]
                if v[0] == "fail" and names[:1] != ["retry"]:
                    bad.append(("http-retry-skipped", "a failed first-family reply did not lead to the second-family request: " + seg[:60]))
                if len(v) == 2 and None not in v and len(names) == 2 and names[1] != ("success" if "ok" in v else "fail"):
                    bad.append(("http-two-family-verdict", "two replies (%s, %s) ended as %s" % (v[0], v[1], seg[:60])))
    elif kind == "H2":
        head, _, st = line.partition(" | ")
        evs = head.split(";")
        bodies = [bytes.fromhex(t_) if t_ != "-" else b"" for t_ in toks[2:] if t_ != "~"]
        if len(evs) != len(bodies):
            return [("http-events", "number of reported outcomes differs from the number of replies")]

        v = [http_verdict(b) for b in bodies]
        names = [e.partition(":")[0] for e in evs]
        if v and v[0] == "fail" and names[0] != "retry":
            bad.append(("http-retry-skipped", "a failed first-family reply did not lead to the second-family request: " + evs[0][:80]))
        if v and v[0] == "ok" and names[0] != "newpeers":
            bad.append(("http-first-family-lost", "a good first-family reply was not passed on as new peers: " + evs[0][:80]))
        if len(v) == 2 and None not in v:
            want = "success" if "ok" in v else "fail"
            if names[1] != want:
                bad.append(("http-two-family-verdict", "two replies (%s, %s) ended as %s" % (v[0], v[1], evs[1][:60])))
            if v == ["ok", "fail"] and evs[1] != "success:-":
                bad.append(("http-two-family-verdict", "a malformed second reply after a good first one must end the announce as success without further peers"))
    elif kind == "H":
        ev = int(toks[1])
        body = bytes.fromhex(toks[2]) if toks[2] != "-" else b""
        head, _, st = line.partition(" | ")
        name, _, arg = head.partition(":")
        f = parse_kv(st)
        try:
            tree, _n = G7.ref_decode(body, liberal_istream=True)
            tree = G7.normalize(tree)
        except (G7.NoParse, RecursionError):
            tree = None
        initial = "ni=600 mi=300 c=0 i=0 d=0 sc=0 tid=-"
        is_map = isinstance(tree, tuple) and tree[0] == "M"
        if not is_map:
            if name not in ("fail", "scrape-fail"):
                bad.append(("http-malformed-not-failed", "a body that is not a bencoded dictionary did not fail the request: " + head[:80]))
            if st != initial:
                bad.append(("http-malformed-changed-state", "a malformed body changed tracker state: " + st))
        else:
            d = dict(tree[1])
            if name == "success":
                want = []
                p = d.get(b"peers")
                if isinstance(p, bytes):
                    want += G.ref_compact(p, 6)
                elif isinstance(p, list):
                    want += G.ref_normal(p, True)
                if isinstance(d.get(b"peers6"), bytes):
                    want += G.ref_compact(d[b"peers6"], 18)
                if arg != G.show_addrs(want):
                    bad.append(("http-peers-not-exact", "peers reported for an HTTP reply are not exactly the well-formed ones in it"))
                if b"failure reason" in d:
                    bad.append(("http-failure-ignored", "a reply with a failure reason was treated as success"))
                if ev == 4:
                    bad.append(("http-scrape-confused", "announce success reported for a scrape request"))
            if b"failure reason" in d and name not in ("fail", "scrape-fail"):
                bad.append(("http-failure-ignored", "a reply with a failure reason did not fail the request"))
            ni, mi = int(f["ni"]), int(f["mi"])
            if not (600 <= ni <= 28800 and 300 <= mi <= 14400):
                bad.append(("http-interval-range", "announce intervals outside the clamped range: " + st))
        if "data-still-open" in line and name not in ("ERR",):
            bad.append(("http-request-not-closed", "the request was not closed after the reply was processed"))
    return bad


def nontrivial(case, line):
    """a case counts as non-trivial when the implementation extracted at least one peer address,
    accepted at least one UDP reply (connected/success/newpeers/fail) or produced an HTTP verdict
    from a syntactically valid dictionary"""
    k = case.split(" ", 1)[0]
    if k in ("AC", "AC6", "AB", "AN"):
        return line.startswith("OK ") and line != "OK -"
    if k == "PL":
        return "avail=-" not in line
    if k == "U":
        return any(t in line for t in ("connected:", "success:", "newpeers:", "fail:", "reset"))
    if k == "H":
        return not line.startswith("fail") or "ni=600 mi=300 c=0 i=0 d=0 sc=0 tid=-" not in line
    if k in ("H2", "H3"):
        return "newpeers:" in line or "success:" in line
    if k == "UP":
        return "drop" in line
    if k == "DH":
        return "Q" in line or "e " in line
    if k in ("DF", "DS"):
        return "@" in line
    if k == "DV":
        return line.startswith("OK ") and "values=~" not in line
    if k in ("PX", "PI"):
        return "avail=-" not in line
    return False


def run(rep, tier, seed, replay):
    coq = ltv.coq_build("C14")
    rep.cov.update(obligations=coq["obligations"], discharged=coq["discharged"], checker_cmd=coq["checker_cmd"],
                   theorems=coq["theorems"], axioms_per_theorem=coq["axioms"],
                   trusted_base=ltv.std_trusted_base(coq, [
                       "modelled not verified: glibc inet_pton(AF_INET/AF_INET6) as pton4/pton6 (compared with the C library on every AN case); "
                       "std::sort/std::unique as insertion sort + adjacent dedup; std::map as sorted association list; "
                       "the kernel's UDP delivery and 512-byte truncation on loopback; bencode stream decoding is C07's decode_stream",
                       "harness set-up that writes private state: TrackerHttp::m_data + CurlGet::m_was_started/m_stack_thread (emulates a completed GET), "
                       "TrackerUdp other-family transaction id (emulates a pending second family), m_hostname='::1' for the IPv6 router, "
                       "a recording wrapper around UdpRouter connection_info::process; PeerList has no PeerInfo entries "
                       "(the existing-PeerInfo branch is a universally quantified parameter of the theorems, constant false in the runs)",
                       "python reference functions in gen/c14.py (ref_compact, ref_normal via the C library's inet_pton, ref_udp) for the oracle",
                       "'never blocks' is checked at run time only: each case runs under a 20 s alarm() watchdog in the harness (HANG kills the process and is reported as a crash)",
                       "DHT: a real DhtRouter+DhtServer per DH case, datagrams from scripted loopback sockets, event_read()/event_write() called on the harness thread; "
                       "the content of replies to dispatched queries is C15's subject (canonicalised to 'Q'); replies/errors without a matching transaction have no observable effect "
                       "(canonicalised to 'none'); the static-map reader is C07's model sm_read with the real key tables",
                       "DV cases are a unit-level composition written in the harness (static_map_read_bencode(DhtMessage) + AddressList::parse_address_bencode as DhtAnnounce::receive_peers does; "
                       "the compact 'nodes' truncation is recomputed by the harness, the real parse_find_node_reply is not reached)"]))
    model = ltv.build_model("C14")
    impl = ltv.build_harness("c14", ["c14.cc"])
    # constants as compiled vs. as translated into coq/C14/ParamsGen.v
    try:
        import re as _re
        comp = dict(l.split("=") for l in ltv.run_lines(impl, [], args=["--params"])[0] if "=" in l)
        gen_txt = open(ltv.COQ + "/C14/ParamsGen.v").read()
        diff = []
        for k, v in comp.items():
            m = _re.search(r"Definition %s : \w+ := (\d+)" % k, gen_txt)
            if m and m.group(1) != v:
                diff.append("%s: compiled %s, translated %s" % (k, v, m.group(1)))
        rep.cov["params_compiled"] = comp
        if diff:
            rep.violation("constants translated from the sources differ from the compiled code (gen/params_c14.py is stale): " + "; ".join(diff),
                          theorem="params_ok_now", found_input=False)
    except Exception as ex:      # the probe is a cross-check that may be absent
        rep.cov["params_compiled"] = "unavailable: %s" % ex
    if replay:
        cases = [json.load(open(replay))["case"]]
        stats = {"replay": 1}
    else:
        cases, stats = G.gen(seed, tier)
    mo = ltv.run_sharded(model, cases)
    # DH / DV / PI cases need the fully initialised library (DhtRouter + DhtServer, PeerInfo): second binary
    impl_full = ltv.build_harness("c14dht", ["c14_dht.cc"])
    full = ("DH", "DV", "PI", "DF", "DS")
    io = [None] * len(cases)
    for binary, idx in ((impl, [i for i, c in enumerate(cases) if c.split(" ", 1)[0] not in full]),
                        (impl_full, [i for i, c in enumerate(cases) if c.split(" ", 1)[0] in full])):
        res = ltv.run_sharded(binary, [cases[i] for i in idx], timeout=900)
        for j, i in enumerate(idx):
            io[i] = res[j] if j < len(res) else "MISSING"
    nt = set()
    mism = 0
    samples = []
    seen_kinds = set()
    for i, case in enumerate(cases):
        m = mo[i] if i < len(mo) else "MISSING"
        o = io[i] if i < len(io) else "MISSING"
        if nontrivial(case, o):
            nt.add(hashlib.sha1(case.encode()).digest())
        k = case.split(" ", 1)[0]
        if k not in seen_kinds and nontrivial(case, o):
            seen_kinds.add(k)
            samples.append({"case": case[:160], "impl": o[:240]})
        viol = oracle(case, o)
        if m != o:
            mism += 1
            if viol:
                kl, text = viol[0]
                rep.violation("model and implementation differ AND the property fails on the implementation: " + text,
                              case=case, model=m, impl=o, theorem="correspondence C14 (parser outputs / tracker events)", klass=kl)
            else:
                rep.violation("correspondence broken: model and implementation differ on this input (property oracle holds on it)",
                              case=case, model=m, impl=o, theorem="correspondence C14 (parser outputs / tracker events)", found_input=False)
        else:
            for kl, text in viol:
                rep.violation(text, case=case, model=m, impl=o, theorem="property oracle C14", klass=kl)
    if not coq["ok"]:
        rep.violation("C14 proof obligations no longer check (%d/%d): %s %s" % (
            coq["discharged"], coq["obligations"], "; ".join(coq["lint"] + coq["bad_axioms"]), coq["log"][-1500:]),
            theorem="coq/C14/Properties.v", found_input=False)
    rep.cov.update(evaluations=len(cases), distinct_nontrivial=len(nt),
                   rule="cases = corpus + per-length/boundary/special/random compact strings (AC, AC6, AB) + dictionary-form lists incl. an inet_pton stress stream (AN) "
                        "+ PeerList op sequences (PL) + UDP datagram sequences incl. the full grid family x phase x length 0..24 x action x txid class x source (U) "
                        "+ HTTP bodies: hand list, structured random, mutations, every prefix (H); non-trivial = distinct case on which the implementation extracted "
                        "at least one address (AC/AC6/AB/AN/PL), produced at least one tracker-level effect (U), or got past bencode decoding (H)",
                   samples=samples, input_distribution=stats, mismatches=mism,
                   exhaustive="UDP header grid (4176 combinations) exhaustive in both tiers; inet_pton strings of length <= 6 over {1,0,:,.,f} exhaustive in thorough")
    rep.assumptions += ["PeerList without PeerInfo entries in the runs (theorems cover any PeerInfo decision function)",
                        "one tracker connection per UdpRouter; TrackerHttp second-family retry exercised for announce events (H2), not for scrape",
                        "IPv4/IPv6 loopback available to the harness", "classic locale on the stream reader"]
