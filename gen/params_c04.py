"""Constants of the request path (C04) re-extracted from /repo on every run."""
ENTRIES = [
    ("c04_block_size", "src/download/delegator.h", r"static constexpr unsigned int block_size = (1 << \d+);", "N"),
    ("c04_overlapped", "src/download/delegator.cc", r"uint16_t overlapped = (\d+);", "N"),
    ("c04_endgame_slack", "src/download/download_main.cc",
     r"completed_chunks\(\) \+ m_delegator\.transfer_list\(\)->size\(\) \+ (\d+) >= file_list\(\)->size_chunks\(\)", "N"),
    # RequestList::calculate_pipe_size
    ("c04_pipe_norm_thresh", "src/protocol/request_list.cc", r"if \(!m_delegator->get_aggressive\(\)\) \{\s*if \(rate < (\d+)\)", "N"),
    ("c04_pipe_norm_add", "src/protocol/request_list.cc", r"if \(rate < 20\)\s*return rate \+ (\d+);", "N"),
    ("c04_pipe_norm_div", "src/protocol/request_list.cc", r"return rate / (\d+) \+ 18;", "N"),
    ("c04_pipe_norm_base", "src/protocol/request_list.cc", r"return rate / 5 \+ (\d+);\s*\} else", "N"),
    ("c04_pipe_aggr_thresh", "src/protocol/request_list.cc", r"\} else \{\s*if \(rate < (\d+)\)\s*return rate / 5 \+ 1;", "N"),
    ("c04_pipe_aggr_lo_div", "src/protocol/request_list.cc", r"if \(rate < 10\)\s*return rate / (\d+) \+ 1;", "N"),
    ("c04_pipe_aggr_lo_add", "src/protocol/request_list.cc", r"if \(rate < 10\)\s*return rate / 5 \+ (\d+);", "N"),
    ("c04_pipe_aggr_hi_div", "src/protocol/request_list.cc", r"else\s*return rate / (\d+) \+ 2;", "N"),
    ("c04_pipe_aggr_hi_add", "src/protocol/request_list.cc", r"else\s*return rate / 10 \+ (\d+);", "N"),
    ("c04_timeout_remove_choked_s", "src/protocol/request_list.h", r"timeout_remove_choked\{(\d+)s\}", "N"),
    ("c04_timeout_process_unordered_s", "src/protocol/request_list.h", r"timeout_process_unordered\{(\d+)s\}", "N"),
    # RequestList::choked early return: 1 iff it also requires the stalled bucket to be empty (0 in the code as first modelled)
    ("c04_choked_checks_stalled", "src/protocol/request_list.cc",
     r"if \(m_queues\.queue_empty\(bucket_queued\) && m_queues\.queue_empty\(bucket_unordered\)( && m_queues\.queue_empty\(bucket_stalled\))?\)\s*return;",
     "N", lambda m: 1 if m.group(1) else 0),
]
