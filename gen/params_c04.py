"""Constants of the request path (C04) re-extracted from /repo on every run.

The structural "repair present" flags are decided BEHAVIOURALLY (ROBUSTNESS.md rule 3): props/c04.py runs one probe case per
flag on the freshly built harness and writes build/c04_probe_<tree hash>.json before the Coq build; the entries below read that
file and fall back to the source-text regex only when no probe result exists for this tree (e.g. another property's run
regenerating the file)."""
import json
import os
import re

_HASH = {}


def _probe_file(repo):
    import ltv
    if repo not in _HASH:
        _HASH[repo] = ltv.repo_tree_hash()
    return os.path.join(ltv.BUILD, "c04_probe_%s.json" % _HASH[repo])


def _flag(name, rel, rx):
    """conv for an always-matching entry: probe result if there is one for this tree, else the source-text regex"""
    def conv(m):
        try:
            import ltv
            with open(_probe_file(ltv.REPO)) as f:
                d = json.load(f)
            if name in d:
                return 1 if d[name] else 0
        except Exception:
            pass
        try:
            import ltv
            mm = re.search(rx, open(os.path.join(ltv.REPO, rel), errors="replace").read(), flags=re.S)
            return 1 if (mm and mm.group(1)) else 0
        except Exception:
            return 0
    return conv


def _flag_entry(coq_name, probe_name, rel, rx):
    # the entry's own regex always matches (config.h exists in every tree); the decision is made in conv
    return (coq_name, "config.h", r"\A", "N", _flag(probe_name, rel, rx))


ENTRIES = [
    ("c04_block_size", "src/download/delegator.h", r"static constexpr unsigned int block_size = (1 << \d+);", "N"),
    ("c04_overlapped", "src/download/delegator.cc", r"uint16_t overlapped = (\d+);", "N"),
    ("c04_endgame_slack", "src/download/download_main.cc",
     r"completed_chunks\(\) \+ m_delegator\.transfer_list\(\)->size\(\) \+ (\d+) >= file_list\(\)->size_chunks\(\)", "N"),
    # RequestList::calculate_pipe_size is NOT read here: the pipe-size policy is probed from the compiled code (harness `probe-pipe`)
    ("c04_timeout_remove_choked_s", "src/protocol/request_list.h", r"timeout_remove_choked\{(\d+)s\}", "N"),
    ("c04_timeout_process_unordered_s", "src/protocol/request_list.h", r"timeout_process_unordered\{(\d+)s\}", "N"),
    # RequestList::choked early return: 1 iff it also requires the stalled bucket to be empty (0 in the code as first modelled)
    _flag_entry("c04_choked_checks_stalled", "choked_checks_stalled", "src/protocol/request_list.cc",
                r"if \(m_queues\.queue_empty\(bucket_queued\) && m_queues\.queue_empty\(bucket_unordered\)( && m_queues\.queue_empty\(bucket_stalled\))?\)\s*return;"),
    # (A) PeerConnection<>::update_interested queues the connection in the download choke queue when the peer has us unchoked
    _flag_entry("c04_update_interested_queues", "update_interested_queues", "src/protocol/peer_connection_leech.cc",
                r"PeerConnection<type>::update_interested\(\) \{.*?m_down_interested = true;\s*(?://[^\n]*\n\s*)*(if \(m_down_unchoked\)\s*m_download->choke_group\(\)->down_queue\(\)->set_queued\(this, &m_down_choke\);)?\s*(?://[^\n]*\n\s*)*\}"),
    # (C) read_have_chunk (not interested branch) also raises interest for a piece listed in the transfer list
    _flag_entry("c04_have_listed_raises", "have_listed_raises", "src/protocol/peer_connection_leech.cc",
                r"if \(m_download->chunk_selector\(\)->received_have_chunk\(&m_peer_chunks, index\)( \|\|\s*transfers->find\(index\) != transfers->end\(\))?\) \{\s*m_send_interested = !m_down_interested;"),
    # (E) try_request_pieces' loop guard counts only valid queued transfers
    _flag_entry("c04_pipe_counts_valid", "pipe_counts_valid", "src/protocol/peer_connection_base.cc",
                r"while \(request_list\(\)->queued_(valid_)?size\(\) < pipeSize && m_up->can_write_request\(\)\)"),
    # try_request_pieces: 'Don't start requesting if we can't do it in large enough chunks': pipe_size() >= (pipeSize + A) / B
    ("c04_pipe_gate_add", "src/protocol/peer_connection_base.cc", r"if \(request_list\(\)->pipe_size\(\) >= \(pipeSize \+ (\d+)\) / \d+\)", "N"),
    ("c04_pipe_gate_div", "src/protocol/peer_connection_base.cc", r"if \(request_list\(\)->pipe_size\(\) >= \(pipeSize \+ \d+\) / (\d+)\)", "N"),
    # CHOKE handler restores the interest of a connection that our own choke queue had choked (proposed repair; 0 = absent)
    _flag_entry("c04_choke_restores_interest", "choke_restores_interest", "src/protocol/peer_connection_leech.cc",
                r"(if \(!m_down_interested && m_down_choke\.queued\(\)\) \{\s*m_send_interested = true;\s*m_down_interested = true;\s*\})?\s*request_list\(\)->choked\(\);"),
]
