"""Constants of the request path (C04) re-extracted from /repo on every run."""
ENTRIES = [
    ("c04_block_size", "src/download/delegator.h", r"static constexpr unsigned int block_size = (1 << \d+);", "N"),
    ("c04_overlapped", "src/download/delegator.cc", r"uint16_t overlapped = (\d+);", "N"),
    ("c04_endgame_slack", "src/download/download_main.cc",
     r"completed_chunks\(\) \+ m_delegator\.transfer_list\(\)->size\(\) \+ (\d+) >= file_list\(\)->size_chunks\(\)", "N"),
    # RequestList::calculate_pipe_size is NOT read here: the pipe-size policy is probed from the compiled code (harness `probe-pipe`)
    ("c04_timeout_remove_choked_s", "src/protocol/request_list.h", r"timeout_remove_choked\{(\d+)s\}", "N"),
    ("c04_timeout_process_unordered_s", "src/protocol/request_list.h", r"timeout_process_unordered\{(\d+)s\}", "N"),
    # RequestList::choked early return: 1 iff it also requires the stalled bucket to be empty (0 in the code as first modelled)
    ("c04_choked_checks_stalled", "src/protocol/request_list.cc",
     r"if \(m_queues\.queue_empty\(bucket_queued\) && m_queues\.queue_empty\(bucket_unordered\)( && m_queues\.queue_empty\(bucket_stalled\))?\)\s*return;",
     "N", lambda m: 1 if m.group(1) else 0),
    # (A) PeerConnection<>::update_interested queues the connection in the download choke queue when the peer has us unchoked
    ("c04_update_interested_queues", "src/protocol/peer_connection_leech.cc",
     r"PeerConnection<type>::update_interested\(\) \{.*?m_down_interested = true;\s*(?://[^\n]*\n\s*)*(if \(m_down_unchoked\)\s*m_download->choke_group\(\)->down_queue\(\)->set_queued\(this, &m_down_choke\);)?\s*(?://[^\n]*\n\s*)*\}",
     "N", lambda m: 1 if m.group(1) else 0),
    # (C) read_have_chunk (not interested branch) also raises interest for a piece listed in the transfer list
    ("c04_have_listed_raises", "src/protocol/peer_connection_leech.cc",
     r"if \(m_download->chunk_selector\(\)->received_have_chunk\(&m_peer_chunks, index\)( \|\|\s*transfers->find\(index\) != transfers->end\(\))?\) \{\s*m_send_interested = !m_down_interested;",
     "N", lambda m: 1 if m.group(1) else 0),
    # (E) try_request_pieces' loop guard counts only valid queued transfers
    ("c04_pipe_counts_valid", "src/protocol/peer_connection_base.cc",
     r"while \(request_list\(\)->queued_(valid_)?size\(\) < pipeSize && m_up->can_write_request\(\)\)",
     "N", lambda m: 1 if m.group(1) else 0),
    # try_request_pieces: 'Don't start requesting if we can't do it in large enough chunks': pipe_size() >= (pipeSize + A) / B
    ("c04_pipe_gate_add", "src/protocol/peer_connection_base.cc", r"if \(request_list\(\)->pipe_size\(\) >= \(pipeSize \+ (\d+)\) / \d+\)", "N"),
    ("c04_pipe_gate_div", "src/protocol/peer_connection_base.cc", r"if \(request_list\(\)->pipe_size\(\) >= \(pipeSize \+ \d+\) / (\d+)\)", "N"),
    # CHOKE handler restores the interest of a connection that our own choke queue had choked (proposed repair; 0 = absent)
    ("c04_choke_restores_interest", "src/protocol/peer_connection_leech.cc",
     r"(if \(!m_down_interested && m_down_choke\.queued\(\)\) \{\s*m_send_interested = true;\s*m_down_interested = true;\s*\})?\s*request_list\(\)->choked\(\);",
     "N", lambda m: 1 if m.group(1) else 0),
]
