"""C09 — case generator and property oracle for the initial hash check.

Case line:  <piece_len> <seed> <len>:<f|p> ... | <perturbations> | <ops>     (see ocaml/c09_driver.ml)
"""
import glob
import itertools
import os
import random

PLS = [1025, 1100, 2048, 3000]


def layout(r, max_pieces=10):
    pl = r.choice(PLS)
    nf = r.choice([1, 1, 2, 2, 3, 3, 4, 5])
    files = []
    total = 0
    for k in range(nf):
        c = r.random()
        if c < 0.08:
            ln = 0
        elif c < 0.25:
            ln = r.randint(1, pl - 1)                      # shorter than a piece: several files per piece
        elif c < 0.45:
            ln = pl * r.randint(1, 3)                      # piece aligned
        elif c < 0.60:
            ln = max(1, pl * r.randint(1, 2) + r.choice([-1, 1]))
        elif c < 0.70 and total % pl != 0:
            ln = pl - total % pl                           # ends exactly at a piece boundary
        else:
            ln = r.randint(1, 3 * pl)
        if total + ln > max_pieces * pl:
            ln = max(0, max_pieces * pl - total)
        pad = (ln > 0 and k > 0 and r.random() < 0.12)
        files.append((ln, pad))
        total += ln
    if total < 2:
        files.append((pl + 7, False))
        total += pl + 7
    if all(p or l == 0 for l, p in files):
        files.append((r.randint(1, 2 * pl), False))
        total += files[-1][0]
    return pl, files, total


def perturb(r, pl, files, total, stats, calm=False):
    toks = []
    off = 0
    for k, (ln, pad) in enumerate(files):
        if pad:
            off += ln
            continue
        c = r.random()
        if calm:
            c = c * 0.5 + 0.5 if r.random() < 0.7 else c
        if c < 0.10:
            toks.append("M%d" % k); stats["file_missing"] += 1
        elif c < 0.15:
            toks.append("N%d" % k); stats["file_nodir"] += 1
        elif c < 0.30 and ln > 0:
            # truncation boundary classes: empty, one byte short, at / next to a piece boundary inside the file, anywhere
            cands = [0, ln - 1, r.randint(0, ln - 1)]
            b = (off // pl + 1) * pl - off
            while b < ln:
                cands += [b - 1, b, b + 1]
                b += pl
            n = r.choice([x for x in cands if 0 <= x < ln])
            toks.append("T%d:%d" % (k, n)); stats["file_truncated"] += 1
        elif c < 0.38:
            toks.append("E%d:%d" % (k, r.choice([1, pl, r.randint(1, 2 * pl)]))); stats["file_extended"] += 1
        elif c < 0.43:
            toks.append("U%d:%s" % (k, r.choice("ldn"))); stats["file_unreadable"] += 1
        else:
            stats["file_intact"] += 1
        off += ln
    np_ = (total + pl - 1) // pl
    for _ in range(r.choice([0, 0, 1, 1, 2, 3])):
        i = r.randrange(np_)
        lo, hi = i * pl, min((i + 1) * pl, total)
        g = r.choice([lo, hi - 1, r.randint(lo, hi - 1)])
        toks.append("F%d" % g); stats["byte_flips"] += 1
    if r.random() < 0.12:
        toks.append("B%d:%d" % (r.randrange(np_), r.choice([0, 7, 19, 19]))); stats["bad_expected"] += 1
    return toks


def ops_pattern(r, np_, stats):
    c = r.random()
    order = list(range(np_))
    r.shuffle(order)
    k = r.randint(0, np_)
    ds = ["D%d" % i for i in order[:k]]
    if c < 0.18:
        stats["pat_full"] += 1
        return ["O", "C", "W"]
    if c < 0.28:
        stats["pat_full_free"] += 1
        return ["O", "C", "w"]
    if c < 0.50:
        stats["pat_stop_after_k"] += 1
        return ["O", "C"] + ds + [r.choice("Ss"), "C", r.choice("Ww")]
    if c < 0.66:
        stats["pat_close_after_k"] += 1
        return ["O", "C"] + ds + [r.choice("Xx"), "O", "C", r.choice("Ww")]
    if c < 0.74:
        stats["pat_quick"] += 1
        return ["O", "Q", "K", "S", "C"] + ds + ["W"]
    if c < 0.80:
        stats["pat_stop_twice"] += 1
        k2 = r.randint(0, np_)
        return ["O", "C"] + ds + ["S", "C"] + ["D%d" % i for i in order[:k2]] + ["S", "C", "W"]
    stats["pat_random"] += 1
    out = ["O"]
    for _ in range(r.randint(2, 14)):
        x = r.random()
        if x < 0.35:
            out.append("D%d" % r.randrange(np_ + 1))
        elif x < 0.55:
            out.append("C")
        elif x < 0.60:
            out.append("Q")
        elif x < 0.70:
            out.append(r.choice("Ss"))
        elif x < 0.78:
            out.append(r.choice("Xx"))
        elif x < 0.86:
            out.append("O")
        elif x < 0.93:
            out.append("K")
        else:
            out.append(r.choice("Ww"))
    if r.random() < 0.7:
        out += ["C", "W"]
    return out


def fmt(pl, seed, files, pert, ops):
    return "%d %d %s | %s | %s" % (pl, seed, " ".join("%d:%s" % (l, "p" if p else "f") for l, p in files),
                                   " ".join(pert), " ".join(ops))


HAND = [
    "1100 1 3000:f 500:f 2000:f |  | O C W",
    "1100 1 3000:f 500:f 2000:f | M1 F10 | O C D0 D2 S C W X",
    "1100 1 3000:f 500:f 2000:f | U2:l | O C W",
    "1100 1 3000:f 500:f 2000:f | U0:d | O C W",
    "1100 1 3000:f 500:f 2000:f | U1:n | O C D0 W",
    "1100 1 3000:f 500:p 2000:f | T0:2999 E2:5 | O Q S C K W",
    "1025 2 1025:f 1025:f 1025:f | M0 M1 M2 | O Q K",
    "1025 2 1025:f 1025:f 1025:f | N0 N1 N2 | O C K X O C K",
    "1025 2 1025:f 1025:f 1025:f | M1 | O C X O C W",
    "1025 3 0:f 2050:f 0:f | M0 M2 | O C W X O C W",
    "2048 4 4096:f | T0:4095 | O C W",
    "2048 4 4096:f | T0:2048 | O C W",
    "2048 4 4096:f | T0:2047 | O C W",
    "2048 4 4097:f | T0:4096 | O C W",
    "2048 4 4097:f | E0:1 F4096 | O C W",
    "2048 4 4096:f | B1 | O C w",
    "2048 3 40000:f 500:f | Z0:1000 T0:39000 | O C W",
    "2048 3 40000:f 500:f | Z0:1000 | O C W",
    "2048 4 4096:f | B0:19 | O C W",
    "2048 4 4096:f | B1:0 | O C W",
    "1100 5 1000:f 100:f 1100:f 50:f | M3 | O C D2 D0 S C D1 X O C W",
    "1100 5 1000:f 100:f 1100:f 50:f | U3:l | O C D0 D1 K W",
    "1100 5 1000:f 100:f 1100:f 50:f | U0:l | O C K",
    "1100 5 2200:f | | O C s C s C x O C w",
    # ENOMEM with nothing outstanding: retry timer pending at stop / close, then the clock passes it
    "1100 5 2200:f | | O L0 C S A L- C W",
    "1100 5 2200:f | | O L0 C X A L- O C W",
    "1100 5 3300:f | | O L1 C A D0 A D1 A L- A W",
    "1100 5 3300:f | | O L0 C A A L- A W",
    # an empty file strictly inside a piece (neither neighbour ends on a piece boundary)
    "2048 2 3000:f 0:f 3000:f | | O C W",
    "2048 2 100:f 0:f 0:f 5000:f | M3 | O C W",
    "1100 6 1500:f 0:f 700:f 0:f 2500:f | T4:2499 | O C w",
    # unreadable (EISDIR / ELOOP / ENOTDIR) non-first file while earlier pieces are still outstanding, results arriving late
    "1100 5 3300:f 1100:f 1100:f | U1:d | O C K D2 D0 D1 K",
    "1100 5 3300:f 1100:f 1100:f | U1:l | O C w",
    "1100 5 3300:f 1100:f 1100:f | U2:n | O C D0 K D1 D2 D3",
    # a timer left over from a failed check must not confirm a later quick check
    "1100 1 1100:f 1100:f | M0 U1:l | O C Q K C",
    "1100 1 1100:f 1100:f | M0 U1:l | O C Q K S C W",
    "1100 1 1100:f 1100:f 1100:f | M0 U1:d | O C Q K C K",
]


def exhaustive_small(out, stats):
    """every stop/close point and every delivery order for a 3-piece torrent over a few disk states"""
    lay = "1100 7 1500:f 1800:f"
    perts = ["", "M0", "M1", "T1:1799", "F0", "F3299", "T0:1100", "E1:1", "U1:l", "N1 F5"]
    for p in perts:
        for k in range(0, 4):
            for order in itertools.permutations(range(3), k):
                ds = " ".join("D%d" % i for i in order)
                for end in ("S C W", "X O C W", "W"):
                    out.append("%s | %s | O C %s %s" % (lay, p, ds, end))
                    stats["exhaustive_small"] += 1


def race_cases(r, stats, n):
    """stop / close / close+remove issued with NO waiting for the disk thread (ops s x z) after k controlled
    deliveries or straight after hash_check, on torrents with more pieces (the hashing thread is busy), then re-check"""
    out = []
    for _ in range(n):
        pl, files, total = layout(r, max_pieces=r.choice([6, 12, 24]))
        np_ = (total + pl - 1) // pl
        pert = perturb(r, pl, files, total, stats, calm=True)
        order = list(range(np_))
        r.shuffle(order)
        ds = ["D%d" % i for i in order[:r.choice([0, 0, 1, 2, np_ // 2])]]
        c = r.random()
        if c < 0.3:
            ops = ["O", "C"] + ds + ["s", "C", r.choice("wW")]
        elif c < 0.55:
            ops = ["O", "C"] + ds + ["x", "O", "C", "w"]
        elif c < 0.8:
            ops = ["O", "C"] + ds + ["z"]
        elif c < 0.9:
            ops = ["O", "C", "s", "C", "s", "C", "x", "O", "C", "z"]
        else:
            ops = ["O", "C", "w", "x", "O", "C", "s", "x"]
        out.append(fmt(pl, r.randint(1, 9), files, pert, ops))
        stats["race_stop_close_remove"] += 1
    return out


def pressure_cases(r, stats, n):
    """memory pressure: the memory manager grants only k blocks (L<k>; L- lifts it).  A check that gets ENOMEM with nothing
    outstanding waits on a 100 ms retry timer; stop / close inside that window, then the clock passes it (A)"""
    out = []
    for _ in range(n):
        pl, files, total = layout(r, max_pieces=r.choice([4, 8, 12]))
        np_ = (total + pl - 1) // pl
        pert = perturb(r, pl, files, total, stats, calm=True)
        k = r.choice([0, 0, 0, 1, 2, max(1, np_ // 2)])
        order = list(range(np_))
        r.shuffle(order)
        ds = ["D%d" % i for i in order[:r.randint(0, min(np_, 3))]]
        c = r.random()
        if c < 0.30:
            ops = ["O", "L%d" % k, "C"] + ds + [r.choice("SsXx"), "A"] + (["O"] if r.random() < 0.5 else []) + ["L-", "O", "C", "W"]
        elif c < 0.50:
            ops = ["O", "L%d" % k, "C", "A", "A"] + ds + ["L-", "A", "W"]
        elif c < 0.65:
            ops = ["O", "L%d" % k, "C"] + ds + ["z"]
        elif c < 0.80:
            ops = ["O", "C"] + ds + ["L0", "S", "C", r.choice("SX"), "A", "L-", "O", "C", "w"]
        else:
            ops = ["O", "L%d" % k, r.choice("CQ"), "K", "A", r.choice("Ss"), "A", "L-", "C", "W", "A"]
        out.append(fmt(pl, r.randint(1, 9), files, pert, ops))
        stats["memory_pressure"] += 1
    return out


def zero_tail_cases(r, stats, n):
    """files whose described content ends in zeros, truncated inside their last 4 KiB page (and just outside it):
    a mapping that reaches past EOF into the zero-filled rest of the page must not count as data on disk"""
    out = []
    for _ in range(n):
        pl = r.choice([2048, 3000, 4096])
        pre = r.choice([0, r.randint(1, 3000)])
        ln = r.randint(4200, 12000)
        nz = r.randint(1, min(3000, ln - 1))
        lastpage = (ln - 1) // 4096 * 4096
        lo = max(ln - nz, lastpage + 1, 1)
        if lo > ln - 1:
            nz = ln - lastpage - 1
            lo = max(ln - nz, lastpage + 1, 1)
        cut = r.randint(lo, ln - 1) if lo <= ln - 1 else ln - 1
        files = ([(pre, False)] if pre else []) + [(ln, False), (r.randint(1, 2000), False)]
        k = 1 if pre else 0
        pert = ["Z%d:%d" % (k, nz), "T%d:%d" % (k, cut)]
        if r.random() < 0.3:
            pert[1] = "T%d:%d" % (k, max(0, lastpage - r.randint(0, 50)))      # cut before the last page: never mappable
        out.append(fmt(pl, r.randint(1, 9), files, pert, r.choice([["O", "C", "W"], ["O", "C", "w"]])))
        stats["zero_tail_truncation"] += 1
    return out


def gen(seed, tier):
    r = random.Random(seed * 7919 + 9)
    stats = {k: 0 for k in ["file_missing", "file_nodir", "file_truncated", "file_extended", "file_unreadable",
                            "file_intact", "byte_flips", "bad_expected", "pat_full", "pat_full_free",
                            "pat_stop_after_k", "pat_close_after_k", "pat_quick", "pat_stop_twice", "pat_random",
                            "exhaustive_small", "corpus", "hand", "stop_every_k", "zero_tail_truncation", "race_stop_close_remove", "giant_beyond_4GiB", "memory_pressure"]}
    cases = []
    cdir = os.path.join(os.path.dirname(os.path.dirname(os.path.abspath(__file__))), "corpus", "C09")
    for f in sorted(glob.glob(os.path.join(cdir, "*.case"))):
        for l in open(f):
            l = l.strip()
            if l and not l.startswith("#"):
                cases.append(l); stats["corpus"] += 1
    for h in HAND:
        cases.append(h); stats["hand"] += 1
    n = 3000 if tier == "quick" else 30000
    for _ in range(n):
        pl, files, total = layout(r)
        np_ = (total + pl - 1) // pl
        pert = perturb(r, pl, files, total, stats, calm=r.random() < 0.5)
        cases.append(fmt(pl, r.randint(1, 9), files, pert, ops_pattern(r, np_, stats)))
    # stop/close after k pieces for EVERY k of a generated torrent (deliveries in a shuffled order)
    for _ in range(100 if tier == "quick" else 600):
        pl, files, total = layout(r, max_pieces=7)
        np_ = (total + pl - 1) // pl
        pert = perturb(r, pl, files, total, stats, calm=True)
        order = list(range(np_))
        r.shuffle(order)
        sd = r.randint(1, 9)
        for k in range(np_ + 1):
            ds = ["D%d" % i for i in order[:k]]
            end = r.choice([["S", "C", "W"], ["X", "O", "C", "W"], ["s", "C", "w"], ["x"]])
            cases.append(fmt(pl, sd, files, pert, ["O", "C"] + ds + end)); stats["stop_every_k"] += 1
    # torrents larger than 4 GiB (sparse: ~6 MiB on disk), oracle only
    for v in (1, 2):
        for sd in ((3,) if tier == "quick" else (3, 4, 5)):
            cases.append("G %d %d" % (sd, v)); stats["giant_beyond_4GiB"] += 1
    cases += zero_tail_cases(r, stats, 60 if tier == "quick" else 600)
    cases += race_cases(r, stats, 400 if tier == "quick" else 4000)
    cases += pressure_cases(r, stats, 300 if tier == "quick" else 3000)
    if tier != "quick":
        exhaustive_small(cases, stats)
    return cases, stats


# ------------------------------------------------------------------------------------------ oracle

def parse_snap(s):
    d = {}
    for t in s.split():
        for key in ("rf", "bl", "mp", "hq", "fo", "mb", "mu"):
            if t.startswith(key):
                d[key] = t[len(key):]
                break
        else:
            d[t[0]] = t[1:]
    return d


def oracle(case, full):
    """Property C09 evaluated on ONE implementation output line -> list of (class, text)."""
    if full.startswith("ERR:internal") and "HashTorrent::start() call failed" in full:
        return [("recheck-stale-delay-timer", "internal_error from hash_check: a completion/error timer left over from an earlier check fired during a later one: " + full[:200])]
    if full.startswith("HANG"):
        return [("hang", "the check did not terminate: no answer within the per-case watchdog (main thread spinning or blocked): " + full[:120])]
    if full.startswith("ERR:internal"):
        return [("internal-error", "the library threw internal_error on a legal call sequence: " + full[:200])]
    if full.startswith("CRASH") or full.startswith("ERR:") or full.startswith("MISSING"):
        return [("crash", "the library crashed: " + full[:200])]
    if full.startswith("REJECT") or full.startswith("BADCASE"):
        return []
    if case.startswith("G "):
        f = dict(x.split("=", 1) for x in full.replace(" || ", " ").split() if "=" in x)
        got = set() if f.get("set", "-") == "-" else set(f["set"].split(","))
        exp = set(f.get("expect", "").split(",")) - {""}
        bad = []
        if got - exp:
            bad.append(("wrong-present", "torrent beyond 4 GiB: pieces %s reported present but their bytes are not on disk (only %s are valid)" % (
                ",".join(sorted(got - exp, key=int)[:6]), ",".join(sorted(exp, key=int)))))
        elif exp - got:
            bad.append(("not-exact", "torrent beyond 4 GiB: valid pieces %s reported absent" % ",".join(sorted(exp - got, key=int)[:6])))
        if f.get("a_size") != "4194304":
            bad.append(("file-altered", "a was 4194304 bytes before the check and is %s after" % f.get("a_size")))
        if f.get("mb") != "0" or f.get("mu") != "0":
            bad.append(("leak-after-close", "after close: %s blocks / %s bytes still accounted" % (f.get("mb"), f.get("mu"))))
        return bad
    parts = full.split(" || ")
    ex = {}
    for p in parts[1:]:
        k, _, v = p.partition("=")
        ex[k] = v
    main, _, tail = parts[0].partition(" # ")
    snaps = [parse_snap(s) for s in main.split(";")]
    ops = case.split("|")[2].split()
    ssl = ex.get("ssl", "")
    bad = []
    last_check = None
    prev = None
    limited = False
    for o, sn in zip(ops, snaps):
        b = sn.get("b", "-")
        if b != "-":
            for i, ch in enumerate(b):
                if ch == "1" and (i >= len(ssl) or ssl[i] != "1"):
                    bad.append(("wrong-present", "piece %d reported present after op %s but its bytes on disk do not hash to the torrent's value" % (i, o)))
                    break
            if sn.get("c") == "1" and b != ssl:
                bad.append(("not-exact", "completed check reports %s, the valid pieces on disk are %s" % (b, ssl)))
        if o[0] in "CQ" and prev is not None and prev.get("k") == "0" and prev.get("c") == "0" and prev.get("o") == "1":
            last_check = o[0]
        if sn.get("k") == "0" and any(sn.get(k) != "0" for k in ("rf", "bl", "mp", "hq", "mb", "mu")):
            bad.append(("leak-after-stop", "after %s (not checking): references/blocking/mapped/queued/accounted blocks/bytes = %s/%s/%s/%s/%s/%s" % (
                o, sn.get("rf"), sn.get("bl"), sn.get("mp"), sn.get("hq"), sn.get("mb"), sn.get("mu"))))
        if sn.get("mb") != sn.get("mp"):
            bad.append(("memory-accounting", "after %s: %s nodes mapped but %s blocks (%s bytes) accounted by the memory manager" % (
                o, sn.get("mp"), sn.get("mb"), sn.get("mu"))))
        if o[0] in "SsXx":
            was_checking = prev is not None and prev.get("k") == "1"
            if sn.get("k") != "0" or (sn.get("d") != "0" and (was_checking or o[0] in "Xx")):
                bad.append(("leak-after-stop", "after %s: checking=%s, completion timer pending=%s" % (o, sn.get("k"), sn.get("d"))))
        if o[0] == "L":
            limited = o[1:] != "-"
        if o[0] in "Ww" and last_check == "C" and not limited and sn.get("t") != "1" and (sn.get("k") != "0" or sn.get("hq") != "0"):
            bad.append(("no-termination", "check still running after every queued piece was answered"))
        if o[0] in "SsXx":
            last_check = None
        prev = sn
    ac = parse_snap(ex.get("atclose", ""))
    if any(ac.get(k) != "0" for k in ("rf", "bl", "mp", "hq", "fo", "mb", "mu")):
        bad.append(("leak-after-close", "after close: " + ex.get("atclose", "")))
    pre, post = ex.get("pre", "").split(), ex.get("post", "").split()
    created = 0
    if len(pre) != len(post):
        bad.append(("file-altered", "file list changed"))
    for k, (a, b) in enumerate(zip(pre, post)):
        if a == b:
            continue
        if a == "A" and b.startswith("B0:"):
            created += 1
            continue
        bad.append(("file-altered", "file %d was %s before and is %s after the check" % (k, a, b)))
    e0, _, e1 = ex.get("entries", "0:0").partition(":")
    if int(e1) != int(e0) + created:
        bad.append(("stray-file", "directory tree had %s entries before and %s after (%d described files created empty)" % (e0, e1, created)))
    return bad
