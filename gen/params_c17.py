"""C17 constants: bit layout of the callback id word (src/torrent/system/thread.cc, common.h)."""
ENTRIES = [
    ("c17_cancel_increment", "src/torrent/system/thread.cc", r"Thread::cancel_callback\(system::callback_id& id\) \{.*?id->fetch_add\((0x[0-9a-f]+),", "N"),
    ("c17_cw_increment", "src/torrent/system/thread.cc", r"compare_exchange_weak\(current_id, current_id \+ (0x[0-9a-f]+),", "N"),
    ("c17_count_mask", "src/torrent/system/thread.cc", r"auto counter\s*=\s*\(current_id & (0x[0-9a-f]+)\);", "N"),
    ("c17_expected_mask_inv", "src/torrent/system/thread.cc", r"\(previous_id & ~(0x[0-9a-f]+)\) != callback.expected_id", "N"),
    ("c17_deadlock_flag", "src/torrent/system/thread.cc", r"pre_deadlock_id \| (0x[0-9a-f]+),", "N"),
    ("c17_id_word_bits", "src/torrent/system/common.h", r"using callback_id\s*=\s*std::shared_ptr<std::atomic<uint(\d+)_t>>;", "N"),
]
