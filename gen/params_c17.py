"""C17 constants (bit layout of the callback id word) are read from the COMPILED code by behavioural probes
(harness/c17.cc --params -> coq/C17/ParamsProbe.v, written by props/c17.py), so that a refactor of the source
text (named constants, merged branches) cannot break the obligation. ENTRIES (regex on the source) is empty."""
ENTRIES = []
