"""C10 — case generator and property oracle for resume data.
L cases: one generated resume object loaded over generated files (model + implementation compared);
T cases: two real lifetimes (oracle only).  Formats: harness/c10.cc."""
import glob
import os
import random

M0, M1, M2, M3 = -1, -2, -3, -4


def parse(case):
    sec = case.split("|")
    head = sec[0].split()
    pl, ld = int(head[1]), int(head[2])      # head[0] is L or Lq
    files = [tuple(int(x) for x in t.split(",")[:3]) + (t.endswith(",p"),) for t in sec[1].split()]
    rs = dict(t.split("=", 1) for t in sec[2].split())
    bad = [int(t) for t in sec[3].split() if t != "-"]
    return pl, ld, files, rs, bad


def file_ranges(pl, files):
    out, off = [], 0
    for fl_ in files:
        l = fl_[0]
        first = off // pl
        last = first if l == 0 else (off + l + pl - 1) // pl
        out.append((first, last))
        off += l
    return out


def genuine(case):
    """the resume object is well formed and honest: every bad piece is covered by a file the loader must distrust
    (missing / size or mtime differs / saved ~0 ~1 ~2 / no mtime) or is listed as uncertain with an older timestamp"""
    pl, ld, files, rs, bad = parse(case)
    if rs.get("top") != "m" or rs.get("files") in (None, "none", "notlist", "str", "map", "empty"):
        return False
    es = rs["files"].split(",")
    if len(es) != len(files) or any(e in ("x", "xi", "xl") for e in es):
        return False
    total = sum(f[0] for f in files)
    np_ = (total + pl - 1) // pl
    files = [f for f in files]
    unc = []
    if rs.get("unc", "none") not in ("none", "V", "L") and rs.get("ts", "none") not in ("none", "str", "L") and int(rs["ts"]) < ld:
        h = rs["unc"]
        if h == "-" or len(h) % 8 != 0:
            return False
        unc = [int(h[i:i + 8], 16) for i in range(0, len(h), 8)]
        if any(u >= np_ for u in unc):
            return False
    rng = file_ranges(pl, files)
    for b in bad:
        if b in unc:
            continue
        ok = False
        for (l, sz, mt, pad), e, (a, z) in zip(files, es, rng):
            if pad or not (a <= b < z):
                continue
            if e in ("n", "s", "l", "m"):
                ok = True
            else:
                m = int(e)
                if m in (M0, M1, M2) or sz != l or (m != M3 and m != mt):
                    ok = True
        if not ok:
            return False
    return True


def model_branches(case, full):
    """which branches of the model's load / load_file / load_bitfield / load_unc a case takes (derived from the case
    and the implementation's outcome, which equals the model's when the correspondence holds)"""
    out = set()
    if not (case.startswith("L ") or case.startswith("Lq ")):
        return out
    pl, ld, files, rs, bad = parse(case)
    f = dict(t.split("=", 1) for t in full.replace(" || ", " ").split() if "=" in t)
    out.add("load:" + f.get("out", "?"))
    if rs.get("top") != "m":
        out.add("load:top-not-map"); return out
    fv = rs.get("files")
    if fv in (None, "none", "notlist", "str", "map"):
        out.add("load:no-files-list"); return out
    es = [] if fv == "empty" else fv.split(",")
    if len(es) != len(files):
        out.add("load:files-length"); return out
    if any(e in ("x", "xi", "xl") for e in es):
        out.add("load:entry-not-map"); return out
    bf = rs.get("bf", "none")
    np_ = (sum(x[0] for x in files) + pl - 1) // pl
    if bf in ("none", "L", "M"):
        out.add("bitfield:missing-or-wrong-type"); return out
    if bf[0] == "V":
        v = int(bf[1:])
        out.add("bitfield:value-all" if v == np_ else "bitfield:value-zero" if v == 0 else "bitfield:value-other")
        if v not in (np_, 0):
            return out
    else:
        ok = (len(bf) - 1) // 2 == (np_ + 7) // 8
        out.add("bitfield:string-ok" if ok else "bitfield:string-wrong-length")
        if not ok:
            return out
    for (l, sz, mt, pad), e in zip(files, es):
        if pad:
            out.add("file:padding")
        elif e in ("n", "s", "l", "m"):
            out.add("file:no-mtime")
        else:
            m = int(e)
            if m in (M0, M1):
                out.add("file:~%d-%s" % (-m - 1, "exists" if sz >= 0 else "missing"))
            elif sz < 0:
                out.add("file:missing")
            elif sz != l:
                out.add("file:size-differs")
            elif m == M3:
                out.add("file:~3-kept")
            elif m == M2:
                out.add("file:~2")
            elif m != mt:
                out.add("file:mtime-differs")
            else:
                out.add("file:kept")
    u, ts = rs.get("unc", "none"), rs.get("ts", "none")
    if u in ("none", "V", "L"):
        out.add("unc:none-or-wrong-type")
    elif ts in ("none", "str", "L"):
        out.add("unc:no-timestamp")
    elif int(ts) >= ld:
        out.add("unc:timestamp-not-older")
    else:
        h = "" if u == "-" else u
        if len(h) % 8:
            out.add("unc:trailing-bytes")
        idx = [int(h[i:i + 8], 16) for i in range(0, len(h) - len(h) % 8, 8)]
        out.add("unc:applied" if idx else "unc:empty")
        if any(i >= np_ for i in idx):
            out.add("unc:index-out-of-range")
    return out


def gen_l(r, stats, malformed):
    pl = r.choice([1025, 2048])
    nf = r.randint(1, 4)
    lens = [r.choice([0, r.randint(1, pl - 1), pl, 2 * pl, r.randint(1, 3 * pl), pl * 2 + 1]) for _ in range(nf)]
    if sum(lens) < 2:
        lens[0] = pl + 5
    total = sum(lens)
    np_ = (total + pl - 1) // pl
    ld = 1000
    files, es = [], []
    rng = file_ranges(pl, [(l, 0, 0, False) for l in lens])
    distrust = []
    for k, l in enumerate(lens):
        mt = r.choice([500, 501, 700])
        c = r.random()
        if c < 0.55:
            sz, saved = l, r.choice([mt, mt, mt, M3, M3, M2, mt + 1, "n"])
        elif c < 0.70:
            sz, saved = -1, r.choice([mt, M0, M1, M3, M2, "n"])
        elif c < 0.82:
            sz, saved = (r.randint(0, l - 1) if l > 0 else 1), r.choice([mt, M3, M0])
        elif c < 0.90:
            sz, saved = l + r.randint(1, 10), r.choice([mt, M3])
        else:
            sz, saved = l, r.choice([M0, M1, "s"])
        pad = (l > 0 and k > 0 and r.random() < 0.08)
        files.append((l, sz, mt, pad))
        es.append(str(saved))
        stats["file_" + ("missing" if sz < 0 else "intact" if sz == l else "resized")] += 1
        m = saved
        d = (not pad) and ((m in ("n", "s")) or (m in (M0, M1, M2)) or sz != l or (m != M3 and m != mt))
        distrust.append(d)
        if pad:
            stats["file_padding"] += 1
    # bad pieces: in the honest stream only where the loader must distrust, or listed as uncertain
    bad, unc = [], []
    for i in range(np_):
        cover = [k for k, (a, z) in enumerate(rng) if a <= i < z and not files[k][3]]
        if not cover:
            continue
        if r.random() < 0.2:
            if any(distrust[k] for k in cover):
                bad.append(i)
            elif r.random() < 0.7:
                bad.append(i); unc.append(i)
            elif malformed:
                bad.append(i)
    if r.random() < 0.3:
        unc += [r.randrange(np_) for _ in range(r.randint(0, 2))]
    unc = sorted(set(unc))
    bfc = r.random()
    if bfc < 0.4:
        bf = "V%d" % np_
    elif bfc < 0.5:
        bf = "V0"
    else:
        nb = (np_ + 7) // 8
        bf = "S" + bytes(r.randrange(256) for _ in range(nb)).hex()
    rs = {"top": "m", "files": ",".join(es), "bf": bf,
          "unc": ("".join("%08x" % u for u in unc) if unc else "none"),
          "ts": str(r.choice([ld - 1, ld - 100, 0])) if unc else r.choice(["none", "5"])}
    if malformed:
        c = r.random()
        stats["malformed"] += 1
        nb = (np_ + 7) // 8
        if c < 0.06:
            rs["top"] = "x"
        elif c < 0.14:
            rs["files"] = r.choice(["none", "notlist", "str", "map", "empty"])
        elif c < 0.22:
            rs["files"] = ",".join(es + ["500"]) if r.random() < 0.5 else ",".join(es[:-1]) or "empty"
        elif c < 0.34:
            k = r.randrange(nf); es2 = list(es); es2[k] = r.choice(["x", "xi", "xl"]); rs["files"] = ",".join(es2)
        elif c < 0.44:
            # mtime of every wrong type, negative / huge values
            k = r.randrange(nf); es2 = list(es)
            es2[k] = r.choice(["s", "l", "m", "n", "-5", "-1000000", "0", "4611686018427387903", "-4611686018427387904",
                               "9223372036854775807", "-9223372036854775808", "4294967296", str(files[k][2] + 2 ** 32)])
            rs["files"] = ",".join(es2)
        elif c < 0.58:
            # bitfield: every wrong type, counts around n, strings of every length around ceil(n/8)
            rs["bf"] = r.choice(["none", "L", "M", "V%d" % (np_ + 1), "V%d" % (np_ - 1) if np_ > 1 else "V7", "V-1",
                                 "V4294967296", "V%d" % (np_ + 2 ** 32), "S"] +
                                ["S" + bytes(r.randrange(256) for _ in range(n_)).hex() for n_ in range(max(0, nb - 2), nb + 3) if n_ != nb] +
                                ["S" + "ff" * (nb + 8)])
        elif c < 0.74:
            extra = r.choice(["%08x" % np_, "ffffffff", "%08x" % (np_ + 7), "80000000", "fffffffe", "%08x" % (2 ** 31 - 1)])
            base = rs["unc"] if rs["unc"] not in ("none",) else ""
            rs["unc"] = (extra + base) if r.random() < 0.5 else (base + extra)
            rs["ts"] = str(ld - 1)
        elif c < 0.84:
            # length not a multiple of four: 1, 2, 3 bytes alone or trailing
            base = r.choice(["", rs["unc"] if rs["unc"] != "none" else "00000000"])
            rs["unc"] = (base + r.choice(["00", "0000", "000001", "ff", "ffff", "ffffff"])) or "-"
            rs["ts"] = str(ld - 1)
        elif c < 0.94:
            rs["ts"] = r.choice(["str", "L", "none", str(ld), str(ld + 5), "-1", "4294967295", "9223372036854775807", "-9223372036854775808"])
            rs["unc"] = r.choice([rs["unc"] if rs["unc"] != "none" else "00000000", "V", "L", "00000000"])
        else:
            rs["bf"] = "S" + "ff" * nb      # padding bits set in the saved string
    else:
        stats["honest"] += 1
    # per-file 'completed' / 'priority' (resume_load_file_priorities): plausible values in the honest stream, corrupted ones
    # (negative, string, huge, between the file's and the torrent's chunk count, just above either) in the malformed one
    fch = [z - a for (a, z) in rng]
    if r.random() < (0.6 if malformed else 0.3):
        def cv(k):
            if not malformed:
                return str(r.randint(0, fch[k]))
            return str(r.choice([0, fch[k], fch[k] + 1, np_, np_ - 1, np_ + 1, max(fch[k] + 1, (fch[k] + np_) // 2), -1, -2 ** 40,
                                 2 ** 31, 2 ** 32, 2 ** 40, 9223372036854775807, "s", "n"]))
        rs["comp"] = ",".join(cv(k) for k in range(nf))
        rs["prio"] = ",".join(str(r.choice([0, 1, 2] if not malformed else [-1, 0, 1, 2, 3, 99, 2 ** 40, "s", "n"])) for _ in range(nf))
        stats["file_priorities"] += 1
    return "%s %d %d | %s | %s | %s" % (r.choice(["L", "L", "Lq"]), pl, ld, " ".join(("%d,%d,%d" % f[:3]) + (",p" if f[3] else "") for f in files),
                                       " ".join("%s=%s" % kv for kv in rs.items()),
                                       " ".join(map(str, bad)) or "-")


def gen_t(r, stats):
    """two real lifetimes: history (start / download the missing pieces / time / stop / close+reopen / save), crash with
    a loss set inside the uncertain window, per-file perturbations"""
    pl = r.choice([1025, 2048])
    nf = r.randint(1, 3)
    lens = [r.choice([pl, 2 * pl, 4 * pl, r.randint(1, 3 * pl), r.randint(12, 200)]) for _ in range(nf)]
    if r.random() < 0.5 and nf > 1:
        lens[1] = lens[0]
    np_ = (sum(lens) + pl - 1) // pl
    c = r.random()
    lose = []
    pert = ["="] * nf

    def some_perts(allow_w):
        out = []
        for l in lens:
            x = r.random()
            out.append("=" if x < 0.5 else "D" if x < 0.7 else ("T%d" % r.randint(0, l - 1)) if x < 0.85 else ("W" if allow_w else "D"))
        return out
    if c < 0.25:
        missing, ops, pert = [], ["save"], some_perts(True)
        stats["t_stopped_complete"] += 1
    elif c < 0.65:
        missing = sorted(r.sample(range(np_), r.randint(1, min(3, np_))))
        wait = r.choice([0, 0, 5, 14, 16, 40])
        ops = ["start", "dl"] + (["adv%d" % wait] if wait else []) + r.choice([["stop"], []]) + \
            r.choice([[], ["close", "reopen"]]) + ["save"]
        if wait < 15:
            lose = sorted(r.sample(missing, r.randint(0, len(missing))))
        if r.random() < 0.3:
            pert = some_perts(True)
        stats["t_download_then_save"] += 1
    elif c < 0.85:
        missing = sorted(r.sample(range(np_), r.randint(1, min(3, np_))))
        ops = ["start"] + (["adv%d" % r.choice([1, 20])] if r.random() < 0.5 else []) + ["save"]
        pert = some_perts(False)              # saved while active (~3): rewrites are the known finding, see KNOWN_FINDING_CASES
        stats["t_active_partial"] += 1
    elif c < 0.93 and np_ >= 2:
        # two download rounds under virtual time: the second completion prunes the completed list (oldest entry older than
        # 60 min -> keep 30 min); saves at any moment: with pieces in flight, after stop before close, during hashing
        missing = sorted(r.sample(range(np_), r.randint(2, min(4, np_))))
        first = sorted(r.sample(missing, r.randint(1, len(missing) - 1)))
        gap = r.choice([9, 31, 58, 62, 62, 75, 120])        # never exactly on a window boundary (virtual time also moves a little while peers are served)
        tail = r.choice([0, 0, 4, 13, 17])
        ops = ["start", r.choice(["dl=", "dlhold="]) + ",".join(map(str, first))]
        if ops[1].startswith("dlhold") or r.random() < 0.3:
            ops.append("save")
        if ops[1].startswith("dlhold") and r.random() < 0.7:
            ops.append("drop")
        ops += ["adv%d" % gap, "dl"] + (["adv%d" % tail] if tail else [])
        ops += r.choice([["save"], ["stop", "save"], ["stop", "save", "close"], ["stop", "close", "openonly", "save", "finishcheck", "save"],
                         ["save", "stop", "close", "openonly", "save"]])
        second = [i for i in missing if i not in first]
        cand = second if tail < 15 else []
        if gap + tail < 15:
            cand = missing
        if "finishcheck" in ops or ops[-3:] == ["close", "openonly", "save"]:
            pass
        lose = sorted(r.sample(cand, r.randint(0, len(cand)))) if cand else []
        stats["t_two_rounds"] += 1
    else:
        missing = sorted(r.sample(range(np_), r.randint(0, min(2, np_))))
        ops = r.choice([["close", "save"], ["save", "start", "dl", "stop"], ["start", "stop", "save", "save"], [],
                        ["close", "openonly", "save"], ["close", "openonly", "save", "finishcheck", "save"]])
        pert = some_perts(False) if "start" in ops else some_perts(True)
        stats["t_other"] += 1
    # some data files are symbolic links to the real file (stat must follow them); short ones get a link text exactly as
    # long as the file
    lens_s = []
    for k, l in enumerate(lens):
        if r.random() < 0.15:
            stats["t_symlinked_file"] += 1
            lens_s.append("%ds" % l)
        else:
            lens_s.append(str(l))
    rs = ""
    if "save" in ops and r.random() < 0.15:
        rs = r.choice([" resave", " resave2"]); stats["t_resave_before_check"] += 1
    return "%s %d %s | %s | %s | %s%s%s" % (r.choice(["T", "T", "Tq"]), pl, " ".join(lens_s), ",".join(map(str, missing)) or "-", " ".join(ops),
                                           " ".join(pert), (" lose=" + ",".join(map(str, lose))) if lose else "", rs)


# the recorded known finding (class resume-active-rewrite-not-detected): saved while active -> mtime ~3 -> a later
# same-size rewrite of a file outside the uncertain set is not noticed
# symlinked data files (incl. link text as long as the file), the rtorrent-style check, > 1024 completions in the window
T_HAND = [
    "T 2048 8192s 8192 | - | save | = =",
    "T 2048 8192s 8192 | - | save | W =",
    "T 2048 4096 40s 4000 | - | save | = W =",
    "Tq 2048 4096 40s 4000 | - | save | = W =",
    "T 2048 4096 100s 100s | - | save | = = W",
    "T 2048 4096s 4096 | 1 | start dl stop save | = = lose=1",
    "Tq 2048 8192 8192 | - | save | = D",
    "Tq 2048 8192 8192 8192 | - | save | D = D",
    "Tq 2048 8192 8192 | - | save | D D",
    "T 1025 1127500 | * | start dl stop save | = lose=%7",
    # crash -> load -> session saved again before the requested check is done -> crash -> load
    "T 2048 8192 8192 | 2 | start dl stop save | = = lose=2 resave",
    "Tq 2048 8192 8192 | 2,5 | start dl stop save | = = lose=5 resave2",
    "T 2048 8192 8192 | 2 | start dl stop save | = W lose=2 resave",
    "T 2048 8192 8192 | - | save | = D resave",
    # complete and still active (seeding) at the save: real mtimes are recorded, a later rewrite is noticed
    "T 2048 8192 8192 | 2 | start dl save | = W",
    "T 2048 8192 8192 | 2 | start dl adv20 save | W =",
]

KNOWN_FINDING_CASES = [
    "T 2048 8192 8192 | 2 | start save | = W",
    "T 2048 8192 8192 | 2 | start adv5 save | W =",
    "T 1025 4100 2050 | 0 | start adv20 save | = W",
]

HAND = [
    "L 2048 1000 | 8192,8192,500 8192,8192,500 | top=m files=500,500 bf=V8 unc=none ts=none | -",
    "L 2048 1000 | 8192,8192,500 8192,-1,0 | top=m files=500,500 bf=V8 unc=none ts=none | -",
    "L 2048 1000 | 8192,8192,500 8192,8192,501 | top=m files=500,500 bf=V8 unc=none ts=none | 6",
    "L 2048 1000 | 8192,8192,500 8192,8192,500 | top=m files=-4,-4 bf=Sf0 unc=00000002 ts=900 | 2",
    "L 2048 1000 | 8192,8192,500 8192,8192,500 | top=m files=-4,-4 bf=V8 unc=00000002 ts=1000 | -",
    "L 2048 1000 | 8192,8192,500 8192,8192,500 | top=x files=-4,-4 bf=V8 unc=none ts=none | 2",
    "L 2048 1000 | 8192,8192,500 0,-1,0 8192,8192,500 | top=m files=500,-2,500 bf=V8 unc=none ts=none | -",
    "L 2048 1000 | 7000,7000,500 1192,-1,0,p 8192,8192,500 | top=m files=500,0,500 bf=V8 unc=none ts=none | 5",
    "L 2048 1000 | 7000,7000,501 1192,-1,0,p 8192,8192,500 | top=m files=500,n,500 bf=V8 unc=none ts=none | 1",
    # corrupted per-file completed counters: above the file's chunk count but within the torrent's
    "L 2048 1000 | 4096,4096,500 12288,12288,500 | top=m files=500,500 bf=V8 comp=5,6 prio=1,2 unc=none ts=none | -",
    "L 2048 1000 | 4096,4096,500 12288,12288,500 | top=m files=500,500 bf=V8 comp=8,9 prio=-1,99 unc=none ts=none | -",
]

# repaired in /repo 89d42c0 (resume object that threw after a partial application): regression cases
OPEN_DEFECT_WITNESSES = [
    # a 'files' entry that is not a map: bencode_error AFTER the bitfield was installed and the ranges cleared
    "L 2048 1000 | 8192,8192,500 8192,8192,500 | top=m files=500,x bf=V8 unc=none ts=none | 6",
    # an out-of-range uncertain index first: input_error before the later (lost) piece 2 is cleared
    "L 2048 1000 | 8192,8192,500 8192,8192,500 | top=m files=-4,-4 bf=V8 unc=ffffffff00000002 ts=900 | 2",
]


def gen(seed, tier):
    r = random.Random(seed * 104729 + 10)
    keys = ["file_missing", "file_intact", "file_resized", "file_padding", "file_priorities", "malformed", "honest", "corpus", "hand", "regression", "known_finding",
            "t_stopped_complete", "t_download_then_save", "t_active_partial", "t_two_rounds", "t_other", "t_symlinked_file", "t_many_completions", "t_resave_before_check"]
    stats = {k: 0 for k in keys}
    cases = []
    cdir = os.path.join(os.path.dirname(os.path.dirname(os.path.abspath(__file__))), "corpus", "C10")
    for f in sorted(glob.glob(os.path.join(cdir, "*.case"))):
        for l in open(f):
            l = l.strip()
            if l and not l.startswith("#"):
                cases.append(l); stats["corpus"] += 1
    for h in HAND:
        cases.append(h); stats["hand"] += 1
    for h in OPEN_DEFECT_WITNESSES:
        cases.append(h); stats["regression"] += 1
    for h in KNOWN_FINDING_CASES:
        cases.append(h); stats["known_finding"] += 1
    for h in T_HAND:
        cases.append(h); stats["hand"] += 1
    if tier != "quick":
        for k in (3, 11):
            cases.append("Tq 1025 1230000 | * | start dl stop save | = lose=%%%d" % k); stats["t_many_completions"] += 1
    n = 1500 if tier == "quick" else 15000
    for _ in range(n):
        cases.append(gen_l(r, stats, malformed=False))
    for _ in range(n // 2):
        cases.append(gen_l(r, stats, malformed=True))
    for _ in range(250 if tier == "quick" else 2500):
        cases.append(gen_t(r, stats))
    return cases, stats


def oracle(case, full):
    if full.startswith("HANG"):
        return [("hang", "no answer within the per-case watchdog (main thread spinning or blocked): " + full[:120])]
    if full.startswith("ERR:internal"):
        return [("internal-error", "the library threw internal_error: " + full[:200])]
    if full.startswith("CRASH") or full.startswith("ERR:") or full.startswith("MISSING"):
        return [("crash", "the library crashed: " + full[:200])]
    if full.startswith("BADCASE"):
        return []
    f = dict(t.split("=", 1) for t in full.replace(" || ", " ").split() if "=" in t)
    bad = []
    if case.startswith("T ") or case.startswith("Tq "):
        if f.get("sound") != "1":
            sec = case.split("|")
            pert = [x for x in sec[3].split() if not x.startswith("lose=") and not x.startswith("resave")]
            saved = f.get("saved", "")
            sbf = f.get("sbf", "-")
            complete = sbf.startswith("V") and sbf != "V0"      # the bitfield was uniform and non-empty: everything was complete at the save
            if f.get("resaved_unc") == "erased" and "lose=" in case and f.get("unc", "none") != "none":
                bad.append(("resume-save-before-check-erases-uncertain",
                            "crash, load, session saved again before the requested check was done (uncertain list erased), restart: a piece lost in the first crash is set and was never rechecked: bits=%s valid=%s"
                            % (f.get("bits"), f.get("ssl"))))
            elif not complete and any(k < len(saved) and saved[k] == "A" and p == "W" for k, p in enumerate(pert)):
                bad.append(("resume-active-rewrite-not-detected",
                            "saved while active (mtime ~3), file rewritten with the same size afterwards: load + check keeps pieces that are not valid: bits=%s valid=%s"
                            % (f.get("bits"), f.get("ssl"))))
            else:
                bad.append(("resume-unsound", "after save / crash / perturbation / load / check a set piece is not valid on disk: bits=%s valid=%s" % (f.get("bits"), f.get("ssl"))))
        # untouched, fully synced files keep their progress WITHOUT rehashing: nothing but the uncertain pieces is rechecked
        sec = case.split("|")
        pert = [x for x in sec[3].split() if not x.startswith("lose=") and not x.startswith("resave")]
        saved = f.get("saved", "-")
        if saved != "-" and set(saved) == {"R"} and all(p == "=" for p in pert):
            unc = set() if f.get("unc", "none") in ("none", "empty") else set(int(x) for x in f["unc"].split("!")[0].split(",") if x)
            extra = [i for i, ch in enumerate(f.get("load_ranges", "")) if ch == "1" and i not in unc]
            if extra:
                bad.append(("resume-progress-lost", "no file was touched and all were saved with their mtime, yet pieces %s are queued for rehashing" % extra[:8]))
        return bad
    pl, ld, files, rs, badp = parse(case)
    np_ = (sum(x[0] for x in files) + pl - 1) // pl
    for key in ("bits", "final"):
        v = f.get(key, "")
        if v not in ("-", "closed") and len(v) != np_:
            bad.append(("bits-beyond-torrent", "%s has %d bits for %d pieces" % (key, len(v), np_)))
    if len(f.get("ranges", "")) != np_:
        bad.append(("bits-beyond-torrent", "hashing ranges reach beyond the torrent"))
    if f.get("sound") != "1":
        if f.get("out") == "Threw":
            bad.append(("resume-throw-after-partial-apply",
                        "resume_load_progress threw (%s) after installing the bitfield; the check that follows trusts an invalid piece: final=%s valid=%s"
                        % (full.partition("exc=")[2][:60], f.get("final"), f.get("ssl"))))
        elif genuine(case):
            bad.append(("resume-unsound", "honest resume data, yet after load + check a set piece is not valid: final=%s valid=%s" % (f.get("final"), f.get("ssl"))))
    return bad
