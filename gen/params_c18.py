"""C18 constants: the wait in HashQueue::remove blocks while the flag equals this value; chunk_done's CAS."""
ENTRIES = [
    ("c18_wait_while", "src/data/hash_queue.cc", r"m_has_done_chunks\.wait\((false|true)\);", "N", lambda m: 0 if m.group(1) == "false" else 1),
    ("c18_cas_to_true", "src/data/hash_queue.cc", r"bool expected = (false|true);\s*if \(m_has_done_chunks\.compare_exchange_strong\(expected, true\)\)", "N", lambda m: 0 if m.group(1) == "false" else 1),
]
