"""C07 static-map part: the REAL key tables of the four static_map_type instantiations are
re-extracted from /repo on every run into coq/C07/ParamsGen.v as `list (N * list N)`
(index, key bytes). The base C07 constants live in gen/params.py itself and are merged.

The index of an entry is the numeric value of its enumerator, looked up in the enum declaration
of the corresponding header (LTV_REPO or /repo); if the enum cannot be found the position in the
initializer is used (the correspondence check compares the tables with the real templates'
`keys` arrays in any case: case `T <name>`)."""
import os
import re

_REPO = os.environ.get("LTV_REPO", "/repo")


def _enum_values(rel, enum_name):
    try:
        txt = open(os.path.join(_REPO, rel), errors="replace").read()
    except OSError:
        return {}
    m = re.search(r"enum\s+" + re.escape(enum_name) + r"\s*\{(.*?)\}", txt, flags=re.S)
    if not m:
        return {}
    body = re.sub(r"//[^\n]*", "", m.group(1))
    out, nxt = {}, 0
    for item in body.split(","):
        item = item.strip()
        if not item:
            continue
        if "=" in item:
            name, _, v = item.partition("=")
            try:
                nxt = int(v.strip(), 0)
            except ValueError:
                return {}
            out[name.strip()] = nxt
        else:
            out[item] = nxt
        nxt += 1
    return out


def _table(enum_file, enum_name):
    def conv(m):
        body = re.sub(r"//[^\n]*", "", m.group(1))
        ents = re.findall(r"\{\s*(\w+)\s*,\s*\"([^\"]*)\"\s*,?\s*\}", body)
        if not ents:
            raise ValueError("no entries")
        vals = _enum_values(enum_file, enum_name)
        rows = []
        for pos, (name, key) in enumerate(ents):
            idx = vals.get(name, pos)
            kb = key.encode("latin-1")
            rows.append("(%d%%N, [%s])" % (idx, "; ".join("%d%%N" % c for c in kb)))
        return "[" + ";\n    ".join(rows) + "]"
    return conv


TY = "list (N * list N)"
ENTRIES = [
    ("sm_ext_handshake_keys", "src/protocol/extensions.cc",
     r"const ExtHandshakeMessage::key_list_type ExtHandshakeMessage::keys = \{(.*?)\n\};", TY,
     _table("src/protocol/extensions.h", "ext_handshake_keys")),
    ("sm_ext_pex_keys", "src/protocol/extensions.cc",
     r"const ExtPEXMessage::key_list_type ExtPEXMessage::keys = \{(.*?)\n\};", TY,
     _table("src/protocol/extensions.h", "ext_pex_keys")),
    ("sm_ext_metadata_keys", "src/protocol/extensions.cc",
     r"const ExtMetadataMessage::key_list_type ExtMetadataMessage::keys = \{(.*?)\n\};", TY,
     _table("src/protocol/extensions.h", "ext_metadata_keys")),
    ("sm_dht_keys", "src/dht/dht_server.cc",
     r"const DhtMessage::key_list_type DhtMessage::base_type::keys = \{(.*?)\n\};", TY,
     _table("src/dht/dht_transaction.h", "dht_keys")),
    ("sm_key_buf_extra", "src/torrent/object_stream.cc",
     r"char current_key\[static_map_mapping_type::max_key_size \+ (\d+)\] = \"\";", "N"),
]
