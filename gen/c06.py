"""C06 case generator: scripted-peer scenarios for the handshake (see harness/c06.cc for the format).

Streams: (1) the negotiation matrix policies x direction x remote offer x pad lengths x IA,
(2) segmentation sweeps (whole, byte-wise, a cut at every protocol boundary -1/0/+1, all boundaries),
(3) malformed / hostile variants of every protocol field, (4) arbitrary byte strings,
(5) post-handshake message variants (bitfield / extension / port framing), (6) corpus + hand list."""
import glob
import os
import random

TR = "0000000102000000050400000001"          # INTERESTED, HAVE(1)
VC = "00" * 8
PADS = [0, 1, 255, 511, 512]
POLICIES = [(h, s) for h in range(4) for s in range(4) if not (h == 0 and s == 3)]


def tok_len(t):
    if t in ("K", "KZ", "KL", "K13") or t.startswith("KP"):
        return 96
    if t in ("R", "RX"):
        return 20
    if t[0] == "O":
        return int(t[1:])
    if t[0] == "S":
        return 20
    if t[0] in "NV":
        return 14 + int(t.split(".")[1])
    if t[1] == ":":
        return len(t[2:]) // 2
    if t[1] == "H":
        return 68
    if t[1] == "Z":
        return int(t[2:])
    raise ValueError(t)


def phase(toks, seg="W"):
    toks = [t for t in toks if t not in ("O0", "eZ0", "mZ0", "e:", "c:", "m:")]
    return ",".join(toks) + "@" + seg


def boundaries(toks):
    out, o = [], 0
    for t in toks:
        if t == "X":
            continue
        o += tok_len(t)
        out.append(o)
    return out[:-1], o


def in_mse(p, padA, padC, ia, t=1, idk=0, ext=0, segs=("W", "W", "W"), trail=TR, ht=None):
    ht = t if ht is None else ht
    p1 = ["K", "O%d" % padA]
    p2 = ["R", "S%d" % t, "e:%s%08x%04x" % (VC, p, padC), "eZ%d" % padC, "e:%04x" % (68 if ia else 0)]
    if ia:
        p2.append("eH%d%d%d" % (ht, idk, ext))
    p3 = ([] if ia else ["mH%d%d%d" % (ht, idk, ext)]) + ["m:" + trail]
    return [p1, p2, p3], segs


def script(phases, segs):
    return "/".join(phase(p, s) for p, s in zip(phases, segs))


def out_mse(p, padB, padD, segs=("W", "W"), trail=TR, ht=1, idk=0, ext=0):
    return [["K", "O%d" % padB], ["N%d.%d" % (p, padD), "mH%d%d%d" % (ht, idk, ext), "m:" + trail]], segs


def plain_script(seg="W", t=1, idk=0, ext=0, trail=TR):
    return phase(["cH%d%d%d" % (t, idk, ext), "c:" + trail], seg)


def case_in(hs, st, chk, sc):
    return "I %d %d %d %s" % (hs, st, chk, sc)


def case_out(hs, st, chk, sp, sm):
    return "O %d %d %d %s %s" % (hs, st, chk, sp, sm)


def matrix(rng, full):
    cases = []
    for (hs, st) in POLICIES:
        # incoming
        cases.append(case_in(hs, st, 1, plain_script()))
        for p in (1, 2, 3):
            combos = [(a, c, ia) for a in PADS for c in PADS for ia in (0, 1)]
            if not full:
                combos = rng.sample(combos, 3)
            for (a, c, ia) in combos:
                ph, sg = in_mse(p, a, c, ia)
                cases.append(case_in(hs, st, 1, script(ph, sg)))
        # outgoing: remote plain-only, remote MSE-only with allowed set p
        cases.append(case_out(hs, st, 1, plain_script(), "X"))
        for p in (1, 2, 3):
            combos = [(b, d) for b in PADS for d in PADS]
            if not full:
                combos = rng.sample(combos, 3)
            for (b, d) in combos:
                ph, sg = out_mse(p, b, d)
                cases.append(case_out(hs, st, 1, "X", script(ph, sg)))
        # forced leading-zero shared secret; PadB right below the sync-search limit
        ph, sg = out_mse(3, rng.choice(PADS), rng.choice(PADS))
        ph[0][0] = "KL"
        cases.append(case_out(hs, st, 1, "X", script(ph, sg)))
        ph, sg = out_mse(3, rng.choice([506, 507, 508, 509, 510]), rng.choice(PADS))
        cases.append(case_out(hs, st, 1, "X", script(ph, sg)))
        # a remote that accepts both handshake types
        ph, sg = out_mse(3, rng.choice(PADS), rng.choice(PADS))
        cases.append(case_out(hs, st, 1, plain_script(), script(ph, sg)))
    return cases


def seg_sweep(rng, full):
    cases = []
    pols = [(1, 1), (2, 2), (1, 2), (3, 3)] if not full else [(1, 1), (2, 2), (1, 2), (3, 3), (1, 0), (2, 1), (3, 1)]
    for (hs, st) in pols:
        pads = [(rng.choice(PADS), rng.choice(PADS)) for _ in range(1 if not full else 3)]
        for (a, c) in pads:
            for ia in (0, 1):
                for p in ((3,) if not full else (1, 2, 3)):
                    ph, _ = in_mse(p, a, c, ia)
                    for pi in range(3):
                        bs, total = boundaries(ph[pi])
                        cuts = sorted({o for b in bs for o in (b - 1, b, b + 1) if 0 < o < total})
                        for o in cuts:
                            sg = ["W", "W", "W"]
                            sg[pi] = str(o)
                            cases.append(case_in(hs, st, 1, script(ph, sg)))
                        if bs:
                            sg = ["W", "W", "W"]
                            sg[pi] = ".".join(str(b) for b in bs)
                            cases.append(case_in(hs, st, 1, script(ph, sg)))
            for (b, d) in pads:
                ph, _ = out_mse(3 if st != 0 else 1, b, d)
                for pi in range(2):
                    bs, total = boundaries(ph[pi])
                    cuts = sorted({o for x in bs for o in (x - 1, x, x + 1) if 0 < o < total} | set(range(1, 20)))
                    for o in cuts:
                        if 0 < o < total:
                            sg = ["W", "W"]
                            sg[pi] = str(o)
                            cases.append(case_out(hs, st, 1, "X", script(ph, sg)))
        # plain handshake cuts (20 / 48 / 68 boundaries, message headers)
        for o in (1, 19, 20, 21, 47, 48, 49, 67, 68, 69, 72, 73, 74, 77):
            cases.append(case_in(hs, st, 1, plain_script(str(o))))
            cases.append(case_out(hs, st, 1, plain_script(str(o)), "X"))
    return cases


def bytewise(rng, n):
    cases = []
    for _ in range(n):
        hs, st = rng.choice([(1, 1), (2, 2), (1, 2), (3, 3), (2, 1), (1, 0)])
        a, c = rng.choice([0, 1, 7, 255, 511, 512]), rng.choice([0, 1, 9, 512])
        kind = rng.randrange(4)
        if kind == 0:
            ph, _ = in_mse(rng.choice([1, 2, 3]), a, c, rng.randrange(2))
            cases.append(case_in(hs, st, 1, script(ph, ("B", "B", "B"))))
        elif kind == 1:
            ph, _ = out_mse(rng.choice([1, 2, 3]), a, c)
            cases.append(case_out(hs, st, 1, "X", script(ph, ("B", "B"))))
        elif kind == 2:
            cases.append(case_in(hs, st, 1, plain_script("B")))
        else:
            cases.append(case_out(hs, st, 1, plain_script("B"), "X"))
    return cases


def malformed(rng, n):
    cases = []
    hand = []
    A = (1, 1)

    def inc(sc, pol=A, chk=0):
        hand.append(case_in(pol[0], pol[1], chk, sc))

    def outc(sp, sm, pol=(2, 1), chk=0):
        hand.append(case_out(pol[0], pol[1], chk, sp, sm))

    neg = lambda p, c: "e:%s%08x%04x" % (VC, p, c)
    # incoming MSE field mutations
    inc(script([["K", "O3"], ["R", "S1", "e:0100000000000000%08x%04x" % (3, 0), "e:0044", "eH100"]], "WW"))            # bad VC
    for p in (0, 4, 8, 0x80000001, 0xffffffff, 7):
        inc(script([["K"], ["R", "S1", neg(p, 0), "e:0044", "eH100"], ["m:" + TR]], "WWW"), chk=0)
    inc(script([["K"], ["R", "S1", neg(3, 513), "eZ513", "e:0044", "eH100"]], "WW"))                                      # PadC too long
    inc(script([["K"], ["R", "S1", neg(3, 0xffff), "eZ600"]], "WW"))
    inc(script([["K"], ["R", "S1", neg(3, 2), "eZ2", "e:0045", "eH100", "e:00"]], "WW"))                                 # len(IA) 69
    inc(script([["K"], ["R", "S1", neg(3, 2), "eZ2", "e:0044", "eH100", "e:00000000"]], "WW"))                          # data after IA
    inc(script([["K"], ["R", "S1", neg(3, 2), "eZ2", "e:0000", "e:00000000"]], "WW"))                                   # data after empty IA
    for cut in (1, 20, 30, 48, 67):                                                                                       # IA = prefix of the handshake
        hsx = "13426974546f7272656e742070726f746f636f6c" + "0000000000000000"
        inc(script([["K"], ["R", "S1", neg(3, 0), "e:%04x" % 20, "e:" + hsx[:40]], ["c:00"]], "WWW"))
    inc(script([["K", "O512"], ["RX", "S1", neg(3, 0)], ["O600"]], ("W", "W", "100.300.500")))                            # no sync
    inc(script([["K", "O512"], ["O1", "R", "S1", neg(3, 0), "e:0044", "eH100"]], "WW"))                                   # PadA 513
    inc(script([["K"], ["R", "S2", neg(3, 0), "e:0044", "eH200"]], "WW"))
    inc(script([["K"], ["R", "S3", neg(3, 0), "e:0044", "eH300"]], "WW"))
    inc(script([["K"], ["R", "S1", neg(3, 0), "e:0044", "eH400"]], "WW"))                                                 # SKEY / handshake mismatch
    inc(script([["K"], ["R", "S4", neg(3, 0), "e:0044", "eH400"], ["m:" + TR]], "WWW"))                                   # served by T1's id? second torrent
    inc(script([["K"], ["R", "S1", neg(3, 0), "e:0044", "eH110"]], "WW"))                                                 # own id
    inc(script([["KZ", "O5"]], "W"))
    inc(script([["K", "X"]], "W"))
    inc(script([["K", "O5"], ["R", "X"]], "WW"))
    inc(script([["K", "O5"], ["R", "S1", neg(3, 0), "X"]], "WW"))
    inc(script([["c:13426974546f7272656e742070726f746f636f6d"]], "W"))                                                   # almost the BT prefix
    inc(script([["c:14"]], "W"), pol=(0, 1))
    inc(script([["K"]], "W"), pol=(0, 1))                                                                                 # MSE bytes, encryption denied
    inc(plain_script("W", t=2))
    inc(plain_script("W", t=3))
    inc(plain_script("W", idk=1))
    inc(plain_script("W"), pol=(3, 1))
    inc(plain_script("19"), pol=(3, 3))
    for pol in POLICIES:                                                                                                  # stream-policy rejections
        for p in (1, 2):
            ph, sg = in_mse(p, 0, 0, 1)
            hand.append(case_in(pol[0], pol[1], 1, script(ph, sg)))
    # outgoing mutations
    rep = lambda s, d: "e:%s%08x%04x" % (VC, s, d)
    for s_ in (0, 3, 4, 2, 1, 0x102):
        for pol in ((2, 1), (2, 0), (3, 3), (2, 2)):
            outc("X", script([["K", "O7"], ["V%d.0" % s_, "mH100", "m:" + TR]], "WW"), pol=pol)
            outc("X", script([["K", "O7"], ["V%d.5" % s_, "mH100", "m:" + TR]], ("W", "13")), pol=pol)
    outc("X", script([["K", "O7"], ["V2.513"]], "WW"))
    outc("X", script([["K", "O512"], ["O520"]], "WW"))                                                                    # VC never comes
    outc("X", script([["K", "O512"], ["O1", "N3.0", "mH100", "m:" + TR]], "WW"))                                          # PadB 513
    outc("X", script([["K"], ["e:0100000000000000", "e:000000020000"]], "WW"))
    outc("X", script([["K"], ["N3.5", "mH400"]], "WW"))
    outc("X", script([["K"], ["N3.5", "mH110"]], "WW"))
    outc("X", script([["KZ"]], "W"))
    outc("X", script([["K", "X"]], "W"))
    outc("X", script([["K", "O3"], ["N3.2", "X"]], "WW"))
    outc(plain_script("W", t=4), "X", pol=(1, 1))
    outc(plain_script("W", idk=1), "X", pol=(1, 1))
    outc(script([["c:13426974546f7272656e742070726f746f636f6c0000000000000000", "X"]], "W"), "X", pol=(1, 1))             # closes after 28 bytes: retry?
    outc(script([["c:13426974546f7272656e742070726f746f636f6c" + "00" * 8 + "aa" * 20, "X"]], "W"), "X", pol=(1, 1))      # after part1: no retry
    outc(script([["c:1342", "X"]], "W"), script([["K", "O3"], ["N3.2", "mH100", "m:" + TR]], "WW"), pol=(1, 1), chk=1)
    for pol in POLICIES:                                                                                                  # early close: retry table
        hand.append(case_out(pol[0], pol[1], 0, "X", "X"))
        hand.append(case_out(pol[0], pol[1], 0, "X", script([["K", "X"]], "W")))
        hand.append(case_out(pol[0], pol[1], 0, "X", script([["K", "O20"], ["X"]], "WW")))
    # post-handshake message framing (plain incoming; ext bit on/off)
    bf = "0000000405400000"
    for x in (0, 1):
        H = "cH10%d" % x
        for body, chk in ((bf + TR, 1), ("00000000" + TR, 1), ("0000000414006465" + bf + TR, 1), ("0000000414006465" + TR, 1),
                          ("0000000309" + "1ae1" + TR, 1), ("0000000109" + TR, 1), ("0000000114" + TR, 0), ("000000031403" + "6465", 0),
                          ("0000000505" + "40000000", 0), ("0000000305" + "4000", 0), (bf + bf, 0), ("000004e614", 0), ("000004e114" + "00" * 40, 0),
                          ("000004e709", 0), ("ffffffff14", 0), ("0000000209aa" + TR, 1), ("000000011400", 0),
                          ("0000002b1400" + "64313a6d6431313a75745f6d65746164617461693165366" + "1" + "3a75745f706578693265656" + "5", 0)):
            for seg in ("W", "68", "73", "76"):
                hand.append(case_in(1, 1, chk, phase([H, "c:" + body], seg)))
    cases += hand
    # random mutations of good scripts: truncation + close, random cuts
    for _ in range(n):
        hs, st = rng.choice(POLICIES)
        if rng.random() < 0.5:
            ph, _ = in_mse(rng.choice([1, 2, 3]), rng.choice(PADS + [rng.randrange(513)]), rng.choice(PADS + [rng.randrange(513)]), rng.randrange(2),
                           t=rng.choice([1, 1, 1, 2, 3, 4]), idk=rng.choice([0, 0, 0, 1]), ext=rng.randrange(2))
            k = rng.randrange(3)
            ph = ph[:k + 1]
            bs, total = boundaries(ph[k])
            segs = ["W"] * (k + 1)
            segs[k] = ".".join(str(x) for x in sorted(rng.sample(range(1, max(2, total)), min(3, max(1, total - 1)))))
            if rng.random() < 0.5:
                ph[k] = ph[k][:rng.randrange(1, len(ph[k]) + 1)] + ["X"]
            cases.append(case_in(hs, st, 0, script(ph, segs)))
        else:
            ph, _ = out_mse(rng.choice([1, 2, 3]), rng.choice(PADS + [rng.randrange(513)]), rng.choice(PADS + [rng.randrange(513)]),
                            ht=rng.choice([1, 1, 1, 4]), idk=rng.choice([0, 0, 0, 1]), ext=rng.randrange(2))
            k = rng.randrange(2)
            ph = ph[:k + 1]
            bs, total = boundaries(ph[k])
            segs = ["W"] * (k + 1)
            segs[k] = ".".join(str(x) for x in sorted(rng.sample(range(1, max(2, total)), min(3, max(1, total - 1)))))
            if rng.random() < 0.5:
                ph[k] = ph[k][:rng.randrange(1, len(ph[k]) + 1)] + ["X"]
            cases.append(case_out(hs, st, 0, plain_script() if rng.random() < 0.3 else "X", script(ph, segs)))
    return cases


def identity(rng, full):
    """the torrent / peer the handshake claims, under every-offset segmentation:
    (a) own peer id, plain and MSE (as IA and after the negotiation), incoming and outgoing, a cut at every
        offset of the flight that carries the handshake (the id may arrive in a later read than the info hash);
    (b) valid MSE for torrent T whose inner handshake names another info hash (unknown, inactive, or a second
        loaded torrent), same cuts."""
    cases = []
    neg = lambda p, c: "e:%s%08x%04x" % (VC, p, c)

    def sweep(mk, total, step=1):
        for o in range(1, total, step):
            cases.append(mk(str(o)))
        cases.append(mk("W"))
        cases.append(mk("B")) if full else None

    for ext in (0, 1):
        H = "110" if not ext else "111"
        # plain, incoming and outgoing
        sweep(lambda sg: case_in(1, 1, 0, phase(["cH" + H, "c:" + TR], sg)), 68 + 14, 1 if ext == 0 or full else 5)
        sweep(lambda sg: case_out(1, 1, 0, phase(["cH" + H, "c:" + TR], sg), "X"), 68 + 14, 1 if ext == 0 or full else 5)
    for (hs, st, p) in ((1, 1, 3), (1, 2, 3), (2, 1, 1), (3, 3, 2)):
        # own id inside IA: cut anywhere in the flight req1 | skey | negotiation | len(IA) | IA
        p2 = ["R", "S1", neg(p, 0), "e:0044", "eH110"]
        _, tot = boundaries(p2)
        sweep(lambda sg: case_in(hs, st, 0, script([["K", "O3"], p2], ("W", sg))), tot, 1 if (hs, st) == (1, 1) or full else 4)
        # own id after the negotiation (no IA), in the negotiated mode
        p3 = ["mH110", "m:" + TR]
        sweep(lambda sg: case_in(hs, st, 0, script([["K"], ["R", "S1", neg(p, 0), "e:0000"], p3], ("W", "W", sg))), 82, 1 if (hs, st) == (1, 1) or full else 4)
        # outgoing: the responder's reply + handshake with our own id
        po = ["N%d.0" % p, "mH110", "m:" + TR]
        _, tot = boundaries(po)
        sweep(lambda sg: case_out(hs if hs != 1 else 2, st, 0, "X", script([["K", "O2"], po], ("W", sg))), tot, 1 if (hs, st) == (1, 1) or full else 4)
    # (b) inner info hash differs from the SKEY torrent
    for (sk, ht) in ((1, 3), (1, 4), (1, 2), (4, 1), (4, 3)):
        for (hs, st, p) in ((1, 1, 3), (1, 2, 3), (2, 1, 1), (3, 3, 2)):
            p2 = ["R", "S%d" % sk, neg(p, 0), "e:0044", "eH%d00" % ht]
            _, tot = boundaries(p2)
            step = 1 if (sk, ht, hs, st) in ((1, 4, 1, 1), (1, 3, 1, 2)) or full else 9
            sweep(lambda sg: case_in(hs, st, 0, script([["K", "O1"], p2, ["m:" + TR]], ("W", sg, "W"))), tot, step)
            p3 = ["mH%d00" % ht, "m:" + TR]
            sweep(lambda sg: case_in(hs, st, 0, script([["K"], ["R", "S%d" % sk, neg(p, 5), "eZ5", "e:0000"], p3], ("W", "W", sg))), 82, step)
    # outgoing: the peer answers with another torrent's hash
    for ht in (3, 4, 2):
        sweep(lambda sg: case_out(1, 1, 0, phase(["cH%d00" % ht, "c:" + TR], sg), "X"), 82, 1 if ht == 4 or full else 9)
        po = ["N3.0", "mH%d00" % ht, "m:" + TR]
        _, tot = boundaries(po)
        sweep(lambda sg: case_out(2, 1, 0, "X", script([["K"], po], ("W", sg))), tot, 1 if ht == 4 or full else 9)
    return cases


def keyshape(rng, full):
    """MSE initiators whose DH public key looks like the start of a plain handshake: a legal key with first byte
    0x13 (1 key in 256) must be served like any other; 96 'key' bytes that begin with the first k bytes of
    "\\x13BitTorrent protocol" (k = 1..19) are not a plain handshake."""
    cases = []
    for (hs, st) in POLICIES:
        if hs == 0:
            continue
        for p in (1, 2, 3):
            for ia in (0, 1):
                ph, sg = in_mse(p, rng.choice([0, 1, 7, 255, 512]), rng.choice([0, 1, 9]), ia)
                ph[0][0] = "K13"
                cases.append((case_in(hs, st, 1, script(ph, sg)), "matrix"))
    ph, _ = in_mse(3, 5, 0, 1)
    ph[0][0] = "K13"
    for o in list(range(1, 30)) + [95, 96, 97]:
        cases.append((case_in(1, 1, 1, script(ph, (str(o), "W", "W"))), "segmentation"))
    cases.append((case_in(1, 1, 1, script(ph, ("B", "W", "W"))), "segmentation"))
    for k in range(1, 20):
        for (hs, st) in ((1, 1), (3, 3), (2, 0)):
            for sg in ("W", str(k), "20", "B"):
                cases.append((case_in(hs, st, 0, phase(["KP%d" % k, "O4"], sg)), "malformed"))
    return cases


def dual(rng, full):
    """two incoming handshakes alive at the same time, their segments interleaved: handshakes do not
    interfere (the model is the product of two independent runs)"""
    cases = []
    orders = ["ABAABB", "ABABAB", "ABBBAA", "AABABB", "ABBABA", "BAABBA", "AABBAB"]
    pols = POLICIES if full else [(1, 1), (1, 2), (2, 2), (3, 3), (1, 0), (2, 1)]
    for (hs, st) in pols:
        if hs == 0:
            continue
        for order in orders:
            for _ in range(2 if not full else 4):
                pa, pb = rng.choice([1, 2, 3]), rng.choice([1, 2, 3])
                A, sa = in_mse(pa, rng.choice([0, 1, 40, 511]), rng.choice([0, 3, 512]), rng.randrange(2))
                B, sb = in_mse(pb, rng.choice([0, 2, 300, 512]), rng.choice([0, 5]), rng.randrange(2))
                cases.append("D %d %d 1 %s %s %s" % (hs, st, script(A, sa), script(B, sb), order))
        # finer interleaving: A's second flight cut inside req1 / skey / negotiation while B's flights pass
        A, _ = in_mse(3, 3, 2, 1)
        B, _ = in_mse(3, 0, 0, 0)
        for cut in ("10", "20", "30", "40", "48", "54", "20.40.54"):
            n = cut.count(".") + 2
            cases.append("D %d %d 1 %s %s %s" % (hs, st, script(A, ("W", cut, "W")), script(B, ("W", "W", "W")), "AB" + "AB" * n + "AB"))
        # one MSE, one plain
        A, sa = in_mse(3, 7, 0, 1)
        cases.append("D %d %d 1 %s %s %s" % (hs, st, script(A, sa), plain_script("30"), "ABABA"))
    return cases


def arbitrary(rng, n):
    cases = []
    for _ in range(n):
        hs, st = rng.choice(POLICIES)
        ln = rng.choice([1, 5, 19, 20, 21, 48, 68, 95, 96, 97, 200, 531, 532, 627, 628, 629, 700, rng.randrange(1, 900)])
        b = bytearray(rng.getrandbits(8) for _ in range(ln))
        r = rng.random()
        if r < 0.3:
            pre = bytes([19]) + b"BitTorrent protocol"
            k = rng.randrange(1, 21)
            b[:k] = pre[:k]
        if b[0] == 0xff:
            b[0] = 0xfe                    # keep the DH public value below the prime's leading 0xff..ff
        if all(x == 0 for x in b[:95]):
            b[0] = 1
        cuts = sorted(set(rng.randrange(1, ln) for _ in range(rng.randrange(4)))) if ln > 1 else []
        seg = ".".join(map(str, cuts)) if cuts else "W"
        close = rng.random() < 0.3
        sc = phase(["c:" + bytes(b).hex()] + (["X"] if close else []), seg)
        if rng.random() < 0.75:
            cases.append(case_in(hs, st, 0, sc))
        else:
            cases.append(case_out(hs, st, 0, sc, sc))
    return cases


def retry_points(rng, full):
    """retry_rule_any_state / retry_chain / unrecognised_means_untouched: an outgoing attempt failing at every
    kind of point before / at / after the recognition point of the peer's key (96 bytes) or handshake part 1
    (48 bytes), crossed with what happens to the retry (fails early, fails late, succeeds), per policy."""
    pre = "13426974546f7272656e742070726f746f636f6c" + "00" * 8
    def plain_fail(k):
        body = (pre + "aa" * 20)[:2 * k]
        return script([["c:" + body, "X"]], "W")
    def mse_fail(k):
        if k < 96:
            return script([["c:" + "5a" * k, "X"]], "W")
        if k == 96:
            return script([["K", "X"]], "W")
        return script([["K", "O%d" % (k - 96)], ["X"]], "WW")
    good_p = plain_script()
    ph, sg = out_mse(3, 5, 3)
    good_m = script(ph, sg)
    plain_pts = [1, 19, 20, 27, 28, 47, 48]
    mse_pts = [1, 50, 95, 96, 97, 300]
    out = []
    for hs, st in POLICIES:
        combos = []
        for k in plain_pts:
            for sm in (mse_fail(rng.choice(mse_pts)), good_m, "X"):
                combos.append((plain_fail(k), sm))
        for k in mse_pts:
            for sp in (plain_fail(rng.choice(plain_pts)), good_p, "X"):
                combos.append((sp, mse_fail(k)))
        if not full:
            combos = rng.sample(combos, 4)
        for sp, sm in combos:
            out.append(case_out(hs, st, 0, sp, sm))
    return out


def pad_sweep(rng, full):
    """sync_scan_*: PadA / PadB of EVERY length, not only the five of the matrix; outgoing with the pad and
    ENCRYPT(VC) coalesced with the key (fixed-select reply V), cut after the pad, cut inside the VC"""
    out = []
    lens = [0, 1, 7, 8, 255, 511, 512, 513, 519, 520, 523, 524, 525, 532, 600]
    lens += [rng.randrange(2, 511) for _ in range(40 if full else 6)]
    for n in lens:
        body = ["K", "O%d" % n, "V2.0", "mH100", "m:" + TR]
        cuts = ["W", str(96 + n), str(96 + n + 4), "96.%d" % (96 + n + 8)] if n else ["W", "96", "100"]
        for seg in (cuts if full or n >= 511 else rng.sample(cuts, 2)):
            out.append(case_out(2, 1, 1, "X", phase(body, seg)))
    for n in [rng.randrange(0, 513) for _ in range(60 if full else 8)] + [512, 513]:
        m = rng.randrange(0, 513)
        ph, sg = in_mse(rng.choice([1, 2, 3]), n, m, rng.randrange(2))
        out.append(case_in(1, 1, 1 if n <= 512 else 0, script(ph, sg)))
    return out



def gen_tagged(seed, tier):
    rng = random.Random(seed)
    full = tier == "thorough"
    here = os.path.dirname(os.path.dirname(os.path.abspath(__file__)))
    corpus = []
    for f in sorted(glob.glob(os.path.join(here, "corpus", "C06", "*.case"))):
        corpus += [l.rstrip("\n") for l in open(f) if l.strip() and not l.startswith("#")]
    rng2 = random.Random(seed * 1000003 + 6)      # own stream: the older generators keep their draws
    streams = [("corpus", corpus), ("matrix", matrix(rng, full)), ("segmentation", seg_sweep(rng, full)),
               ("bytewise", bytewise(rng, 150 if full else 24)), ("malformed", malformed(rng, 1200 if full else 150)),
               ("identity", identity(rng, full)), ("dual", dual(rng, full)),
               ("arbitrary", arbitrary(rng, 1500 if full else 150)),
               ("retrypoints", retry_points(rng2, full)), ("padsweep", pad_sweep(rng2, full))]
    cases, tags, stats = [], [], {}
    for name, cs in streams:
        stats[name] = len(cs)
        cases += [c if name == "corpus" else c + " #" + name for c in cs]
        tags += [name] * len(cs)
    ks = keyshape(rng, full)
    stats["keyshape"] = len(ks)
    for c, tg in ks:
        cases.append(c + " #" + tg)
        tags.append(tg)
    stats["incoming"] = sum(1 for c in cases if c.startswith("I"))
    stats["outgoing"] = sum(1 for c in cases if c.startswith("O"))
    return cases, tags, stats


def gen(seed, tier):
    cases, _, stats = gen_tagged(seed, tier)
    return cases, stats


if __name__ == "__main__":
    import sys
    cs, st = gen(int(sys.argv[1]) if len(sys.argv) > 1 else 1, sys.argv[2] if len(sys.argv) > 2 else "quick")
    sys.stderr.write(repr(st) + "\n")
    print("\n".join(cs))
