"""C11 case generator.  A case is  "<ntor> <ngrp> ; op ; op ; ..."  (see ocaml/c11_driver.ml).
Streams: corpus, hand list, structured (mostly valid histories aimed at the case splits of
choke_queue: limits 0/1/2/inf, time stamps around the 10 s re-unchoke guard and the 50 s guard of
the experimental heuristics, every weight class, group moves, min_slots/max_slots conflicts),
malformed (ids out of range / dead, limits above 2^20, heuristics >= 4, rates >= 2^34),
and in the thorough tier an exhaustive small scope (all op strings up to a bound over a small
alphabet on 1 torrent / 1 group / 2 connections)."""
import glob, itertools, os, random

UNL = 4294967295
LIMS = [0, 1, 2, 3, 4, 5, UNL]
DTS = [1, 9999999, 10000000, 10000001, 30000000, 39999999, 40000000, 49999999, 50000000, 50000001, 1000000]
RATES = [0, 15, 16, 2047, 2048, 2049, 5000, 100000, 1 << 20, (1 << 30) - 1, 1 << 30, (1 << 34) - 16, 1 << 34, (1 << 36) + 12345]

HAND = [
    # plain life cycle
    "1 1 ; N 0 ; Q u 0 ; AD 10000001 ; U u 0 ; Q u 0 ; X 0",
    # 10 s re-unchoke guard: choked at t, re-queued at t+10s exactly (no), t+10s+1 (yes)
    "1 1 ; N 0 ; Q u 0 ; K u 0 ; AD 10000000 ; Q u 0 ; K u 0 ; AD 1 ; Q u 0",
    # global limit and tick over two groups
    "2 2 ; N 0 ; N 0 ; N 1 ; N 1 ; SG 1 1 ; Q u 0 ; Q u 1 ; Q u 2 ; Q u 3 ; GM u 2 ; TK : 5 6 7 8 9 ; TK : 1 2 3 4 ; GM u 1 ; TK : 9 9 9",
    # snub while unchoked, unsnub inside and outside the guard
    "1 1 ; N 0 ; N 0 ; Q u 0 ; Q u 1 ; S u 0 ; R u 0 ; Q u 0 ; AD 10000001 ; S u 1 ; R u 1 ; Q u 1 ; X 0 ; X 1",
    # per-torrent max slots lowered with balance_entry; min slots raised
    "1 1 ; N 0 ; N 0 ; N 0 ; Q u 0 ; Q u 1 ; Q u 2 ; TM u 0 1 ; BE u 0 : 1 2 3 ; TM u 0 4294967295 ; Tm u 0 2 ; BE u 0 : 4 5 6",
    # download side: remote unchoke / choke, cycle choke of a connection, re-entrant set_not_queued
    "1 1 ; N 0 ; N 0 ; Q d 0 ; Q d 1 ; GM d 1 ; TK ; U d 0 ; TK ; K d 1 ; Q d 1 ; X 0 ; X 1",
    # queue max with balance() in both directions
    "1 1 ; N 0 ; N 0 ; N 0 ; QM u 0 1 ; Q u 0 ; Q u 1 ; Q u 2 ; QM u 0 3 ; AD 10000001 ; BA u 0 : 7 8 9 10 ; QM u 0 1 ; BA u 0 : 1 2 3",
    # group move carries counters
    "2 3 ; N 0 ; N 1 ; Q u 0 ; Q u 1 ; Q d 0 ; SG 0 2 ; SG 1 1 ; SG 0 1 ; TK : 1 2 3 ; X 0 ; X 1",
    # experimental heuristics with its 50 s guard, preferred peers, rates in every class
    "1 1 ; QH u 0 2 ; N 0 ; N 0 ; N 0 ; N 0 ; RT 0 1 5000 100 ; RT 1 0 100000 0 ; RT 2 0 16 16 ; Q u 0 ; Q u 1 ; Q u 2 ; Q u 3 ; Q d 1 ; CY u 0 2 : 3 1000 77 ; AD 50000001 ; CY u 0 2 : 5 6 7 8 ; CY u 0 1 : 1 1 1",
    # seed heuristics
    "1 1 ; QH u 0 1 ; N 0 ; N 0 ; N 0 ; RT 1 1 0 99999 ; Q u 0 ; Q u 1 ; Q u 2 ; CY u 0 1 : 1023 1024 5 0 ; CY u 0 1 : 3 2 1 0 ; CY u 0 0",
    # min_slots above the global maximum (quota -= size_unchoked wraps in balance_unchoked)
    "2 2 ; N 0 ; N 0 ; N 0 ; N 1 ; N 1 ; N 1 ; SG 1 1 ; Tm u 0 3 ; GM u 2 ; K u 0 ; Q u 0 ; Q u 1 ; Q u 2 ; Q u 3 ; Q u 4 ; Q u 5 ; TK : 1 2 3 4 5 6 7 8 ; TK : 1 2 3 4 5 6 7 8",
    # fairness_k_waiters: 1 unchoked + 3 waiters, quota 4 => request 3 = k: one cycle unchokes all three (classes 1,2,0/3)
    "1 1 ; N 0 ; N 0 ; N 0 ; N 0 ; Q u 0 ; QM u 0 1 ; RT 2 1 0 0 ; RT 3 0 5000 0 ; Q d 3 ; Q u 1 ; Q u 2 ; Q u 3 ; QM u 0 4294967295 ; CY u 0 4 : 9 1023 7 5 0 1",
    # same with k = request + 1 (quota 3): one waiter stays, which one is decided by the weights
    "1 1 ; N 0 ; N 0 ; N 0 ; N 0 ; Q u 0 ; QM u 0 1 ; Q u 1 ; Q u 2 ; Q u 3 ; QM u 0 4294967295 ; CY u 0 3 : 9 1023 7 5 0 1",
    # U >= quota: the request is max_alternate (9 unchoked => 2), 2 waiters fit; the choke pass takes 2 old ones
    "1 1 ; " + " ; ".join(["N 0"] * 11) + " ; " + " ; ".join("Q u %d" % c for c in range(9)) + " ; QM u 0 9 ; Q u 9 ; Q u 10 ; CY u 0 9 : 1 2 3 4 5 6 7 8 9 10 11 12 13 14 15 16 17 18 19 20 21 22 23 24",
    # fairness_tick_groups: two groups, no global maximum, every group fits => one tick unchokes all four waiters
    "2 2 ; SG 1 1 ; N 0 ; N 0 ; N 1 ; N 1 ; QM u 0 0 ; QM u 1 0 ; Q u 0 ; Q u 1 ; Q u 2 ; Q u 3 ; QM u 0 2 ; QM u 1 4 ; TK : 7 8 9 1 5 6 3 3 3 3 3 3",
    # close everything in every state
    "1 1 ; N 0 ; N 0 ; N 0 ; N 0 ; Q u 0 ; Q u 1 ; S u 1 ; Q u 2 ; QM u 0 1 ; Q u 3 ; Q d 0 ; Q d 3 ; X 0 ; X 1 ; X 2 ; X 3",
]


def rnd_list(r, n):
    k = r.choice([0, n, n, n + 4, n // 2])
    return [r.choice([0, 1, 2, 3, 5, 8, 1023, 1024, 2047, 4095, 4096, r.randrange(1 << 31), r.randrange(1 << 31), r.randrange(64)]) for _ in range(k)]


class Sim:
    """Only what the generator needs to aim: how many connections exist / are alive."""

    def __init__(self, nt, ng):
        self.nt, self.ng, self.conns, self.dead = nt, ng, [], set()

    def alive(self):
        return [c for c in range(len(self.conns)) if c not in self.dead]


def gen_case(r, stats, malformed=False, max_conns=10, nops=None):
    nt = r.choice([1, 1, 2, 2, 3, 4])
    ng = r.choice([1, 1, 2, 3])
    sim = Sim(nt, ng)
    ops = []
    nops = nops or r.choice([8, 15, 25, 40, 60])
    # a bias per case so that some cases are dominated by one direction / by ticks
    dirs = r.choice(["u", "u", "d", "ud", "ud"])
    heavy = r.choice(["tick", "cycle", "mix", "mix", "entry", "balance"])

    def d():
        return r.choice(dirs)

    def cid():
        if malformed and r.random() < 0.3:
            return r.choice([len(sim.conns), len(sim.conns) + 3, 99] + list(sim.dead or [0]))
        al = sim.alive()
        return r.choice(al) if al else 0

    def tid():
        return r.choice([nt, nt + 1, 77]) if malformed and r.random() < 0.3 else r.randrange(nt)

    def gid():
        return r.choice([ng, ng + 2, 50]) if malformed and r.random() < 0.3 else r.randrange(ng)

    def emit(o, nrand=0):
        rs = rnd_list(r, nrand) if nrand else []
        ops.append(o + (" : " + " ".join(map(str, rs)) if rs else ""))
        stats[o.split()[0]] = stats.get(o.split()[0], 0) + 1

    # setup prefix
    for _ in range(r.randrange(0, min(max_conns, 6) + 1)):
        sim.conns.append(r.randrange(nt))
        emit("N %d" % sim.conns[-1])
    if r.random() < 0.5:
        emit("GM %s %d" % (d(), r.choice(LIMS[:6])))
    if r.random() < 0.3:
        emit("QH %s %d %d" % (d(), r.randrange(ng), r.randrange(4)))
    while len(ops) < nops:
        nr = 2 * len(sim.conns) + 4
        x = r.random()
        if x < 0.08 and len(sim.conns) < max_conns:
            sim.conns.append(tid())
            emit("N %d" % sim.conns[-1])
            if sim.conns[-1] >= nt:
                sim.conns.pop()
        elif x < 0.28:
            emit("Q %s %d" % (d(), cid()))
        elif x < 0.36:
            emit("%s %s %d" % (r.choice("UK"), d(), cid()))
        elif x < 0.42:
            emit("S %s %d" % (r.choice("uuud") if "u" in dirs else d(), cid()))
        elif x < 0.47:
            emit("R %s %d" % (r.choice("uuud") if "u" in dirs else d(), cid()))
        elif x < 0.50:
            c = cid()
            emit("X %d" % c)
            if c < len(sim.conns):
                sim.dead.add(c)
        elif x < 0.56:
            emit("AD %d" % r.choice(DTS))
        elif x < 0.61:
            c = r.randrange(len(sim.conns)) if sim.conns and not malformed else cid()
            rates = RATES if malformed else RATES[:-4]
            emit("RT %d %d %d %d" % (c, r.randrange(2), r.choice(rates), r.choice(rates)))
        elif x < 0.66:
            t = tid()
            dd = d()
            emit("TM %s %d %d" % (dd, t, r.choice(LIMS)))
            if r.random() < 0.8:
                emit("BE %s %d" % (dd, t), nr)
        elif x < 0.69:
            t = tid()
            dd = d()
            emit("Tm %s %d %d" % (dd, t, r.choice(LIMS[:5] if not malformed else LIMS)))
            if r.random() < 0.8:
                emit("BE %s %d" % (dd, t), nr)
        elif x < 0.72:
            emit("QM %s %d %d" % (d(), gid(), r.choice(LIMS)))
        elif x < 0.74:
            emit("QH %s %d %d" % (d(), gid(), r.randrange(6 if malformed else 4)))
        elif x < 0.78:
            emit("GM %s %d" % (d(), r.choice(LIMS[:6] + ([1 << 20, (1 << 20) + 1, UNL] if malformed else [1 << 20]))))
        elif x < 0.82:
            emit("SG %d %d" % (tid(), gid()))
        else:
            k = {"tick": "TK", "cycle": "CY", "entry": "BE", "balance": "BA"}.get(heavy) or r.choice(["TK", "CY", "BA", "BE", "TK", "CY"])
            if r.random() < 0.3:
                k = r.choice(["TK", "CY", "BA", "BE"])
            if k == "TK":
                emit("TK", 2 * nr)
            elif k == "CY":
                emit("CY %s %d %d" % (d(), gid(), r.choice(LIMS + [len(sim.conns), max(0, len(sim.conns) - 1)])), nr)
            elif k == "BA":
                emit("BA %s %d" % (d(), gid()), nr)
            else:
                emit("BE %s %d" % (d(), tid()), nr)
    if r.random() < 0.4:
        for c in sim.alive():
            emit("X %d" % c)
    return "%d %d ; %s" % (nt, ng, " ; ".join(ops))


SMALL_ALPHABET = ["Q u 0", "Q u 1", "K u 0", "S u 0", "R u 0", "X 1", "AD 10000001", "TM u 0 1", "BE u 0 : 3 1",
                  "GM u 1", "CY u 0 1 : 2 900", "TK : 1 5 2", "BA u 0 : 4", "QM u 0 1", "Q d 0", "U d 0"]


def exhaustive(depth):
    out = []
    for n in range(1, depth + 1):
        for seq in itertools.product(SMALL_ALPHABET, repeat=n):
            out.append("1 1 ; N 0 ; N 0 ; " + " ; ".join(seq))
    return out


def corpus():
    here = os.path.dirname(os.path.dirname(os.path.abspath(__file__)))
    out = []
    for f in sorted(glob.glob(os.path.join(here, "corpus", "C11", "*.case"))):
        out += [l.strip() for l in open(f) if l.strip() and not l.startswith("#")]
    return out


def gen_rotation(r, slots, extra, nticks, side="u"):
    """constant interest, `slots` global slots, slots+extra interested peers, nticks choke cycles 30 s apart with
    fresh uniform random() values (the fairness oracle hypothesis is that random() is fair)"""
    p = slots + extra
    ops = ["N 0"] * p + ["GM %s %d" % (side, slots), "AD 10000001"] + ["Q %s %d" % (side, c) for c in range(p)]
    for _ in range(nticks):
        ops.append("AD 30000000")
        ops.append("TK : " + " ".join(str(r.randrange(1 << 31)) for _ in range(4 * p + 8)))
    return "1 1 ; " + " ; ".join(ops)


def max_alternate(cu):
    return (cu + 7) // 8 if cu < 31 else (cu + 9) // 10


def cycle_request(quota, qmax, cu):
    """what choke_queue::cycle asks its unchoke pass for in a group without min_slots (coq: ProofsFair2.cycle_request)"""
    q1 = min(quota, qmax)
    return min(max(q1 - cu if cu < q1 else 0, max_alternate(cu)), q1)


def gen_fit(r, stats):
    """aimed at fairness_k_waiters / fairness_tick_groups: per group U unchoked and k waiting connections with
    k in {request-1, request, request+1} (request = cycle_request), every side of the case splits
    U < quota' / U >= quota' (alternate drives the request, the choke pass runs), the max_alternate steps
    (U = 0, 1, 8, 9, 30, 31), room exactly enough / one short below max_slots, waiters spread over all four
    weight classes and over several torrents, one cycle (CY) or one tick without a global maximum (TK) over
    1-3 groups."""
    mode = r.choice(["cycle", "cycle", "tick", "tick"])
    ng = r.choice([1, 1, 2]) if mode == "cycle" else r.choice([1, 2, 2, 3])
    per = [r.choice([1, 1, 2, 3]) for _ in range(ng)]
    nt = sum(per)
    side = r.choice("uuud")
    ops, tg, t = [], [], 0
    for g in range(ng):
        for _ in range(per[g]):
            tg.append(g)
            if g:
                ops.append("SG %d %d" % (t, g))
            t += 1
    for g in range(ng):
        if r.random() < 0.7:
            ops.append("QH %s %d %d" % (side, g, r.randrange(4)))
    nconn = 0
    plan = []
    for g in range(ng):
        ts = [x for x in range(nt) if tg[x] == g]
        capU = 11 * len(ts)
        U = min(capU, r.choice([0, 0, 1, 2, 3, 7, 8, 9, 12, 16, 24, 30, 31, 33]))
        cand = [U + 1, U + 2, U + 3, U + 4, U, max(0, U - 1), max(0, U - 3), 1, 0, UNL, UNL]
        M = r.choice(cand)
        quota = r.choice(cand) if mode == "cycle" else UNL
        req = cycle_request(quota, M, U)
        k = min(4 * len(ts), max(0, req + r.choice([-1, 0, 0, 0, 1, 1, 2])))
        if k == 0 and r.random() < 0.7:
            k = 1
        plan.append((g, ts, U, M, quota, k))
    for g, ts, U, M, quota, k in plan:
        un = []
        for i in range(U):
            ops.append("N %d" % ts[i % len(ts)])
            un.append(nconn)
            nconn += 1
        for c in un:
            if side == "d" or r.random() < 0.2:
                ops.append("RT %d %d %d %d" % (c, r.randrange(2), r.choice(RATES[:10]), r.choice(RATES[:10])))
            ops.append("Q %s %d" % (side, c))
        ops.append("QM %s %d %d" % (side, g, U))
        per_t = {x: 0 for x in ts}
        for i in range(k):
            tt = ts[(i + U) % len(ts)]
            ops.append("N %d" % tt)
            c = nconn
            nconn += 1
            per_t[tt] += 1
            x = r.random()
            if x < 0.6:
                ops.append("RT %d %d %d %d" % (c, r.randrange(2), r.choice([0, 15, 16, 2047, 2048, 2049, 5000, 100000]), r.choice(RATES[:8])))
            if side == "u" and r.random() < 0.4:
                ops.append("Q d %d" % c)     # we download from it: weight classes 0 / 3 of the leech heuristics
            ops.append("Q %s %d" % (side, c))
        # room below max_slots: exactly enough, or one short, for one torrent of the group
        if r.random() < 0.35:
            tt = r.choice(ts)
            tot = sum(1 for i in range(U) if ts[i % len(ts)] == tt) + per_t[tt]
            ops.append("TM %s %d %d" % (side, tt, max(0, tot - r.choice([0, 0, 1]))))
        if r.random() < 0.08:
            ops.append("Tm %s %d 1" % (side, r.choice(ts)))
        if r.random() < 0.1 and k:
            ops.append("S %s %d" % (side, nconn - 1))
    for g, ts, U, M, quota, k in plan:
        ops.append("QM %s %d %d" % (side, g, M))
    rs = lambda n: " ".join(str(r.choice([0, 1, 5, 1023, 1024, 4095, r.randrange(1 << 31)])) for _ in range(n))
    if mode == "cycle":
        order = list(plan)
        r.shuffle(order)
        for g, ts, U, M, quota, k in order:
            ops.append("CY %s %d %d : %s" % (side, g, quota, rs(2 * nconn + 8)))
        stats["CYfit"] = stats.get("CYfit", 0) + len(order)
    else:
        if r.random() < 0.15:
            ops.append("GM %s %d" % (side, r.choice([1, 2, 5, 40])))
        ops.append("TK : " + rs(4 * nconn + 16))
        if r.random() < 0.5:
            ops.append("AD 30000000")
            ops.append("TK : " + rs(4 * nconn + 16))
        stats["TKfit"] = stats.get("TKfit", 0) + 1
    return "%d %d ; %s" % (nt, ng, " ; ".join(ops))


def gen(seed, tier):
    r = random.Random(seed)
    stats = {}
    cases = corpus()
    ncorp = len(cases)
    cases += HAND
    nrot = 0
    for slots in (1, 2, 3, 8):
        for extra in ((1, 3) if tier == "quick" else (1, 2, 3, 4)):
            cases.append(gen_rotation(r, slots, extra, 40 * (extra + 1) + 5))
            nrot += 1
        cases.append(gen_rotation(r, slots, 2, 12, side="d"))
        nrot += 1
    n_fit = 400 if tier == "quick" else 3000
    for _ in range(n_fit):
        cases.append(gen_fit(r, stats))
    n_struct, n_mal = (1500, 300) if tier == "quick" else (12000, 2500)
    for _ in range(n_struct):
        cases.append(gen_case(r, stats, max_conns=r.choice([4, 8, 12])))
    for _ in range(n_mal):
        cases.append(gen_case(r, stats, malformed=True))
    nex = 0
    if tier == "thorough":
        ex = exhaustive(3) + [c for c in exhaustive(4) if r.random() < 0.25]
        nex = len(ex)
        cases += ex
    dist = {"corpus": ncorp, "hand": len(HAND), "rotation": nrot, "fit_k_waiters": n_fit, "structured": n_struct, "malformed": n_mal, "exhaustive_small_scope": nex,
            "op_kinds": dict(sorted(stats.items()))}
    return cases, dist


# ---------------------------------------------------------------- wire clause (session level, harness/c11s.cc)
WIRE_HAND = [
    "1 ; A11 ; I0 ; N0 ; I0 ; S0 ; R0 ; K ; X0",
    "2 ; A11 ; G1 ; I0 ; I1 ; K ; K ; S0 ; K ; R0 ; A11 ; K ; N1 ; K",
    "3 ; A11 ; I0 ; I1 ; I2 ; G2 ; K ; G1 ; K ; K ; G0 ; K ; X1 ; K",
    "2 ; I0 ; I1 ; A9 ; N0 ; I0 ; A2 ; N0 ; I0 ; S1 ; R1 ; S1 ; R1",
]


def gen_wire(seed, tier):
    r = random.Random(seed * 7919 + 11)
    cases = list(WIRE_HAND)
    n = 60 if tier == "quick" else 400
    for _ in range(n):
        np_ = r.choice([1, 2, 2, 3, 4])
        ops = ["A11"] if r.random() < 0.7 else []
        for _ in range(r.choice([6, 10, 16, 24])):
            x = r.random()
            k = r.randrange(np_)
            if x < 0.30:
                ops.append("I%d" % k)
            elif x < 0.42:
                ops.append("N%d" % k)
            elif x < 0.52:
                ops.append("S%d" % k)
            elif x < 0.62:
                ops.append("R%d" % k)
            elif x < 0.72:
                ops.append("G%d" % r.choice([0, 1, 1, 2, 3]))
            elif x < 0.90:
                ops.append("K")
            elif x < 0.97:
                ops.append("A%d" % r.choice([1, 9, 10, 11, 30]))
            else:
                ops.append("X%d" % k)
        cases.append("%d ; %s" % (np_, " ; ".join(ops)))
    return cases
