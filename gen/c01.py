"""C01 case generator: leeching sessions against 1..4 scripted wire peers (see harness/c01.cc for the case format).

Aimed at the case split of the invariant proofs (coq/C01/Proofs*.v):
  * a second peer sending different data for a block led by another (dissimilar) with the differing byte before /
    at / after the leader's position; same data (follower catches up, leader change),
  * disconnect / reset of the leader with followers at various positions; of a follower; choke mid-queue,
  * all-corrupt pieces (update_failed, retry_most_popular, then do_all_failed), two corrupt peers agreeing /
    disagreeing, corrupt-then-honest retries, repeated failures beyond max_failed,
  * reset-then-honest: the trace of honest_piece_completes_after_reset (corrupt peer alone until do_all_failed, then the
    honest idle peer serves every block of the piece in turn, verdict, mark_completed, HAVE, done),
  * zero-length PIECE, wrong-length PIECE, unrequested blocks (wrong index / offset / length), answers out of order,
  * read segmentation (rc) of the library-side socket.
"""
import hashlib
import os
import random

BLOCK = 16384

# (plen, total, have)
LAYOUTS = [
    (2048, 2048, "0"),
    (2048, 5000, "000"),
    (16384, 16384, "0"),
    (16448, 16448, "0"),          # one piece, blocks 16384 + 64
    (16448, 20000, "00"),         # 2 blocks + 1 block
    (32800, 32800, "0"),          # 3 blocks
    (4096, 10000, "010"),         # piece 1 already on disk, others corrupt on disk (first byte flipped)
    (1500, 6000, "0000"),
]
SMALL = [0, 1, 7]
ONEBLOCK1 = [0, 2]


def npieces(plen, total):
    return (total + plen - 1) // plen


def header(lay, seed, rc, peers, pre=0):
    plen, total, have = lay
    return "plen=%d total=%d seed=%d have=%s rc=%d%s peers=%s" % (plen, total, seed, have, rc, " pre=%d" % pre if pre else "", ",".join(peers))


def content_byte(seed, g):
    x = (g + 1000003 * seed) & 0xffffffff
    return ((((x * 2654435761) & 0xffffffff) >> 24) ^ (x & 0xff)) & 0xff


def content(seed, off, n):
    return bytes(content_byte(seed, off + k) for k in range(n))


_NUL_CACHE = {}


def nul_digest_cases(start_seed, want, nulpos):
    """Pieces whose recorded SHA-1 has its first NUL byte at index nulpos, and hostile data (2..3 bytes replaced) whose SHA-1
    agrees with the recorded one up to and including that NUL but differs afterwards: a digest comparison that stops at
    a NUL (string comparison) accepts it. Layout: one piece of 2048 bytes. Returns [(content_seed, pos, hexbytes)]."""
    key = (start_seed, want, nulpos)
    if key in _NUL_CACHE:
        return _NUL_CACHE[key]
    out, s = [], start_seed
    while len(out) < want and s < start_seed + 200000:
        s += 1
        data = content(s, 0, 2048)
        dg = hashlib.sha1(data).digest()
        if dg.find(b"\0") != nulpos:
            continue
        pos = 5 + (s % 1000)
        found = None
        for v in range(1 << 24):
            rep = v.to_bytes(3, "big")
            if data[pos:pos + 3] == rep:
                continue
            d2 = hashlib.sha1(data[:pos] + rep + data[pos + 3:]).digest()
            if d2[:nulpos + 1] == dg[:nulpos + 1] and d2 != dg:
                found = rep
                break
        if found:
            out.append((s, pos, found.hex()))
    _NUL_CACHE[key] = out
    return out


def hand_cases():
    out = []
    L = LAYOUTS
    # honest downloads
    for lay in L:
        out.append((header(lay, 3, 0, ["0a"]), "F:30", "honest"))
    out.append((header(L[4], 4, 7, ["0a", "0a"]), "F:30", "honest"))
    out.append((header(L[5], 4, 1000, ["0a", "0a", "0a"]), "F:30", "honest"))
    # dissimilar: follower differs at start / middle / end of the block, leader at 100 / 9000 / one short of the end
    for v in (1, 2, 3):
        for n in (100, 9000, 16383):
            out.append((header(L[2], 5, 0, ["0a", "%da" % v]), "B:0:%d P:1 M:0:100000 W F:8" % n, "dissimilar"))
    # corrupt leader, honest follower (follower is the one declared dissimilar), then the piece fails
    for v in (1, 2):
        out.append((header(L[2], 5, 0, ["%da" % v, "0a"]), "B:0:9000 P:1 M:0:100000 W F:8", "dissimilar"))
    # same data: follower catches up and takes over, old leader finishes as follower / takes over again
    out.append((header(L[2], 5, 0, ["0a", "0a"]), "B:0:100 B:1:5000 M:0:100000 M:1:100000 W F:5", "leader-change"))
    out.append((header(L[2], 5, 0, ["0a", "0a"]), "B:0:100 B:1:5000 M:1:100000 M:0:100000 W F:5", "leader-change"))
    out.append((header(L[2], 5, 0, ["0a", "0a", "0a"]), "B:0:100 B:1:5000 B:2:7000 M:0:8000 M:1:100000 M:2:100000 M:0:100000 W F:5", "leader-change"))
    # leader disconnects, followers at various positions
    out.append((header(L[2], 5, 0, ["0a", "0a"]), "B:0:100 B:1:5000 X:1 M:0:100000 W F:5", "leader-disconnect"))
    out.append((header(L[2], 5, 0, ["0a", "0a", "0a"]), "B:0:6000 B:1:100 B:2:3000 X:0 M:1:100000 M:2:100000 W F:5", "leader-disconnect"))
    out.append((header(L[2], 5, 0, ["0a", "0a", "0a"]), "B:0:6000 B:1:3000 B:2:3000 R:0 M:2:100000 M:1:100000 W F:5", "leader-disconnect"))
    out.append((header(L[2], 5, 0, ["0a", "2a", "0a"]), "B:0:9000 B:1:8500 B:2:3000 X:0 M:2:100000 M:1:100000 W F:5", "leader-disconnect"))
    out.append((header(L[2], 5, 0, ["0a", "0a"]), "B:0:6000 X:0 F:6", "leader-disconnect"))
    out.append((header(L[2], 5, 0, ["0a", "1a"]), "B:0:6000 P:1 X:0 T:130 F:6", "leader-disconnect"))
    # all-corrupt pieces
    out.append((header(L[0], 6, 0, ["1a"]), "F:12", "all-corrupt"))
    out.append((header(L[0], 6, 0, ["1a", "0a"]), "P:0 W T:300 F:12", "all-corrupt"))
    out.append((header(L[0], 6, 0, ["1a", "1a", "0a"]), "P:0 W T:130 P:1 W T:130 F:12", "all-corrupt"))
    out.append((header(L[0], 6, 0, ["1a", "2a", "1a", "0a"]), "P:0 W T:130 P:1 W T:130 P:2 W T:130 F:12", "all-corrupt"))
    out.append((header(L[3], 6, 0, ["1a", "0a"]), "P:0 P:1 W T:300 F:6 T:300 F:6", "all-corrupt"))
    out.append((header(L[3], 6, 0, ["1e", "0a"]), "F:12", "all-corrupt"))
    out.append((header(L[5], 6, 0, ["1k1", "0a"]), "F:12", "all-corrupt"))
    out.append((header(L[1], 6, 0, ["1k1"]), "F:12", "corrupt-then-honest"))
    out.append((header(L[7], 6, 0, ["3a", "0a"]), "P:0 W P:0 W P:0 W P:0 W T:130 F:20", "max-failed"))
    out.append((header(L[7], 6, 0, ["3a", "3a", "0a"]), "P:0 P:1 W P:0 P:1 W P:0 W P:1 W T:130 F:20", "max-failed"))
    # honest_piece_completes_after_reset (coq/C01/ProofsLive.v): the corrupt peer alone supplies every block of a multi-block
    # piece until do_all_failed (the honest peer is choked meanwhile), then leaves; the honest, idle peer is asked for every
    # block again and completes the piece: [request, PIECE, data] per block, hash queue, verdict, mark_completed, HAVE, done
    for lay in (L[3], L[4], L[5]):
        out.append((header(lay, 6, 0, ["1a", "0a"]), "K:1 F:4 T:130 F:4 X:0 N:1 T:130 F:12", "reset-then-honest"))
    out.append((header(L[5], 6, 0, ["2a", "0a"]), "K:1 F:4 T:130 F:4 N:1 T:130 F:12", "reset-then-honest"))
    # malformed answers
    out.append((header(L[6], 6, 7, ["0a"]), "Z:0 S:0:5 F:3", "malformed"))
    out.append((header(L[1], 6, 0, ["0a", "0a"]), "Z:0 Z:1 T:130 F:9", "malformed"))
    out.append((header(L[1], 6, 0, ["0a", "0a"]), "S:0:2047 F:9", "malformed"))
    out.append((header(L[1], 6, 0, ["0a", "0a"]), "S:0:0 S:1:70000 F:9", "malformed"))
    out.append((header(L[1], 6, 0, ["0a", "0a"]), "U:0:1:0:2048 U:1:7:0:100 U:0:0:4:16 K:0 T:8 N:0 F:9", "unrequested"))
    out.append((header(L[1], 6, 0, ["0a", "0ai"]), "K:1 P:1 T:7 P:1 N:1 F:9", "choke"))
    out.append((header(L[4], 6, 0, ["0ai", "0a"]), "B:0:300 K:0 M:0:100000 P:0 T:70 N:0 F:9", "choke"))
    out.append((header(L[3], 6, 0, ["0a"]), "P:0:1 P:0 W F:5", "out-of-order"))
    # recorded digest with an early NUL byte + hostile data whose digest agrees up to that NUL
    for cs, pos, hx in nul_digest_cases(1000, 3, 0) + nul_digest_cases(5000, 1, 1):
        out.append((header(L[0], cs, 0, ["9x0_%d_%s" % (pos, hx), "0a"]), "P:0 W T:130 F:12", "nul-digest"))
        out.append((header(L[0], cs, 0, ["9x0_%d_%s" % (pos, hx)]), "F:6", "nul-digest"))
    # stale, longer files already in the download directory
    for lay, pre in ((L[1], 1), (L[4], 777), (L[0], 5000), (L[7], 1)):
        out.append((header(lay, 8, 0, ["0a"], pre), "F:30", "stale-files"))
    out.append((header(L[1], 8, 5, ["1k1", "0a"], 100), "F:30", "stale-files"))
    # a single sparse file > 4 GiB: pieces whose offset inside the file is >= 2^32 (and piece 0, where a 32-bit offset would land)
    out.append(("plen=1048576 total=4297064448 seed=7 have=- big=0,4096 rc=0 peers=0a", "F:40", "beyond-4GiB"))
    out.append(("plen=1048576 total=4297064448 seed=9 have=- big=4097 rc=0 peers=0a,0a", "B:0:100 P:1 M:0:100000 F:40", "beyond-4GiB"))
    return out


def rand_script(r, lay, npeers):
    plen, total, have = lay
    ops = []
    n = r.randint(3, 14)
    mid = [False] * npeers
    for _ in range(n):
        p = r.randrange(npeers)
        k = r.random()
        if mid[p]:
            if k < 0.7:
                ops.append("M:%d:%d" % (p, r.choice([1, 63, 64, 500, 4000, 16383, 100000])))
                if ops[-1].endswith("100000"):
                    mid[p] = False
            elif k < 0.85:
                ops.append(r.choice(["X:%d", "R:%d"]) % p)
                mid[p] = False
            else:
                ops.append("T:%d" % r.choice([1, 5, 31]))
            continue
        if k < 0.30:
            ops.append("P:%d" % p if r.random() < 0.8 else "P:%d:%d" % (p, r.randint(0, 2)))
        elif k < 0.55:
            ops.append("B:%d:%d" % (p, r.choice([0, 1, 31, 32, 63, 64, 100, 1000, 5000, 9000, 16383])))
            mid[p] = True
        elif k < 0.62:
            ops.append("Z:%d" % p)
        elif k < 0.66:
            ops.append("S:%d:%d" % (p, r.choice([1, 5, 2047, 16385, 70000])))
        elif k < 0.73:
            ops.append("U:%d:%d:%d:%d" % (p, r.randint(0, npieces(plen, total)), r.choice([0, 4, 16384, 32768]), r.choice([1, 16, 64, 2048, 16384])))
        elif k < 0.80:
            ops.append("K:%d" % p)
            if r.random() < 0.7:
                ops.append("T:%d" % r.choice([1, 5, 7, 20]))
                ops.append("N:%d" % p)
        elif k < 0.86:
            ops.append(r.choice(["X:%d", "R:%d"]) % p)
        elif k < 0.93:
            ops.append("W")
        else:
            ops.append("T:%d" % r.choice([1, 10, 31, 125]))
    ops.append("W")
    ops.append("F:12")
    return " ".join(ops)


def mix_script(r, npeers, roles):
    """Second stream: 3-4 peers with fixed roles (h honest, c corrupting, k choking, d disconnecting) interleaved block by
    block: partial blocks, take-overs, chokes with and without the 6 s timeout, disconnects mid-block, un-waited verdicts."""
    ops, mid = [], [False] * npeers
    gone = [False] * npeers
    for _ in range(r.randint(12, 30)):
        p = r.randrange(npeers)
        if gone[p]:
            continue
        role, k = roles[p], r.random()
        if mid[p]:
            if role == "d" and k < 0.35:
                ops.append(r.choice(["X:%d", "R:%d"]) % p); gone[p] = True; mid[p] = False
            elif k < 0.8:
                n = r.choice([1, 2, 63, 64, 65, 1000, 8000, 16383, 100000])
                ops.append("M:%d:%d" % (p, n))
                if n == 100000:
                    mid[p] = False
            else:
                ops.append("T:%d" % r.choice([1, 3, 31, 61]))
            continue
        if role == "k" and k < 0.3:
            ops.append("K:%d" % p)
            ops.append("T:%d" % r.choice([1, 5, 7, 65]))
            if r.random() < 0.8:
                ops.append("N:%d" % p)
        elif role == "d" and k < 0.12:
            ops.append(r.choice(["X:%d", "R:%d"]) % p); gone[p] = True
        elif k < 0.5:
            ops.append("B:%d:%d" % (p, r.choice([0, 1, 2, 63, 64, 100, 2047, 5000, 8192, 16383])))
            mid[p] = True
        elif k < 0.85:
            ops.append("P:%d" % p if r.random() < 0.85 else "P:%d:%d" % (p, r.randint(1, 2)))
        elif k < 0.9:
            ops.append(r.choice(["Z:%d" % p, "S:%d:%d" % (p, r.choice([1, 16385])), "U:%d:0:0:64" % p]))
        elif k < 0.96:
            ops.append("W")
        else:
            ops.append("T:%d" % r.choice([1, 31, 125]))
    ops += ["W", "F:14"]
    return " ".join(ops)


def mix_peers(r, npeers):
    roles = ["h", "c", r.choice(["k", "d"])] + [r.choice(["h", "c", "k", "d"]) for _ in range(npeers - 3)]
    r.shuffle(roles)
    modes = []
    for ro in roles:
        if ro == "c":
            modes.append("%d%s" % (r.randint(1, 9), r.choice(["a", "e", "o", "k1", "k2"])))
        else:
            modes.append("0a" + ("i" if ro == "k" and r.random() < 0.5 else ""))
    return roles, modes


def rand_peers(r, n):
    out = []
    for _ in range(n):
        k = r.random()
        if k < 0.5:
            m = "0a"
        elif k < 0.75:
            m = "%d%s" % (r.randint(1, 9), r.choice(["a", "e", "o"]))
        else:
            m = "%dk%d" % (r.randint(1, 9), r.randint(1, 3))
        if r.random() < 0.2:
            m += "i"
        out.append(m)
    return out


def corpus_cases():
    d = os.path.join(os.path.dirname(os.path.dirname(os.path.abspath(__file__))), "corpus", "C01")
    out = []
    if os.path.isdir(d):
        for f in sorted(os.listdir(d)):
            if f.endswith(".case") or (f.endswith(".case.pending") and os.environ.get("LTV_C01_PENDING") == "1"):
                for l in open(os.path.join(d, f)):
                    l = l.strip()
                    if l and not l.startswith("#"):
                        out.append(l)
    return out


def gen(seed, tier):
    r = random.Random(seed * 7919 + 101)
    cases, fam = [], {}
    for l in corpus_cases():
        cases.append(l)
        fam["corpus"] = fam.get("corpus", 0) + 1
    for h, ops, f in hand_cases():
        cases.append(h + " | " + ops)
        fam[f] = fam.get(f, 0) + 1
    nrand = 400 if tier == "quick" else 4000
    for i in range(nrand):
        small = r.random() < 0.6
        lay = LAYOUTS[r.choice(SMALL)] if small else LAYOUTS[r.randrange(len(LAYOUTS))]
        npeers = r.choice([1, 2, 2, 3, 3, 4])
        peers = rand_peers(r, npeers)
        if i % 3 == 0:
            peers[-1] = "0a"        # at least one honest peer: completion is expected
        rc = r.choice([0, 0, 0, 1, 5, 13, 64, 1000])
        cases.append(header(lay, r.randint(1, 50), rc, peers) + " | " + rand_script(r, lay, npeers))
        fam["random"] = fam.get("random", 0) + 1
    # second stream (thorough): 3-4 peers with mixed roles, every read segmentation in turn
    if tier != "quick":
        segs = [0, 1, 5, 13, 64, 100, 1000, 4096]
        for i in range(1600):
            lay = LAYOUTS[[2, 3, 4, 5, 0, 1, 6, 7][(i // 8) % 8]]
            npeers = 3 + (i % 2)
            roles, modes = mix_peers(r, npeers)
            cases.append(header(lay, r.randint(1, 60), segs[i % 8], modes) + " | " + mix_script(r, npeers, roles))
            fam["mix"] = fam.get("mix", 0) + 1
    # dissimilar sweep: leader position x differing byte position (block of 16384 or 2048)
    sweep = [(2, n, v) for n in ((1, 8191, 8192, 8193) if tier == "quick" else (1, 2, 100, 8190, 8191, 8192, 8193, 16382, 16383)) for v in (1, 2, 3)]
    for li, n, v in sweep:
        cases.append(header(LAYOUTS[li], 9, r.choice([0, 3, 100]), ["0a", "%da" % v, "0a"]) + " | " + "B:0:%d B:1:%d M:0:100000 M:1:100000 W F:8" % (n, max(0, n - 1)))
        fam["dissimilar-sweep"] = fam.get("dissimilar-sweep", 0) + 1
    seen, uniq = set(), []
    for c in cases:
        h = hashlib.sha1(c.encode()).digest()
        if h not in seen:
            seen.add(h)
            uniq.append(c)
    stats = {"families": fam, "layouts": len(LAYOUTS), "total": len(uniq)}
    return uniq, stats
