"""Constants of the upload path (C05) re-extracted from /repo on every run."""
ENTRIES = [
    ("c05_max_request_queue", "src/protocol/extensions.h", r"max_request_queue_size\s*=\s*(\d+)\s*;", "N"),
    ("c05_request_len_limit", "src/protocol/peer_connection_base.cc",
     r"upload_queue->size\(\) >= ProtocolExtension::max_request_queue_size \|\|\s*p\.length\(\) > (\(1 << \d+\))", "N"),
    ("c05_write_buffer_size", "src/protocol/protocol_base.h", r"using Buffer\s*=\s*ProtocolBuffer<(\d+)>;", "N"),
    ("c05_sizeof_piece_hdr", "src/protocol/protocol_base.h", r"sizeof_piece\s*=\s*(\d+);", "N"),
    ("c05_sizeof_choke", "src/protocol/protocol_base.h", r"sizeof_choke\s*=\s*(\d+);", "N"),
]
