"""Constants of the initial hash check (C09) re-extracted from /repo on every run."""
import json
import os


def _probe(key, default):
    """values measured on the compiled code by `harness c09 --probe` (written by props/c09.py before the Coq build)"""
    def conv(_m):
        p = os.path.join(os.path.dirname(os.path.dirname(os.path.abspath(__file__))), "build", "probe", "c09.json")
        try:
            return int(json.load(open(p))[key])
        except Exception:
            return default
    return conv


ENTRIES = [
    # HashTorrent::queue's throttle is a tuning choice the property leaves open: it is PROBED, not read from the source:
    # how many of 64 tiny pieces a fresh hash_check hands to the disk thread at once (64 = no limit in that range)
    ("c09_throttle_small", "src/data/hash_torrent.cc", r"(HashTorrent)", "N", _probe("throttle_small", 64)),
    ("c09_probe_pieces", "src/data/hash_torrent.cc", r"(HashTorrent)", "N", _probe("probe_pieces", 64)),
    # HashTorrent::start erases a completion/error timer left over from an earlier check (1) or not (0): behavioural probe
    ("c09_start_erases_delay", "src/data/hash_torrent.cc", r"(HashTorrent)", "N", _probe("start_erases_delay", 1)),
]
