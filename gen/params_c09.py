"""Constants of the initial hash check (C09) re-extracted from /repo on every run."""
ENTRIES = [
    # HashTorrent::queue throttle:  m_outstanding > 10 && m_outstanding * chunk_size > (128 << 20)
    ("c09_throttle_count", "src/data/hash_torrent.cc",
     r"if \(m_outstanding > (\d+) && m_outstanding \* m_chunk_list->chunk_size\(\) > \(\d+ << \d+\)\)", "N"),
    ("c09_throttle_bytes", "src/data/hash_torrent.cc",
     r"if \(m_outstanding > \d+ && m_outstanding \* m_chunk_list->chunk_size\(\) > (\(\d+ << \d+\))\)", "N"),
    # DownloadConstructor: piece length must be > (1 << 10) and <= (512 << 20)
    ("c09_piece_len_min_excl", "src/download/download_constructor.cc",
     r"if \(piece_length <= (\(1 << \d+\)) \|\| piece_length > \(\d+ << \d+\)\)", "N"),
    ("c09_piece_len_max", "src/download/download_constructor.cc",
     r"if \(piece_length <= \(1 << \d+\) \|\| piece_length > (\(\d+ << \d+\))\)", "N"),
    # HashTorrent::start erases a completion/error timer left over from an earlier check (1) or not (0)
    ("c09_start_erases_delay", "src/data/hash_torrent.cc",
     r"HashTorrent::start\(bool try_quick\) \{(?:(?!\n\}).)*?(erase\(&m_delay_checked\))(?:(?!\n\}).)*?queue\(try_quick\);", "N",
     lambda m: 1),
]
