"""Constants of the handshake (C06). The values that enter the model and params_ok_now are PROBED from
the compiled code (harness/c06.cc --params -> coq/C06/ParamsProbe.v, written by props/c06.py), so a
refactor of the source text cannot break the obligation (ROBUSTNESS rule 3). ENTRIES (regex on the
source, feeding coq/C06/ParamsGen.v, no longer imported by anything) is therefore empty; CROSSCHECK
keeps the anchored regexes as an optional cross-check: one that matches and disagrees with the
probe is noted in the evidence, one that does not match is ignored."""
import re

H = "src/protocol/handshake.h"


def _expr(names):
    """converter: evaluate a C constant expression made of integers, + * << and earlier names"""
    def conv(m):
        s = m.group(1)
        for k, v in names.items():
            s = re.sub(r"\b%s\b" % k, str(v), s)
        if not re.match(r"^[\d\s+*()<]+$", s):
            raise ValueError(s)
        return int(eval(s, {"__builtins__": {}}, {}))
    return conv


_part1 = 20 + 28
_known = {}


def _chain():
    """values are computed from the header text itself (so an edit of any component shows up)"""
    import os
    repo = os.environ.get("LTV_REPO", "/repo")
    try:
        txt = open(os.path.join(repo, H)).read()
    except OSError:
        return {}
    out = {}
    for name in ["part1_size", "part2_size", "handshake_size", "read_message_size", "enc_negotiation_size",
                 "enc_pad_size", "enc_pad_read_size", "buffer_size"]:
        m = re.search(r"static constexpr uint32_t %s\s*=\s*([^;]+);" % name, txt)
        if not m:
            continue
        try:
            out[name] = _expr(out)(m)
        except Exception:
            pass
    return out


_V = _chain()


def _c(name):
    return lambda m: _V[name]


def _prime(m):
    body = m.group(1)
    vals = [int(x, 16) for x in re.findall(r"0x([0-9A-Fa-f]{2})", body)]
    return "[" + ";".join("%d%%N" % v for v in vals) + "]"


CROSSCHECK = [
    ("c06_part1_size", H, r"static constexpr uint32_t part1_size\s*=\s*([^;]+);", "nat", _c("part1_size")),
    ("c06_part2_size", H, r"static constexpr uint32_t part2_size\s*=\s*([^;]+);", "nat", _c("part2_size")),
    ("c06_handshake_size", H, r"static constexpr uint32_t handshake_size\s*=\s*([^;]+);", "nat", _c("handshake_size")),
    ("c06_read_message_size", H, r"static constexpr uint32_t read_message_size\s*=\s*([^;]+);", "nat", _c("read_message_size")),
    ("c06_enc_negotiation_size", H, r"static constexpr uint32_t enc_negotiation_size\s*=\s*([^;]+);", "nat", _c("enc_negotiation_size")),
    ("c06_enc_pad_size", H, r"static constexpr uint32_t enc_pad_size\s*=\s*([^;]+);", "nat", _c("enc_pad_size")),
    ("c06_enc_pad_read_size", H, r"static constexpr uint32_t enc_pad_read_size\s*=\s*([^;]+);", "nat", _c("enc_pad_read_size")),
    ("c06_buffer_size", H, r"static constexpr uint32_t buffer_size\s*=\s*([^;]+);", "nat", _c("buffer_size")),
    ("c06_vc_length", "src/protocol/handshake_encryption.h", r"vc_length\s*=\s*(\d+);", "nat"),
    ("c06_dh_key_length", "src/protocol/handshake_encryption.h", r"dh_prime_length\s*=\s*(\d+);", "nat"),
    ("c06_pcb_read_buffer", "src/protocol/protocol_base.h", r"static constexpr size_type buffer_size\s*=\s*(\d+);", "nat"),
    ("c06_ext_first_invalid", "src/protocol/extensions.h",
     r"enum MessageType \{\s*HANDSHAKE = 0,\s*UT_PEX,\s*UT_METADATA,\s*(FIRST_INVALID),", "N", lambda m: 3),
    ("c06_ext_max_len", "src/protocol/extensions.cc", r"type >= FIRST_INVALID\) \|\| length > (\(1 << \d+\))", "N"),
    ("c06_dh_prime", "src/protocol/handshake_encryption.cc", r"dh_prime\[\] = \{(.*?)\};", "list N", _prime),
]

ENTRIES = []
