"""C14 case generators + python reference functions used by the property oracle.

Case lines (see ocaml/c14_driver.ml):
  AC <hex> | AC6 <hex> | AB <hex> | AN <tree> | PL <max> ops… | U <4|6> <other_tx> <event> (D <src> <hex>)* | H <event> <hex>
"""
import glob
import itertools
import os
import random
import socket
import struct

from gen import c07 as G7

hx = G7.hx
SYM_C, SYM_A = 0xC0000001, 0xA0000002
INFO_HASH = b"h" * 20


# ------------------------------------------------------------------ reference functions (oracle)

def ref_compact(b, rsz):
    """whole records, in order: list of (fam, ip_int, port)"""
    out = []
    for i in range(0, len(b) - len(b) % rsz, rsz):
        rec = b[i:i + rsz]
        out.append((4 if rsz == 6 else 6, int.from_bytes(rec[:-2], "big"), int.from_bytes(rec[-2:], "big")))
    return out


def ref_bencode_peers(b):
    out, i = [], 0
    while i + 8 <= len(b) and b[i:i + 2] == b"6:":
        out.append((4, int.from_bytes(b[i + 2:i + 6], "big"), int.from_bytes(b[i + 6:i + 8], "big")))
        i += 8
    return out


def ref_pton(s, strict_nul=True):
    """(fam, ip_int) or None — via the C library (independent of the Gallina pton model)."""
    if b"\0" in s:
        if strict_nul:
            return None
        s = s[:s.index(b"\0")]
    try:
        t = s.decode("ascii")
    except UnicodeDecodeError:
        return None
    for fam, af in ((4, socket.AF_INET), (6, socket.AF_INET6)):
        try:
            return fam, int.from_bytes(socket.inet_pton(af, t), "big")
        except (OSError, ValueError):
            pass
    return None


def ref_normal(tree, strict_nul=True):
    """tree: normalised python tree (list of entries)"""
    out = []
    for e in tree:
        if not (isinstance(e, tuple) and e[0] == "M"):
            continue
        d = dict(e[1])
        ip, port = d.get(b"ip"), d.get(b"port")
        if not isinstance(ip, bytes) or not isinstance(port, int) or isinstance(port, bool):
            continue
        if port <= 0 or port >= 65536:
            continue
        r = ref_pton(ip, strict_nul)
        if r is None or r[1] == 0:
            continue
        out.append((r[0], r[1], port))
    return out


def show_addr(a):
    return "%d.%0*x.%d" % (a[0], 8 if a[0] == 4 else 32, a[1], a[2])


def show_addrs(l):
    return ",".join(show_addr(a) for a in l) if l else "-"


def parse_addrs(s):
    if s == "-":
        return []
    out = []
    for t in s.split(","):
        f, ip, port = t.split(".")
        out.append((int(f), int(ip, 16), int(port)))
    return out


# ------------------------------------------------------------------ building blocks

def rb(r, n):
    return bytes(r.getrandbits(8) for _ in range(n))


SPECIAL4 = [bytes(4), b"\xff" * 4, b"\x7f\0\0\1", b"\x0a\0\0\1", b"\1\2\3\4", b"\0\0\0\1", b"\1\0\0\0"]
SPECIAL6 = [bytes(16), bytes(15) + b"\1", bytes(10) + b"\xff\xff\1\2\3\4", bytes(10) + b"\xff\xff\0\0\0\0", b"\xff" * 16,
            b"\x20\x01\x0d\xb8" + bytes(11) + b"\1", b"\xfe\x80" + bytes(13) + b"\2"]
PORTS = [0, 1, 80, 6881, 65535, 256, 255]


def rec4(r, pool=None):
    ip = r.choice(SPECIAL4) if r.random() < 0.4 else rb(r, 4)
    if pool is not None and r.random() < 0.6:
        ip = r.choice(pool)
    port = r.choice(PORTS) if r.random() < 0.5 else r.randrange(65536)
    return ip + struct.pack(">H", port)


def rec6(r, pool=None):
    ip = r.choice(SPECIAL6) if r.random() < 0.5 else rb(r, 16)
    if pool is not None and r.random() < 0.6:
        ip = r.choice(pool)
    port = r.choice(PORTS) if r.random() < 0.5 else r.randrange(65536)
    return ip + struct.pack(">H", port)


def compact4(r, n, extra=0, pool=None):
    return b"".join(rec4(r, pool) for _ in range(n)) + rb(r, extra)


def compact6(r, n, extra=0, pool=None):
    return b"".join(rec6(r, pool) for _ in range(n)) + rb(r, extra)


IP_STRINGS = [b"1.2.3.4", b"0.0.0.0", b"255.255.255.255", b"127.0.0.1", b"10.0.0.1", b"1.2.3.4\0x", b"\0", b"01.2.3.4", b"1.2.3",
              b"1.2.3.4.5", b"256.1.1.1", b" 1.2.3.4", b"1.2.3.4 ", b"", b"1.2.3.", b".1.2.3.4", b"1..2.3", b"1.2.3.04", b"1.2.3.0",
              b"0.0.0.1", b"00.0.0.0", b"1.2.3.4:80", b"1.2.3.256", b"1.2.3.255", b"1.2.3.2550", b"0x1.2.3.4", b"1.2.3.4a",
              b"::", b"::1", b"::ffff:1.2.3.4", b"::ffff:0.0.0.0", b"::1.2.3.4", b"::0.0.0.0", b"1::2::3", b"12345::", b"1:2:3:4:5:6:7:8",
              b"1:2:3:4:5:6:7:8:9", b"1:2:3:4:5:6:7::", b"::2:3:4:5:6:7:8", b"1:2:3:4:5:6:1.2.3.4", b"1:2:3:4:5:6:7:1.2.3.4",
              b"fe80::1%lo", b"[::1]", b"ABCD:ef01::", b":", b":::", b"::1:", b":1::", b"1:", b":1", b"0:0:0:0:0:0:0:0",
              b"0::0", b"::0", b"0::", b"1::", b"2001:db8::1", b"ffff:ffff:ffff:ffff:ffff:ffff:ffff:ffff", b"g::1", b"1:2:3:4:5:6:7",
              b"::1.2.3", b"::1.2.3.4.5", b"::01.2.3.4", b"1.2.3.4::", b"::ffff:1.2.3.4:5", b"1:2:3:4:5:6:7:8::", b"::1:2:3:4:5:6:7:8",
              b"1:2:3:4::5:6:7:8", b"1:2:3:4::6:7:8", b"00000::", b"0000::", b"::00001", b"::\0", b"1.2.3.4\0", b"::1\0zz", b"a.b.c.d",
              b"1:2:3:4:5:6:7:1.2.3.4", b"::1.2.3.4:1", b"1::1.2.3.4", b"1:2:3:4:5:1.2.3.4", b"1:2:3:4:5::1.2.3.4", b"1:2:3:4:5:6::1.2.3.4",
              b"::.1.2.3", b":.", b"1:.2.3.4.5", b"::1.", b"::1.2.3.4.", b"::ffff:256.1.1.1", b"1.2.3.4\xff", b"\xff\xfe"]
PORT_VALUES = [0, 1, 65535, 65536, -1, 6881, 80, 2 ** 31, 2 ** 32 + 80, -2 ** 63, 2 ** 63 - 1, 65534, 2, -65535, 131072 + 80]
PTON_ALPHA = b"0123456789abcdefABCDEF:.:.::%g \0"


def rand_ip_string(r):
    x = r.random()
    if x < 0.45:
        return r.choice(IP_STRINGS)
    if x < 0.6:
        return socket.inet_ntop(socket.AF_INET, rb(r, 4)).encode()
    if x < 0.75:
        b = bytearray(rb(r, 16))
        for i in range(0, 16, 2):
            if r.random() < 0.5:
                b[i] = b[i + 1] = 0
        return socket.inet_ntop(socket.AF_INET6, bytes(b)).encode()
    if x < 0.9:   # mutate a valid one
        s = bytearray(r.choice(IP_STRINGS[:60]) or b"1")
        for _ in range(r.randrange(1, 3)):
            k = r.randrange(3)
            p = r.randrange(len(s) + 1)
            c = r.choice(PTON_ALPHA)
            if k == 0 or not s:
                s.insert(p, c)
            elif k == 1:
                del s[min(p, len(s) - 1)]
            else:
                s[min(p, len(s) - 1)] = c
        return bytes(s)
    return bytes(r.choice(PTON_ALPHA) for _ in range(r.randrange(0, 12)))


def normal_entry(r, ip=None):
    x = r.random()
    ip = rand_ip_string(r) if ip is None else ip
    port = r.choice(PORT_VALUES) if r.random() < 0.55 else r.randrange(1, 65536)
    ents = [(b"ip", ip), (b"port", port)]
    if x < 0.62:
        pass
    elif x < 0.67:
        ents[0] = (b"ip", r.choice([5, [ip], ("M", [(b"ip", ip)])]))
    elif x < 0.72:
        ents[1] = (b"port", r.choice([b"6881", [6881], ("M", [])]))
    elif x < 0.76:
        del ents[r.randrange(2)]
    elif x < 0.80:
        return r.choice([7, b"1.2.3.4", [ip, port], []])
    elif x < 0.85:
        ents.append((b"peer id", rb(r, 20)))
        ents.insert(0, (b"a", 1))
    elif x < 0.88:
        ents = [(b"IP", ip), (b"port", port)]
    elif x < 0.91:
        ents = [(b"ip", b"9.9.9.9"), (b"port", 9)] + ents      # duplicate keys: last wins in std::map
    return ("M", ents)


def an_case(entries):
    return "AN " + G7.tree_line(list(entries))


# ------------------------------------------------------------------ UDP datagrams

def dgram(action, tx, payload=b"", length=None):
    b = struct.pack(">II", action & 0xffffffff, tx & 0xffffffff) + payload
    if length is not None:
        b = (b + bytes(max(0, length - len(b))))[:length]
    return b


def u_case(fam, other_tx, event, dgs):
    return "U %d %d %d" % (fam, other_tx, event) + "".join(" D %d %s" % (1 if ok else 0, hx(d)) for ok, d in dgs)


def connect_ok(conn=0x1122334455667788):
    return dgram(0, SYM_C, struct.pack(">Q", conn))


def announce_ok(r, fam, npeers, extra=0, interval=1800):
    body = struct.pack(">III", interval, r.randrange(1000), r.randrange(1000))
    body += compact4(r, npeers, extra) if fam == 4 else compact6(r, npeers, extra)
    return dgram(1, SYM_A, body)


def ref_udp(fam, other_tx, dgs):
    """BEP 15 reading of the datagram sequence: list of expected event classes."""
    phase, out = "C", []
    for ok, d in dgs:
        d = d[:512]
        cur = {"C": SYM_C, "A": SYM_A}.get(phase)
        if phase == "X" or not ok or len(d) < 8 or struct.unpack(">I", d[4:8])[0] != cur or cur == 0:
            out.append(("none",))
            continue
        action = struct.unpack(">I", d[0:4])[0]
        if action == 3:
            out.append(("reset",) if other_tx else ("fail",))
            phase = "X"
        elif phase == "C" and action == 0:
            if len(d) < 16 or d[8:16] == bytes(8):
                out.append(("reset",) if other_tx else ("fail",))
                phase = "X"
            else:
                out.append(("connected", d[8:16].hex()))
                phase = "A"
        elif phase == "A" and action == 1:
            if len(d) < 20:
                out.append(("reset",) if other_tx else ("fail",))
            else:
                peers = ref_compact(d[20:], 6 if fam == 4 else 18)
                out.append(("newpeers" if other_tx else "success", show_addrs(peers)))
            phase = "X"
        else:
            out.append(("none",))
    return out


# ------------------------------------------------------------------ HTTP bodies

def benc(t):
    return G7.ref_encode(G7.normalize(t))


def http_body(r):
    ents = []
    x = r.random()
    if r.random() < 0.8:
        k = r.random()
        if k < 0.45:
            ents.append((b"peers", compact4(r, r.randrange(0, 6), r.choice([0, 0, 1, 5]))))
        elif k < 0.8:
            ents.append((b"peers", [normal_entry(r) for _ in range(r.randrange(0, 5))]))
        else:
            ents.append((b"peers", r.choice([0, ("M", []), -1])))
    if r.random() < 0.35:
        ents.append((b"peers6", r.choice([compact6(r, r.randrange(0, 3), r.choice([0, 1, 17])), 5, [b"x"]])))
    for key, vals in ((b"interval", [0, 1, 599, 600, 601, 1800, 28799, 28800, 28801, 2 ** 40, -5, 2 ** 63 - 1, -2 ** 63, b"1800"]),
                      (b"min interval", [0, 299, 300, 301, 14399, 14400, 14401, -1, 2 ** 63 - 1, b"x"]),
                      (b"complete", [0, 5, -1, 2 ** 32 - 1, 2 ** 32, 2 ** 32 + 7, 2 ** 63 - 1, -2 ** 63, b"5"]),
                      (b"incomplete", [0, 9, -1, 2 ** 32 + 1, b""]),
                      (b"downloaded", [0, 3, -7, 2 ** 33 + 3, []]),
                      (b"tracker id", [b"", b"abc", b"\0\xff", 5])):
        if r.random() < 0.4:
            ents.append((key, r.choice(vals)))
    if r.random() < 0.12:
        ents.append((b"failure reason", r.choice([b"banned", b"", 5, [b"x"], b"a\"b"])))
    if r.random() < 0.15:
        ents.append((b"warning message", r.choice([b"be nice", b"torrent unregistered", b"xx not registered yy", b"torrent cannot be found",
                                                    b"Unregistered", 3, b"unregistere", b"", b"nnot registeredd"])))
    if r.random() < 0.25:
        stats = ("M", [(k, r.choice([0, 4, -2, 2 ** 32 + 5, b"x"])) for k in (b"complete", b"incomplete", b"downloaded") if r.random() < 0.7])
        files = r.choice([("M", [(INFO_HASH, stats)]), ("M", [(b"g" * 20, stats)]), ("M", [(INFO_HASH, 5)]), ("M", [(INFO_HASH[:19], stats)]),
                          [stats], 5, ("M", [])])
        ents.append((b"files", files))
    r.shuffle(ents)
    return benc(("M", ents))



# ------------------------------------------------------------------ DHT datagrams / PEX payloads

OWN_ID = bytes(range(0x31, 0x31 + 20))


def bstr(b):
    return b"%d:" % len(b) + b


def nest_value(kind, depth, leaf=b""):
    """a value nested exactly `depth` containers deep ('l' lists or 'd' dictionaries)"""
    if kind == "l":
        return b"l" * depth + leaf + b"e" * depth
    return b"d1:a" * (depth - 1) + b"d" + (b"1:a" + leaf if leaf else b"") + b"e" * depth


def bdepth(t):
    if isinstance(t, list):
        return 1 + max([bdepth(x) for x in t] or [0])
    if isinstance(t, tuple):
        return 1 + max([bdepth(v) for _, v in t[1]] or [0])
    return 0


def dht_msg(r, y=None, t=None, node_id=None, q=None, extra_top=(), extra_a=(), extra_r=(), both=False):
    """a DHT message as sorted raw bencode; every part may be overridden by raw bytes (already encoded)"""
    y = r.choice([b"q", b"q", b"q", b"r", b"r", b"e", b"x", b"", b"qq", None, 7]) if y is None else y
    t = r.choice([b"aa", b"aa", b"a", b"a", b"", rb(r, 20), rb(r, 21), rb(r, 66), rb(r, 67), rb(r, 80), None, 5]) if t is None else t
    node_id = r.choice([rb(r, 20), rb(r, 20), rb(r, 20), OWN_ID, rb(r, 19), rb(r, 25), OWN_ID + b"x", b"", None, 9]) if node_id is None else node_id
    q = r.choice([b"ping", b"ping", b"find_node", b"get_peers", b"announce_peer", b"bogus", None, 3]) if q is None else q

    def enc(v):
        if v is None:
            return None
        if isinstance(v, int):
            return b"i%de" % v
        return bstr(v)

    def dct(ents):
        ents = sorted((k, v) for k, v in ents if v is not None)
        return b"d" + b"".join(bstr(k) + v for k, v in ents) + b"e"

    a_ents = [(b"id", enc(node_id)), (b"target", enc(rb(r, 20)) if q == b"find_node" else None),
              (b"info_hash", enc(rb(r, 20)) if q in (b"get_peers", b"announce_peer") else None)] + list(extra_a)
    r_ents = [(b"id", enc(node_id))] + list(extra_r)
    top = [(b"q", enc(q)), (b"t", enc(t)), (b"y", enc(y))] + list(extra_top)
    if y in (b"q",) or both or r.random() < 0.15:
        top.append((b"a", dct(a_ents)))
    if y in (b"r",) or both or r.random() < 0.15:
        top.append((b"r", dct(r_ents)))
    if y == b"e" and r.random() < 0.7:
        top.append((b"e", b"l" + enc(r.choice([201, 203, -1])) + bstr(b"oops") + b"e"))
    return dct(top)


def dh_case(dgs, own=OWN_ID):
    return "DH " + own.hex() + "".join(" D %d %s" % (src, hx(d)) for src, d in dgs)


def ref_dht(own, d):
    """independent reading of one datagram: expected class or None when the reference does not decide.
    'none' for anything that is not a bencoded dictionary; for canonical dictionaries nested < 128 deep:
    ('e', 203) when t is missing, 'Q' for a well-formed query envelope."""
    d = d[:2048]
    try:
        tree, n = G7.ref_decode(d)
    except (G7.NoParse, RecursionError):
        return "none"
    if not (isinstance(tree, tuple) and tree[0] == "M"):
        return "none"
    try:
        if G7.ref_encode(G7.normalize(tree)) != d[:n] or bdepth(tree) >= 127:
            return None
    except RecursionError:
        return None
    m = dict(tree[1])
    t, y = m.get(b"t"), m.get(b"y")
    if not isinstance(t, bytes):
        return "e203"
    if len(t) > 20:
        return "e203"
    if not isinstance(y, bytes):
        return "e203"
    if y == b"q":
        a = m.get(b"a")
        aid = dict(a[1]).get(b"id") if isinstance(a, tuple) else None
        if isinstance(aid, bytes) and len(aid) >= 20 and aid[:20] != own:
            return "Q"
        return "e203"
    return None


def ref_values(d):
    """peers of r.values for canonical messages: the leading run of 6-byte strings; None = undecided"""
    try:
        tree, n = G7.ref_decode(d)
    except (G7.NoParse, RecursionError):
        return None
    if not (isinstance(tree, tuple) and tree[0] == "M") or G7.ref_encode(G7.normalize(tree)) != d[:n] or bdepth(tree) >= 127:
        return None
    rr = dict(tree[1]).get(b"r")
    if not isinstance(rr, tuple):
        return None
    v = dict(rr[1]).get(b"values")
    if not isinstance(v, list):
        return "~"
    out = []
    for x in v:
        if not (isinstance(x, bytes) and len(x) == 6):
            break
        out.append((4, int.from_bytes(x[:4], "big"), int.from_bytes(x[4:], "big")))
    return show_addrs(out)


def pex_payload(r, pool):
    ents = []
    x = r.random()
    if x < 0.75:
        ents.append((b"added", compact4(r, r.randrange(0, 7), r.choice([0, 0, 1, 5]), pool)))
    elif x < 0.85:
        ents.append((b"added", r.choice([5, [b"\1\2\3\4\0\1"], ("M", [])])))
    if r.random() < 0.5:
        ents.append((b"added.f", rb(r, r.randrange(0, 5))))
    if r.random() < 0.3:
        ents.append((b"dropped", compact4(r, r.randrange(0, 3))))
    if r.random() < 0.2:
        ents.append((r.choice([b"a", b"added6", b"zz", b"addedx", b"adde"]), r.choice([1, b"x", [1, [2]], ("M", [(b"k", 1)])])))
    return benc(("M", ents))


def ref_pex_added(p):
    try:
        tree, n = G7.ref_decode(p)
    except (G7.NoParse, RecursionError):
        return None
    if not (isinstance(tree, tuple) and tree[0] == "M"):
        return None
    v = dict(tree[1]).get(b"added")
    return v if isinstance(v, bytes) else b""


# ------------------------------------------------------------------ gen

def gen(seed, tier):
    r = random.Random(seed)
    thorough = tier == "thorough"
    cases, stats = [], {}

    def add(kind, line):
        cases.append(line)
        stats[kind] = stats.get(kind, 0) + 1

    here = os.path.dirname(os.path.dirname(os.path.abspath(__file__)))
    for f in sorted(glob.glob(os.path.join(here, "corpus", "C14", "*.case"))):
        for l in open(f):
            l = l.strip()
            if l and not l.startswith("#"):
                add("corpus", l)

    # ---- compact strings: every length 0..N (every residue mod 6 / mod 18), specials, random
    for n in range(0, 64 if not thorough else 400):
        add("AC-len", "AC " + hx(rb(r, n)))
        add("AC6-len", "AC6 " + hx(rb(r, n)))
    for k in (1, 2, 7, 50, 100, 333):
        for d in (-1, 0, 1, 5):
            add("AC-boundary", "AC " + hx(compact4(r, k)[:6 * k + d] + rb(r, max(0, d))))
            add("AC6-boundary", "AC6 " + hx(compact6(r, k)[:18 * k + d] + rb(r, max(0, d))))
    for ip in SPECIAL4:
        for p in PORTS:
            add("AC-special", "AC " + hx(ip + struct.pack(">H", p)))
    for ip in SPECIAL6:
        for p in PORTS:
            add("AC6-special", "AC6 " + hx(ip + struct.pack(">H", p)))
    for _ in range(200 if not thorough else 3000):
        add("AC-rand", "AC " + hx(compact4(r, r.randrange(0, 12), r.randrange(0, 6))))
        add("AC6-rand", "AC6 " + hx(compact6(r, r.randrange(0, 5), r.randrange(0, 18))))

    # ---- DHT "6:" lists
    for _ in range(300 if not thorough else 4000):
        n = r.randrange(0, 6)
        b = b"".join(b"6:" + rec4(r) for _ in range(n))
        x = r.random()
        if x < 0.3:
            b = b[:r.randrange(len(b) + 1)]
        elif x < 0.6 and b:
            p = r.randrange(len(b))
            b = b[:p] + bytes([r.choice(b"6:5718e\0")]) + b[p + 1:]
        elif x < 0.7:
            b += r.choice([b"18:" + rec6(r), b"6", b"6:", b"6:123456", b"6:1234567", b"e"])
        add("AB", "AB " + hx(b))
    for n in range(0, 26):
        add("AB-len", "AB " + hx((b"6:" + rec4(r)) * 4)[:4 + 2 * n] if n else "AB -")

    # ---- dictionary-form peer lists
    for ip in IP_STRINGS:
        add("AN-ip", an_case([("M", [(b"ip", ip), (b"port", 6881)])]))
    for p in PORT_VALUES:
        add("AN-port", an_case([("M", [(b"ip", b"1.2.3.4"), (b"port", p)]), ("M", [(b"ip", b"::1"), (b"port", p)])]))
    for _ in range(500 if not thorough else 6000):
        add("AN-rand", an_case([normal_entry(r) for _ in range(r.randrange(0, 9))]))
    for _ in range(300 if not thorough else 6000):   # inet_pton stress: 12 strings per case
        add("AN-pton", an_case([("M", [(b"ip", rand_ip_string(r)), (b"port", 1 + i)]) for i in range(12)]))
    if thorough:   # exhaustive small scope for the inet_pton models: all strings of length <= 6 over {1,0,:,.,f}
        batch = []
        for n in range(0, 7):
            for t in itertools.product(b"10:.f", repeat=n):
                batch.append(("M", [(b"ip", bytes(t)), (b"port", 1 + len(batch))]))
                if len(batch) == 40:
                    add("AN-pton-exhaustive", an_case(batch))
                    batch = []
        if batch:
            add("AN-pton-exhaustive", an_case(batch))

    # ---- PeerList pipeline
    for _ in range(500 if not thorough else 6000):
        pool4 = [rb(r, 4) for _ in range(3)] + SPECIAL4[:3]
        pool6 = [rb(r, 16) for _ in range(2)] + SPECIAL6[:3]
        mx = r.choice([0, 1, 2, 3, 4, 5, 8, 1000])
        ops = []
        for _ in range(r.randrange(1, 5)):
            k = r.choice("TTTXXBR")
            c4 = compact4(r, r.randrange(0, 7), r.choice([0, 0, 3]), pool4)
            c6 = compact6(r, r.randrange(0, 3), r.choice([0, 0, 7]), pool6) if r.random() < 0.4 else b""
            ops.append("X " + hx(c4) if k == "X" else "%s %s %s" % (k, hx(c4), hx(c6)))
        add("PL", "PL %d " % mx + " ".join(ops))
    add("PL-hand", "PL 1000 T " + hx(bytes(4) + b"\x1a\xe1") + " -")                  # 0.0.0.0:6881
    add("PL-hand", "PL 1000 T - " + hx(bytes(16) + b"\x1a\xe1"))                      # [::]:6881
    add("PL-hand", "PL 1000 X " + hx(b"\1\2\3\4\0\0" + b"\1\2\3\4\0\1" + b"\1\2\3\4\0\1"))
    big = b"".join(struct.pack(">IH", 0x0a000000 + i, 1 + i % 65535) for i in range(1100))
    add("PL-hand", "PL 1000 T " + hx(big) + " -")
    add("PL-hand", "PL 1000 T " + hx(big[:600 * 6]) + " - X " + hx(big[500 * 6:]))

    # ---- UDP: exhaustive grid over (family, phase, length 0..24, action, txid class, source)
    txs = {"C": [SYM_C, SYM_A, 0, 0x01020304], "A": [SYM_A, SYM_C, 0, 0x01020304]}
    for fam in (4, 6):
        for phase in "CA":
            for length in range(0, 25):
                for action in (0, 1, 2, 3, 4, 0xffffffff):
                    for tx in txs[phase]:
                        for ok in (True, False):
                            if not ok and (length % 4 or action > 3):
                                continue
                            d = dgram(action, tx, rb(r, 16), length)
                            pre = [(True, connect_ok())] if phase == "A" else []
                            post = [(True, connect_ok() if phase == "C" else announce_ok(r, fam, 2))]
                            add("U-grid", u_case(fam, r.choice([0, 0, 5]), r.randrange(0, 4), pre + [(ok, d)] + post))
    for _ in range(300 if not thorough else 4000):
        fam = r.choice([4, 6])
        dgs = []
        for _ in range(r.randrange(1, 6)):
            x = r.random()
            if x < 0.3:
                d = connect_ok(r.choice([0, 1, 2 ** 64 - 1, r.getrandbits(64)]))
            elif x < 0.6:
                d = announce_ok(r, fam, r.randrange(0, 5), r.choice([0, 0, 1, 5, 17]), r.choice([0, 599, 600, 1800, 28800, 28801, 2 ** 32 - 1]))
            elif x < 0.7:
                d = dgram(3, r.choice([SYM_C, SYM_A]), r.choice([b"", b"bad", rb(r, 30)]))
            elif x < 0.8:
                d = dgram(r.randrange(5), r.choice([SYM_C, SYM_A, 0, r.getrandbits(32)]), rb(r, r.randrange(0, 40)))
            else:
                d = rb(r, r.randrange(0, 30))
            if r.random() < 0.15:
                d = d[:r.randrange(len(d) + 1)]
            dgs.append((r.random() < 0.85, d))
        add("U-rand", u_case(fam, r.choice([0, 0, 7]), r.randrange(0, 4), dgs))
    for fam in (4, 6):   # datagrams at and beyond the 512-byte receive buffer
        rsz = 6 if fam == 4 else 18
        for total in (510, 511, 512, 513, 518, 530, 600, 20 + rsz * ((512 - 20) // rsz), 20 + rsz * ((512 - 20) // rsz + 1)):
            body = struct.pack(">III", 1800, 1, 2) + rb(r, total - 20)
            add("U-big", u_case(fam, 0, 2, [(True, connect_ok()), (True, dgram(1, SYM_A, body))]))

    # ---- HTTP bodies
    for ev in range(0, 5):
        for body in (b"", b"de", b"le", b"i1e", b"0:", b"d", b"d5:peers", b"d5:peers0:e", b"d5:peersi0ee", b"d5:peerslee", b"d5:peersdee",
                     b"d6:peers60:e", b"d6:peers6i0ee", b"d14:failure reason3:bade", b"d14:failure reasoni1ee", b" d5:peers0:e",
                     b"d5:peers0:ejunk", b"d5:filesd20:" + INFO_HASH + b"d8:completei1eeee", b"d5:filesdee", b"d5:filesi1ee",
                     b"d15:warning message12:unregisterede", b"d15:warning message3:hey5:peers0:e", b"<html>error</html>", b"\0\0\0"):
            add("H-hand", "H %d %s" % (ev, hx(body)))
    for _ in range(700 if not thorough else 8000):
        body = http_body(r)
        x = r.random()
        if x < 0.12:
            body = body[:r.randrange(len(body) + 1)]
        elif x < 0.2 and body:
            p = r.randrange(len(body))
            body = body[:p] + bytes([r.choice(b"dlei:0123456789-\0 ")]) + body[p + 1:]
        elif x < 0.23:
            body += rb(r, 3)
        elif x < 0.25:
            body = rb(r, r.randrange(0, 20))
        add("H-rand", "H %d %s" % (r.choice([0, 1, 2, 2, 2, 3, 4]), hx(body)))
    b0 = benc(("M", [(b"interval", 1800), (b"peers", compact4(r, 2)), (b"tracker id", b"t")]))
    for i in range(len(b0) + 1):
        add("H-prefix", "H 2 " + hx(b0[:i]))
    # ---- DHT datagrams through the real DhtServer (envelope / type checks from the raw bytes)
    ping = dht_msg(r, y=b"q", t=b"aa", node_id=b"\x22" * 20, q=b"ping")
    hand = [b"", b"d", b"de", b"le", b"i1e", b"4:spam", b"hello", ping, ping + b"junk", ping[:-1], b"d1:t2:aae", b"d1:y1:qe",
            b"d1:t2:aa1:y1:re", b"d1:t1:a1:y1:re", b"d1:t1:a1:y1:ee", b"d1:t2:aa1:y1:ee", b"d1:t1:a1:y1:xe", b"d1:t1:a1:y2:qqe",
            b"d1:t1:a1:y0:e", b"d1:ti1e1:y1:qe", b"d1:t1:a1:yi1ee", b"d1:y1:q1:t2:aae", b"d1:t21:" + b"t" * 21 + b"e", b"d1:t67:" + b"t" * 67 + b"e",
            b"d1:rd2:id20:" + OWN_ID + b"e1:t1:a1:y1:re", b"d1:rd2:id19:" + OWN_ID[:19] + b"e1:t1:a1:y1:re", b"d1:rd2:idi5ee1:t1:a1:y1:re",
            b"d1:ad2:id20:" + OWN_ID + b"e1:q4:ping1:t2:aa1:y1:qe", b"d1:ad2:id20:" + b"\x22" * 20 + b"e1:t2:aa1:y1:qe",
            b"d1:eli201e4:oopse1:t1:a1:y1:ee", b"d1:eli201e4:oopse1:t2:ab1:y1:ee", b"d1:v4:abcd1:t1:a1:y1:qe", b"\0" * 40, b"d" * 300, b"l" * 300]
    for d in hand:
        add("DH-hand", dh_case([(2, d)]))
    for i in range(len(ping) + 1):
        add("DH-prefix", dh_case([(2, ping[:i])]))
    for _ in range(400 if not thorough else 5000):
        dgs = []
        for _ in range(r.randrange(1, 4)):
            extra_top, extra_a, extra_r = [], [], []
            if r.random() < 0.25:
                extra_top.append((r.choice([b"v", b"x", b"zz", b"ip", b"b"]), r.choice([bstr(b"LT01"), b"i5e", b"l1:ae", b"d1:k1:ve", nest_value("l", r.randrange(1, 6))])))
            if r.random() < 0.2:
                extra_r.append((b"values", b"l" + b"".join(b"6:" + rec4(r) for _ in range(r.randrange(0, 4))) + b"e"))
            if r.random() < 0.2:
                extra_r.append((b"nodes", bstr(rb(r, r.randrange(0, 60)))))
            if r.random() < 0.1:
                extra_a.append((b"port", r.choice([b"i6881e", b"i0e", b"1:x"])))
            d = dht_msg(r, extra_top=extra_top, extra_a=extra_a, extra_r=extra_r, both=r.random() < 0.1)
            x = r.random()
            if x < 0.1:
                d = d[:r.randrange(len(d) + 1)]
            elif x < 0.2:
                p = r.randrange(len(d))
                d = d[:p] + bytes([r.choice(b"dlei:0123456789-\0qrt")]) + d[p + 1:]
            elif x < 0.23:
                d = rb(r, r.randrange(0, 40))
            elif x < 0.26:
                d += rb(r, 5)
            dgs.append((r.randrange(2, 6), d))
        add("DH-rand", dh_case(dgs))
    # values / unknown keys / raw keys nested around the 128-entry stack of the skip reader, in front of a well-formed ping
    for depth in (1, 2, 64, 125, 126, 127, 128, 129, 130, 200):
        for kind in "ld":
            nv = nest_value(kind, depth)
            for where in ("values", "unknown", "v", "a-unknown", "e", "nodes"):
                ex = dict(extra_top=[], extra_a=[], extra_r=[])
                if where == "values":
                    ex["extra_r"] = [(b"values", nv)]
                elif where == "nodes":
                    ex["extra_r"] = [(b"nodes", nv)]
                elif where == "unknown":
                    ex["extra_top"] = [(b"x", nv)]
                elif where == "v":
                    ex["extra_top"] = [(b"v", nv)]
                elif where == "e":
                    ex["extra_top"] = [(b"e", b"l" + nv + b"e")]
                else:
                    ex["extra_a"] = [(b"zz", nv)]
                add("DH-nest", dh_case([(2, dht_msg(r, y=b"q", t=b"aa", node_id=b"\x22" * 20, q=b"ping", both=True, **ex))]))
                add("DV-nest", "DV " + hx(dht_msg(r, y=b"r", t=b"a", node_id=b"\x22" * 20, q=3, both=True, **ex)))
    for total in (2040, 2047, 2048, 2049, 2100, 3000):   # at and beyond the 2048-byte receive buffer
        pad = total - len(dht_msg(r, y=b"q", t=b"aa", node_id=b"\x22" * 20, q=b"ping", extra_top=[(b"x", bstr(b""))])) - 3
        add("DH-big", dh_case([(2, dht_msg(r, y=b"q", t=b"aa", node_id=b"\x22" * 20, q=b"ping", extra_top=[(b"x", bstr(b"p" * pad))]))]))
    # ---- what a matched reply hands to the peer / node parsers
    for _ in range(300 if not thorough else 4000):
        n = r.randrange(0, 6)
        vals = [b"6:" + rec4(r) for _ in range(n)]
        x = r.random()
        if x < 0.3 and vals:
            vals[r.randrange(len(vals))] = r.choice([b"18:" + rec6(r), b"5:abcde", b"7:abcdefg", b"i5e", b"le", b"06:abcdef", b"0:"])
        ex_r = []
        if r.random() < 0.85:
            ex_r.append((b"values", r.choice([b"l" + b"".join(vals) + b"e"] * 6 + [b"6:abcdef", b"i1e", b"de"])))
        if r.random() < 0.6:
            ex_r.append((b"nodes", r.choice([bstr(rb(r, r.randrange(0, 90))), bstr(rb(r, 26 * r.randrange(0, 4))), b"i5e", b"le"])))
        d = dht_msg(r, y=b"r", t=b"a", node_id=rb(r, 20), q=3, extra_r=ex_r)
        if r.random() < 0.1:
            d = d[:r.randrange(len(d) + 1)]
        add("DV", "DV " + hx(d))
    # ---- ut_pex from the raw extension payload
    for _ in range(300 if not thorough else 4000):
        pool4 = [rb(r, 4) for _ in range(3)] + SPECIAL4[:3]
        ps = []
        for _ in range(r.randrange(1, 4)):
            p = pex_payload(r, pool4)
            x = r.random()
            if x < 0.1:
                p = p[:r.randrange(len(p) + 1)]
            elif x < 0.15:
                p = rb(r, r.randrange(0, 12))
            ps.append(hx(p))
        add("PX", "PX %d " % r.choice([0, 1, 2, 3, 5, 1000]) + " ".join(ps))
    for depth in (126, 127, 128, 129):
        add("PX-nest", "PX 10 " + hx(b"d1:a" + nest_value("l", depth) + b"5:added6:\1\2\3\4\0\x50e"))
        add("PX-nest", "PX 10 " + hx(b"d5:added" + nest_value("d", depth) + b"e") + " " + hx(b"d5:added6:\1\2\3\4\0\x50e"))
    # ---- PeerList with PeerInfo entries: the existing-PeerInfo branch of insert_available
    NOW = 400 * 86400
    for _ in range(400 if not thorough else 5000):
        pool4 = [rb(r, 4) for _ in range(3)] + [b"\x7f\0\0\1", b"\1\2\3\4"]
        pool6 = [rb(r, 16) for _ in range(2)] + SPECIAL6[1:3]
        now = r.choice([NOW, NOW, NOW, 2 ** 32 + 100, 2 ** 32 - 1, 700])
        ops = []
        known = []
        for _ in range(r.randrange(1, 4)):          # some known peers first
            if r.random() < 0.75:
                ip = r.choice(pool4)
                rec = ip + struct.pack(">H", r.choice([0, 0, 6881, 80, 1]))
            else:
                ip = r.choice(pool6)
                rec = ip + struct.pack(">H", r.choice([0, 6881]))
            ops.append("I %s %d" % (hx(rec), r.choice([0, 0, 1])))
            known.append(ip)
        for _ in range(r.randrange(2, 7)):
            x = r.random()
            if x < 0.3 and known:
                ip = r.choice(known)
                lh = r.choice([0, now % 2 ** 32, (now - 599) % 2 ** 32, (now - 600) % 2 ** 32, (now - 601) % 2 ** 32,
                               2 ** 32 - 1, 2 ** 32 - 600, 2 ** 32 - 601, (now + 5) % 2 ** 32])
                ops.append("S %s %d %d" % (ip.hex(), r.choice([0, 0, 1]), lh))
            elif x < 0.38:
                ops.append("N %d" % r.choice([now, now + 600, now + 601, now + 599, 2 ** 32 + 7, 5]))
            elif x < 0.45:
                ip = r.choice(pool4)
                ops.append("I %s %d" % (hx(ip + struct.pack(">H", r.choice([0, 6881, 2]))), r.choice([0, 1])))
                known.append(ip)
            else:
                k = r.choice("TTTXBR")
                c4 = compact4(r, r.randrange(0, 7), r.choice([0, 0, 3]), pool4)
                c6 = compact6(r, r.randrange(0, 3), r.choice([0, 0, 7]), pool6) if r.random() < 0.4 else b""
                ops.append("X " + hx(c4) if k == "X" else "%s %s %s" % (k, hx(c4), hx(c6)))
        add("PI", "PI %d %d " % (r.choice([1, 2, 3, 5, 8, 1000, 1000]), now) + " ".join(ops))
    # ---- TrackerHttp with a second address family pending: the real send_event(), then up to two replies
    okb = benc(("M", [(b"interval", 1800), (b"peers", compact4(r, 2))]))
    for ev in range(0, 4):
        for b1 in (okb, b"xx", b"d14:failure reason3:bade", b"de", b"d5:peers0:e", b""):
            for b2 in (okb, b"le", b"d14:failure reasoni1ee", b"de", None):
                add("H2-hand", "H2 %d %s %s" % (ev, hx(b1), hx(b2) if b2 is not None else "~"))
    for _ in range(300 if not thorough else 4000):
        bs = []
        for _ in range(2):
            body = http_body(r)
            x = r.random()
            if x < 0.2:
                body = body[:r.randrange(len(body) + 1)]
            elif x < 0.3:
                body = rb(r, r.randrange(0, 12))
            bs.append(hx(body))
        if r.random() < 0.15:
            bs[1] = "~"
        add("H2-rand", "H2 %d %s %s" % (r.randrange(0, 4), bs[0], bs[1]))
    # ---- a find_node reply matched to its transaction (real DhtServer with an outstanding search): own id, the
    #      responder's id, duplicates and partial records in the compact `nodes` string
    def near(base, r_):
        b = bytearray(base)
        for _ in range(r_.randrange(1, 3)):
            b[r_.choice([0, 0, 1, 19])] ^= 1 << r_.randrange(8)
        return bytes(b)
    for _ in range(250 if not thorough else 3000):
        target = rb(r, 20)
        resp = near(target, r) if r.random() < 0.5 else rb(r, 20)
        own = OWN_ID if r.random() < 0.5 else near(target, r)
        if resp == own:
            resp = rb(r, 20)
        toks = []
        pool = [near(target, r) for _ in range(4)] + [rb(r, 20) for _ in range(2)]
        for _ in range(r.randrange(0, 8)):
            x = r.random()
            nid = own if x < 0.25 else resp if x < 0.32 else r.choice(pool)
            toks.append("R%s:%d" % (nid.hex(), r.randrange(3, 9)))
        if r.random() < 0.3:
            toks.append("X" + rb(r, r.randrange(1, 26)).hex())
        if r.random() < 0.06 or not toks:
            toks = ["~"] if r.random() < 0.5 or not toks else toks
        x = r.random()
        modes = ("m", "m", "s") if x < 0.8 else r.choice([("x", "m", "s"), ("m", "x", "s"), ("m", "m", "o")])
        add("DF", "DF %s %s %s %s %s %s %s %s" % (own.hex(), target.hex(), r.choice("FFA"), resp.hex(), modes[0], modes[1], modes[2], " ".join(toks)))
    for kind in "FA":   # the own id alone / first / last / twice
        for toks in (["R%s:3" % OWN_ID.hex()], ["R%s:3" % OWN_ID.hex(), "R%s:4" % (b"\x70" * 20).hex()],
                     ["R%s:4" % (b"\x70" * 20).hex(), "R%s:3" % OWN_ID.hex()], ["R%s:3" % OWN_ID.hex(), "R%s:5" % OWN_ID.hex()]):
            add("DF-own", "DF %s %s %s %s m m s %s" % (OWN_ID.hex(), (b"\x77" * 20).hex(), kind, (b"\x22" * 20).hex(), " ".join(toks)))
    # ---- a whole find_node search driven by the real DhtServer: several replies, own id offered again and again
    for _ in range(250 if not thorough else 3000):
        target = rb(r, 20)
        ids = []
        while len(ids) < 7:
            c = near(target, r) if r.random() < 0.6 else rb(r, 20)
            if c not in ids:
                ids.append(c)
        own = OWN_ID if r.random() < 0.5 else near(target, r)
        if own in ids:
            own = OWN_ID
        kof = {c: 2 + j for j, c in enumerate(ids)}
        kof[own] = 9
        ninit = r.randrange(1, 5)
        toks = ["I%s:%d" % (c.hex(), kof[c]) for c in ids[:ninit]]
        named = list(ids[:ninit])
        for _ in range(r.randrange(1, 8)):
            resp = r.choice(named) if r.random() < 0.9 else r.choice(ids)
            toks.append("E%s:%d" % (resp.hex(), kof[resp]))
            for _ in range(r.randrange(0, 6)):
                c = own if r.random() < 0.25 else r.choice(ids)
                toks.append("R%s:%d" % (c.hex(), kof[c]))
                if c != own and c not in named:
                    named.append(c)
            if r.random() < 0.2:
                toks.append("X" + rb(r, r.randrange(1, 26)).hex())
        add("DS", "DS %s %s %s" % (own.hex(), target.hex(), " ".join(toks)))
    # ---- UDP tracker whose host name is still being resolved: nothing may be accepted, whatever sender / id / shape
    pend = []
    for fam in (4, 6):
        for length in (0, 7, 8, 15, 16, 17, 20, 26, 98):
            for action in (0, 1, 3):
                for tx in (SYM_C, 0x01020304):
                    for ok in (True, False):
                        pend.append((fam, ok, dgram(action, tx, struct.pack(">Q", 0x1122334455667788) + rb(r, 12), length)))
    r.shuffle(pend)
    for fam in (4, 6):
        mine = [(ok, d) for f, ok, d in pend if f == fam]
        for j in range(0, len(mine), 6):
            add("UP", "UP %d %d" % (fam, r.randrange(0, 4)) + "".join(" D %d %s" % (1 if ok else 0, hx(d)) for ok, d in mine[j:j + 6]))
    # ---- several announces on one TrackerHttp object with a change of the address-family configuration in between
    okb2 = benc(("M", [(b"interval", 1800), (b"peers", compact4(r, 1))]))
    pool = [okb, okb2, b"<html>503</html>", b"d14:failure reason3:bade", b"", b"de", b"i1e"]
    for cfgs in (("b", "4"), ("b", "6"), ("b", "b"), ("4", "b"), ("b", "n", "4"), ("6", "4"), ("b", "4", "b")):
        for first in (okb, b"xx"):
            for last in (b"<html>503</html>", okb2, b"d14:failure reason3:bade"):
                anns = []
                for j, c in enumerate(cfgs):
                    b1 = first if j == 0 else last if j == len(cfgs) - 1 else r.choice(pool)
                    b2 = (first if j == 0 else r.choice(pool)) if c == "b" else None
                    anns.append("A %s %s %s" % (c, hx(b1), hx(b2) if b2 is not None else "~"))
                add("H3-hand", "H3 2 " + " ".join(anns))
    for _ in range(150 if not thorough else 2000):
        anns = []
        for _ in range(r.randrange(2, 4)):
            c = r.choice("bb446n")
            bs = [r.choice(pool) if r.random() < 0.7 else http_body(r) for _ in range(2)]
            anns.append("A %s %s %s" % (c, hx(bs[0]), hx(bs[1]) if r.random() < 0.85 else "~"))
        add("H3", "H3 %d " % r.randrange(0, 4) + " ".join(anns))
    return cases, stats
