"""C12 case generators. A case is one line: ops separated by ','.

  I l k | E l k | Q l k | D l k | U l k n | V l n | T dt | A dt | R l v | S | X l k want
  l: 0 = root list, i>0 = i-th slave;  k: node id;  T: advance dt us and call receive_tick();
  A: advance only;  R: set_max_rate;  S: create_slave;  X: one consumer step (node_quota, then
  node_deactivate on 0 or node_used(min(quota, want))).

Streams: 'valid' (only what a client + PeerConnectionBase can do: I E X V T A R S with ticks only
while the root is enabled and >= 90 ms apart), 'raw' (any op, any number: internal_error paths,
uint32/uint64 wrap), a hand list, and (thorough) an exhaustive small scope.
`static_valid(case)` is the python mirror of the static part of Coq's valid_op."""
import itertools
import os
import random

UINT_MAX = 2**32 - 1
TABLE = [8 << 10, 32 << 10, 64 << 10, 128 << 10, 512 << 10, 2048 << 10]
QMAX = 2**26          # per-tick quota bound of the theorems
WANT_MAX = 2**28      # Rate::insert bound
RATES = sorted(set([1, 2, 100, 1000, 1023, 1024, 5000] + [t + d for t in TABLE for d in (-1, 0, 1)] +
                   [3 << 20, 10 << 20, 40 << 20]))
# every rate a generated case can pass to set_max_rate comes from a fixed universe, so that the chunk-size
# policy of the code under test can be probed for exactly these values (props/c12.py -> coq/C12/PolicyGen.v)
_rr = random.Random(20261001)
ODD_RATES = sorted(set(_rr.randrange(1, 1 << 22) for _ in range(48)) | set(_rr.randrange(1, 600) for _ in range(8)))
BIG_RATES = [2**31 - 1, 2**31, 2**32 - 2]
DTS = [90000, 90001, 100000, 100001, 250000, 500000, 999999, 1000000, 1000001, 1500000, 2000000, 3000000]
WANTS = [1, 2, 100, 511, 512, 513, 1023, 1024, 2047, 2048, 4096, 16383, 16384, 16385, 65536, 131072]


def static_valid(case):
    """True iff the op list is one a client can produce (mirror of Coq valid_op's static part)."""
    now = last = 0
    rate = 0
    nsl = 0
    for o in [x.split() for x in case.split(",") if x.strip()]:
        k = o[0]
        if k in ("Q", "D"):
            return False
        if k == "U":          # node_used on already buffered bytes (down_chunk_from_buffer / _process / _skip_process):
            if int(o[3]) > WANT_MAX:   # reported without asking node_quota first, may exceed what was granted
                return False
            continue
        if k == "S":
            nsl += 1
            if nsl > 8:
                return False
        elif k == "A":
            now += int(o[1])
        elif k == "T":
            now += int(o[1])
            if rate == 0 or now - last < 90000 or (now - last) * rate // 10**6 > QMAX or now - last > 60 * 10**6:
                return False
            last = now
        elif k == "R":
            l, v = int(o[1]), int(o[2])
            if v > UINT_MAX - 1:
                return False
            if l == 0 and v != rate:
                if rate == 0:
                    if v > QMAX:
                        return False
                    last = now
                rate = v
        elif k == "X":
            if int(o[3]) > WANT_MAX:
                return False
        elif k == "V":
            if int(o[2]) > WANT_MAX:
                return False
        elif k in ("I", "E"):
            pass
        else:
            return False
    return True


def valid_case(r, big=False):
    ops = []
    nsl = r.choice([0, 0, 1, 1, 2, 3])
    root_rate = 0
    now = last = 0
    lists = 1

    def pick_rate():
        return r.choice(RATES) if r.random() < 0.85 else r.choice(ODD_RATES)

    def set_root(v):
        nonlocal root_rate, last
        if v != root_rate and root_rate == 0:
            last = now
        root_rate = v
        ops.append("R 0 %d" % v)

    # setup in random order: slaves, rates, initial nodes
    for _ in range(nsl):
        if r.random() < 0.5 and root_rate == 0:
            set_root(pick_rate())
        ops.append("S")
        lists += 1
        if r.random() < 0.8:
            ops.append("R %d %d" % (lists - 1, r.choice([0, 0] + RATES) if r.random() < 0.2 else pick_rate()))
    if root_rate == 0 and r.random() < 0.85:
        set_root(pick_rate())
    nn = r.choice([0, 1, 2, 3, 4, 6])
    for l in range(lists):
        for k in range(r.randrange(0, nn + 1)):
            ops.append("I %d %d" % (l, k))
    n = r.randrange(10, 70 if not big else 160)
    for _ in range(n):
        c = r.random()
        l = r.randrange(lists)
        k = r.randrange(0, max(1, nn) + 1)
        if c < 0.45:
            ops.append("X %d %d %d" % (l, k, r.choice(WANTS)))
        elif c < 0.62:
            if root_rate == 0:
                ops.append("A %d" % r.choice(DTS))
                now += int(ops[-1].split()[1])
            else:
                dt = r.choice(DTS)
                if now + dt - last < 90000:
                    dt = 90000 + last - now
                if (now + dt - last) * root_rate // 10**6 > QMAX:
                    continue
                now += dt
                last = now
                ops.append("T %d" % dt)
        elif c < 0.67:
            dt = r.choice([1, 1000, 50000, 89999, 400000])
            now += dt
            ops.append("A %d" % dt)
        elif c < 0.75:
            ops.append("I %d %d" % (l, k))
        elif c < 0.82:
            ops.append("E %d %d" % (l, k))
        elif c < 0.86:
            ops.append("V %d %d" % (l, r.choice([0, 1, 17, 100, 1000, 20000])))
        elif c < 0.88:
            # buffered piece bytes accounted without asking first, often right after another node drained the pool
            if r.random() < 0.6:
                ops.append("X %d %d %d" % (l, r.randrange(0, max(1, nn) + 1), 1 << 20))
            ops.append("U %d %d %d" % (l, k, r.choice([1, 100, 512, 2048, 5000, 16384, 20000, 70000])))
        elif c < 0.96:
            if l == 0:
                v = r.choice([0] + RATES) if r.random() < 0.25 else pick_rate()
                set_root(v)
            else:
                ops.append("R %d %d" % (l, r.choice([0] + RATES) if r.random() < 0.15 else pick_rate()))
        else:
            if lists < 4:
                ops.append("S")
                lists += 1
    return ",".join(ops)


def idle_case(r):
    """Idle / under-used phases: every connection stays active (or there is none) while consumption is
    far below the limit for many ticks, then demand arrives. The token bucket must not have grown."""
    ops = []
    rate = r.choice([1000, 10240, 50000, 131072, 1 << 20])
    nsl = r.choice([0, 0, 1, 2])
    lists = 1 + nsl
    for i in range(nsl):
        ops.append("S")
        ops.append("R %d %d" % (i + 1, r.choice([0, rate // 2 + 1, rate, 4 * rate])))
    ops.append("R 0 %d" % rate)
    late = r.random() < 0.5
    nodes = [(l, k) for l in range(lists) for k in range(r.choice([1, 1, 2, 3]))]
    if not late:
        ops += ["T 1000000", "T 1000000"]
        for l, k in nodes:
            ops.append("I %d %d" % (l, k))
    for _ in range(r.randrange(5, 45)):
        dt = r.choice([1000000, 1000000, 2000000, 10000000, 250000])
        if dt * rate // 10**6 > QMAX:
            dt = 1000000
        ops.append("T %d" % dt)
        if not late and r.random() < 0.3:
            l, k = r.choice(nodes)
            ops.append("X %d %d %d" % (l, k, r.choice([1, 10, 100])))
    if late:
        for l, k in nodes:
            ops.append("I %d %d" % (l, k))
    for _ in range(r.randrange(3, 12)):
        l, k = r.choice(nodes)
        ops.append("X %d %d %d" % (l, k, r.choice([16384, 131072, 131072, 1 << 20])))
        if r.random() < 0.2:
            ops.append("T 1000000")
    return ",".join(ops)


def greedy_case(r):
    """Several greedy connections on one list at a rate whose tick quota is below the max chunk: one connection
    is served per tick; every waiter must get its turn (FIFO waiting queue, bounded wait)."""
    ops = []
    rate = r.choice([600, 1000, 1000, 1500, 2000, 4000, 8192, 20000])
    nsl = r.choice([0, 0, 1])
    if nsl:
        ops += ["S", "R 1 %d" % r.choice([0, rate, 2 * rate])]
    ops.append("R 0 %d" % rate)
    l = r.randrange(0, nsl + 1)
    n = r.choice([3, 3, 4, 5, 6])
    for k in range(n):
        ops.append("I %d %d" % (l, k))
    for _ in range(r.randrange(3 * n, 6 * n)):
        ops.append("T %d" % r.choice([1000000, 1000000, 1000000, 500000, 2000000]))
        order = list(range(n))
        r.shuffle(order)
        for k in order:
            ops.append("X %d %d %d" % (l, k, r.choice([999999, 999999, 65536])))
        if r.random() < 0.1:
            ops.append("U %d %d %d" % (l, r.randrange(n), r.choice([100, 3000, 40000])))
    return ",".join(ops)


def greedy_multi_case(r):
    """Greedy connections on SEVERAL lists at once (the root's own list and 1-3 slaves that share its limit):
    every list keeps asking for more than a tick grants, for enough ticks that the round-robin cursor must have
    visited every list several times; no list's waiter may be left without quota (cursor_reaches_every_list +
    list_reactivation_liveness)."""
    ops = []
    rate = r.choice([1000, 2000, 4000, 8192, 20000])
    nsl = r.choice([1, 2, 2, 3])
    for i in range(nsl):
        ops += ["S", "R %d %d" % (i + 1, r.choice([0, 0, 0, rate, 2 * rate]))]
    ops.append("R 0 %d" % rate)
    conns = []
    for l in range(nsl + 1):
        if l == 0 and r.random() < 0.3:
            continue
        for k in range(r.choice([1, 1, 2])):
            ops.append("I %d %d" % (l, k))
            conns.append((l, k))
    for _ in range(r.randrange(6 * (nsl + 1), 10 * (nsl + 1))):
        ops.append("T 1000000")
        order = list(conns)
        if r.random() < 0.5:
            r.shuffle(order)
        for (l, k) in order:
            ops.append("X %d %d 999999" % (l, k))
    return ",".join(ops)


def raw_case(r):
    ops = []
    lists = 1
    bigs = [0, 1, 2**28, 2**28 + 1, 2**31 - 1, 2**31, 2**32 - 2, 2**32 - 1]
    for _ in range(r.randrange(3, 40)):
        c = r.random()
        l = r.randrange(0, lists + 1) if r.random() < 0.1 else r.randrange(lists)
        k = r.randrange(0, 4)
        if c < 0.12:
            ops.append("I %d %d" % (l, k))
        elif c < 0.2:
            ops.append("E %d %d" % (l, k))
        elif c < 0.3:
            ops.append("Q %d %d" % (l, k))
        elif c < 0.38:
            ops.append("D %d %d" % (l, k))
        elif c < 0.52:
            ops.append("U %d %d %d" % (l, k, r.choice(WANTS + bigs) if r.random() < 0.8 else r.randrange(0, 2**32)))
        elif c < 0.58:
            ops.append("V %d %d" % (l, r.choice(WANTS + bigs)))
        elif c < 0.72:
            ops.append("T %d" % (r.choice(DTS + [0, 1, 89999, 10**7, 4295 * 10**6, 2**33, 2**40, 65536 * 10**6])))
        elif c < 0.76:
            ops.append("A %d" % r.choice([1, 1000, 10**6, 61 * 10**6, 10**9]))
        elif c < 0.9:
            ops.append("R %d %d" % (l, r.choice([0] + RATES + ODD_RATES[:8] + BIG_RATES + [2**32 - 1, 2**32, 2**40])))
        elif c < 0.95:
            ops.append("X %d %d %d" % (l, k, r.choice(WANTS + bigs)))
        else:
            if lists < 4:
                ops.append("S")
                lists += 1
    return ",".join(ops)


HAND = [
    "I 0 1,I 0 2,R 0 10000,X 0 1 100,T 1000000,X 0 1 5000,X 0 1 5000,X 0 1 5000,X 0 2 100,T 100000,T 1000000,X 0 1 1",
    "S,S,R 0 50000,R 1 20000,R 2 0,I 1 1,I 2 1,I 0 1,T 1000000,T 1000000,X 1 1 2000,X 2 1 2000,V 0 100,T 500000,R 0 0,X 1 1 70000",
    "T 1000",
    "R 0 4294967295,R 0 4294967294,T 1000000,I 0 5,Q 0 5,E 0 5,E 0 5",
    # rate drop with quota outstanding; erase while inactive; reinsertion
    "R 0 3000000,I 0 0,I 0 1,T 1000000,X 0 0 1,X 0 1 1,R 0 1000,X 0 0 100000,X 0 0 100000,X 0 0 1,E 0 0,I 0 0,T 1000000,T 1000000",
    # slave under an unlimited root is never limited; slave with rate 0 under a limited root starves
    "S,R 1 1000,I 1 0,X 1 0 131072,X 1 0 131072",
    "R 0 100000,S,R 1 0,I 1 0,T 1000000,T 1000000,T 1000000,X 1 0 1,T 1000000,T 1000000",
    # deactivate everything, then disable: activations in order
    "R 0 600,I 0 0,I 0 1,I 0 2,X 0 0 1,X 0 1 1,X 0 2 1,T 1000000,R 0 0",
    # enable() with every node inactive
    "I 0 0,D 0 0,R 0 1000",
    # tick arithmetic wrap
    "R 0 4294967294,T 4295000000,T 65536000000,T 18446744073709",
    "R 0 1,I 0 0,X 0 0 1,T 90000,T 90000,T 90000,T 1000000,T 60000000",
    # 10 KiB/s, ten minutes with the only connection active but idle, then demand: burst must stay fixed
    "R 0 10240,T 1000000,T 1000000,I 0 0," + ",".join(["T 10000000"] * 60) + ",X 0 0 1048576,X 0 0 1048576,X 0 0 1048576,T 1000000,X 0 0 1048576",
    # NOTE (efficiency quirk, not a violation of any clause of C12): every slave throttle soaks up about two ticks'
    # worth of quota (unused-unthrottled, then unallocated) before it starts handing the excess back, and an idle
    # rate-0 slave asks for the whole tick quota (5638f7b). While that warm-up lasts the root list is served only on
    # alternate ticks: below, the root connection misses 3 of the first 6 ticks and then runs at the full rate
    # (real code: deact,x=100000,deact,x=100000,deact,x=100000,x=100000,...). The upper bound, the fixed burst and
    # bounded reactivation (cursor_reaches_every_list) all hold; only throughput during <= 2*(slaves+1) ticks is lost.
    "S,R 0 100000,I 0 0," + ",".join(["T 1000000,X 0 0 999999"] * 9),
    # three greedy connections at 1000 B/s (tick quota 1000 < max chunk 2048): served in turn, nobody starves
    "R 0 1000,I 0 0,I 0 1,I 0 2," + ",".join(["T 1000000,X 0 0 999999,X 0 1 999999,X 0 2 999999"] * 12),
    # buffered bytes reported beyond what was granted, right after another connection drained the pool
    "R 0 10000,I 0 0,I 0 1,T 1000000,T 1000000,X 0 0 999999,U 0 1 5000,U 0 1 70000,T 1000000,X 0 1 1",
    # same with no connection at all during the idle phase
    "R 0 10240," + ",".join(["T 10000000"] * 30) + ",I 0 0,X 0 0 1048576,X 0 0 1048576",
]
# the Rate::insert overflow reached through valid operations (see coq/C12 rate_added_overflow_reachable)
BUG_RATE_ADDED = "S,I 1 0,X 1 0 268435456,X 1 0 1,R 0 1000,T 1000000"


def exhaustive_small():
    """All op lists of length <= 4 over a 9-letter alphabet after a fixed 3-op prefix (one list, two
    nodes, rate 1000 B/s => min chunk 512)."""
    alpha = ["X 0 0 600", "X 0 1 100", "I 0 1", "E 0 0", "T 1000000", "T 100000", "V 0 300", "R 0 0", "R 0 70000"]
    out = []
    for n in range(1, 5):
        for seq in itertools.product(alpha, repeat=n):
            out.append(",".join(["I 0 0", "R 0 1000", "T 1000000"] + list(seq)))
    return out


def gen(seed, tier):
    r = random.Random(seed)
    cases = []
    stats = {"corpus": 0, "hand": 0, "valid": 0, "idle": 0, "greedy": 0, "greedy_multi": 0, "raw": 0, "exhaustive": 0}
    cdir = os.path.join(os.path.dirname(os.path.dirname(os.path.abspath(__file__))), "corpus", "C12")
    if os.path.isdir(cdir):
        for f in sorted(os.listdir(cdir)):
            if f.endswith(".case"):
                for l in open(os.path.join(cdir, f)):
                    l = l.strip()
                    if l and not l.startswith("#"):
                        cases.append(l)
                        stats["corpus"] += 1
    cases += HAND
    stats["hand"] = len(HAND)
    nv, nr = (1500, 500) if tier == "quick" else (12000, 4000)
    for i in range(nv):
        cases.append(valid_case(r, big=(i % 10 == 0)))
    stats["valid"] = nv
    ni = 150 if tier == "quick" else 1200
    for _ in range(ni):
        cases.append(idle_case(r))
    stats["idle"] = ni
    ng = 100 if tier == "quick" else 800
    for _ in range(ng):
        cases.append(greedy_case(r))
    stats["greedy"] = ng
    ngm = 60 if tier == "quick" else 500
    for _ in range(ngm):
        cases.append(greedy_multi_case(r))
    stats["greedy_multi"] = ngm
    for _ in range(nr):
        cases.append(raw_case(r))
    stats["raw"] = nr
    if tier == "thorough":
        ex = exhaustive_small()
        cases += ex
        stats["exhaustive"] = len(ex)
    kinds = {}
    for c in cases:
        for o in c.split(","):
            o = o.strip()
            if o:
                kinds[o[0]] = kinds.get(o[0], 0) + 1
    stats["op_kinds"] = kinds
    stats["static_valid_cases"] = sum(1 for c in cases if static_valid(c))
    return cases, stats


def gen_session(seed, tier):
    """Session-level cases for harness/c12s.cc (real up_chunk path under a global upload limit)."""
    r = random.Random(seed * 7919 + 12)
    cases = ["rate=20000 secs=6 step=250000",
             "rate=0 secs=2 step=500000",
             "rate=100000 secs=6 step=100000 change=3:10000",
             "rate=50000 secs=8 step=250000 slave=10000",
             "rate=10240 secs=6 step=500000 change=2:0,4:10240",
             "rate=10240 secs=14 step=500000 idle=10",
             "rate=60000 secs=10 step=250000 idle=6 slave=20000"]
    n = 3 if tier == "quick" else 40
    for _ in range(n):
        rate = r.choice([3000, 8192, 8193, 20000, 65536, 131073, 400000, 1 << 20])
        c = "rate=%d secs=%d step=%d" % (rate, r.randrange(4, 10), r.choice([100000, 250000, 500000, 1000000]))
        k = r.random()
        if k < 0.35:
            c += " change=%d:%d" % (r.randrange(1, 4), r.choice([0, 5000, 50000, 300000]))
        elif k < 0.6:
            c += " slave=%d" % r.choice([0, 4000, 30000, 2 * rate])
        if r.random() < 0.3:
            c += " idle=%d" % r.randrange(2, 4)
        cases.append(c)
    return cases


def all_rates(cases=None):
    """Universe of set_max_rate arguments (<= UINT_MAX-1) the cases can contain; with `cases` given, also
    everything that literally occurs in them (hand list, corpus, exhaustive alphabet)."""
    u = set([0]) | set(RATES) | set(ODD_RATES) | set(BIG_RATES)
    for c in (cases if cases is not None else HAND + [BUG_RATE_ADDED] + exhaustive_small()[:9]):
        for o in c.split(","):
            t = o.split()
            if len(t) == 3 and t[0] == "R" and int(t[2]) <= UINT_MAX - 1:
                u.add(int(t[2]))
    for rate in [1000, 10240, 50000, 131072, 1 << 20]:      # idle_case
        u |= set([rate, rate // 2 + 1, 4 * rate])
    for rate in [600, 1000, 1500, 2000, 4000, 8192, 20000]:    # greedy_case
        u |= set([rate, 2 * rate])
    return sorted(u)
