"""C19 case generator + python reference spec (finite map entry -> due time) used as property oracle.

Case line:  <n> <k> | <valid mask or -> | <scripts e:op,op;e:op or -> | <ops op,op,... or ->
  op ::= W e t | F e dt | C e dt | U e t | G e dt | D e dt | E e | N m | T t | P t
"""
import glob, itertools, os, random

US = 1000000
DAY = 24 * 3600 * US
B = 365 * DAY                 # smallest accepted absolute time
TENY = 10 * 365 * DAY         # largest accepted relative time
K = 12                        # slot invocations per perform allowed by both drivers


def fmt_op(o):
    if o[0] == "L":
        return "L %d %d %d %s" % (o[1], o[2], o[3], "-" if o[4] < 0 else o[4])
    return " ".join(str(x) for x in o)


def make_case(n, k, mask, scripts, ops):
    scr = ";".join("%d:%s" % (e, ",".join(fmt_op(o) for o in body)) for e, body in sorted(scripts.items()) if body)
    return "%d %d | %s | %s | %s" % (n, k, mask or "-", scr or "-", ",".join(fmt_op(o) for o in ops) or "-")


def parse_case(line):
    sec = [s.strip() for s in line.split("|")]
    n, k = (int(x) for x in sec[0].split())
    mask = sec[1]
    valid = [True] * n if mask == "-" else [c == "1" for c in mask]

    def pop(s):
        t = s.split()
        return tuple([t[0]] + [(-1 if x == "-" else int(x)) for x in t[1:]])
    scripts = {}
    if sec[2] not in ("-", ""):
        for sc in sec[2].split(";"):
            e, _, body = sc.partition(":")
            scripts[int(e)] = [pop(o) for o in body.split(",") if o.strip()]
    ops = [pop(o) for o in sec[3].split(",")] if sec[3] not in ("-", "") else []
    return n, k, valid, scripts, ops


# ------------------------------------------------------------------ reference spec / oracle

def ceil_seconds(t):
    x = t + US - 1
    q = abs(x) // US
    return (q if x >= 0 else -q) * US


# constants of the API as probed from the compiled library (props/c19.py sets them before the oracle runs);
# defaults = today's source values. The generators keep using B / TENY: they only choose inputs.
CONSTS = {"min_wait": B, "min_update": B, "max_wf": TENY, "max_wfc": TENY, "max_uf": TENY, "max_ufc": TENY}


def set_consts(params):
    for k, v in zip(["min_wait", "min_update", "max_wf", "max_wfc", "max_uf", "max_ufc"], params):
        CONSTS[k] = v


class Spec:
    """entry -> due time. Knows the documented API preconditions (to predict internal_error)."""

    def __init__(self, n, valid):
        self.other = {}      # entries scheduled in the second scheduler (ops X/Z/Y)
        self.due = {}
        self.now = 0
        self.valid = valid
        self.n = n

    def abs_time(self, o):
        k = o[0]
        if k in "WU":
            return o[2], False
        big = o[2] > CONSTS[{"F": "max_wf", "C": "max_wfc", "G": "max_uf", "D": "max_ufc"}[k]]
        t = self.now + o[2]
        if k in "CD":
            t = ceil_seconds(t)
        return t, big

    def expect_err(self, o):
        k = o[0]
        if k in "XZY":       # the same API on the second scheduler
            mine, theirs = self.other, self.due
            k = {"X": "W", "Z": "U", "Y": "E"}[k]
        else:
            mine, theirs = self.due, self.other
        if k in "WFC" or k in "UGD":
            t, big = self.abs_time((k,) + tuple(o[1:]))
            lo = CONSTS["min_wait"] if k in "WFC" else CONSTS["min_update"]
            if big or t == 0 or t < lo or not self.valid[o[1]]:
                return True
            if o[1] in theirs:
                return True          # scheduled in another scheduler
            return k in "WFC" and o[1] in mine
        if k == "E":
            return o[1] in theirs or (o[1] in mine and not self.valid[o[1]])
        return False

    def apply(self, o):
        k = o[0]
        if k in "WFCUGD":
            self.due[o[1]] = self.abs_time(o)[0]
        elif k == "E":
            self.due.pop(o[1], None)
        elif k in "XZ":
            self.other[o[1]] = o[2]
        elif k == "Y":
            self.other.pop(o[1], None)
        elif k == "T":
            self.now = o[1]

    def check_next(self, m, r, bad):
        if m >= 0 and r > m:
            bad.append(("next-timeout-exceeds-max", "next_timeout(%d) returned %d" % (m, r)))
        if self.due:
            mn = min(self.due.values())
            if r > max(mn - self.now, 0):
                bad.append(("next-timeout-oversleeps", "next_timeout(%d) = %d but the earliest pending timer is due in %d" % (m, r, mn - self.now)))


def _script(sp, body, items, i, bad):
    """Run one script (slot body / call_events body) of the reference spec against the items the
    implementation printed. Returns (i, status), status in ok | aborted | fatal."""
    for so in body:
        if sp.expect_err(so):
            if i < len(items) and items[i] == "ERR:internal":
                return i + 1, "aborted"
            bad.append(("precondition-not-enforced", "scripted op %s should raise internal_error" % fmt_op(so)))
            return i, "fatal"
        if so[0] == "N":
            if i < len(items) and items[i].startswith("N="):
                sp.check_next(so[1], int(items[i][2:]), bad)
                i += 1
            else:
                bad.append(("output-shape", "missing next_timeout value in script"))
                return i, "fatal"
        else:
            sp.apply(so)
    return i, "ok"


def _dispatch(sp, scripts, t, items, i, bad, st):
    """perform(t) of the reference spec against the printed items. Returns (i, status),
    status in done | aborted | fuel | fatal."""
    while i < len(items):
        it = items[i]
        if it.startswith("th="):
            break
        i += 1
        if it.startswith("FUEL"):
            return i, "fuel"
        if it == "ERR:internal":
            bad.append(("spurious-internal-error", "internal_error inside perform(%d) that the API preconditions do not explain" % t))
            return i, "fatal"
        if it.startswith("N=") or it.startswith("sc=") or it.startswith("r="):
            bad.append(("output-shape", "unexpected item %s in perform log" % it))
            return i, "fatal"
        e = int(it)
        st["fired"] = True
        if e not in sp.due:
            bad.append(("fired-not-scheduled", "entry %d fired at perform(%d) while not scheduled (fired twice / after erase)" % (e, t)))
            return i, "fatal"
        d = sp.due.pop(e)
        if d > t:
            bad.append(("fired-early", "entry %d due %d fired at perform(%d)" % (e, d, t)))
        if sp.due and d > min(sp.due.values()):
            bad.append(("fired-out-of-order", "entry %d due %d fired while a timer due %d was pending" % (e, d, min(sp.due.values()))))
        i, stt = _script(sp, scripts.get(e, []), items, i, bad)
        if stt != "ok":
            return i, stt
    late = [(e, d) for e, d in sp.due.items() if d <= t]
    if late:
        bad.append(("not-fired-when-due", "after perform(%d) entries still pending with due <= t: %s" % (t, sorted(late)[:4])))
    return i, "done"


def split_tokens(head):
    """Result tokens of one output line (before ' | '): str for basic ops, list of items for P[..]/L[..]."""
    toks = []
    cur = None
    for t in head.split():
        if cur is not None:
            if t.endswith("]"):
                if t[:-1]:
                    cur.append(t[:-1])
                toks.append(cur)
                cur = None
            else:
                cur.append(t)
        elif t.startswith("P[") or t.startswith("L["):
            rest = t[2:]
            if rest.endswith("]"):
                toks.append([rest[:-1]] if rest[:-1] else [])
            else:
                cur = [rest] if rest else []
        else:
            toks.append(t)
    return toks


def choices(line):
    """The implementation's firing sequence per top-level op ('e e;e;;' - one group per op): the
    tie-breaking oracle handed to the choice-driven model."""
    head = line.partition(" | ")[0]
    groups = []
    for tk in split_tokens(head):
        g = []
        if isinstance(tk, list):
            for it in tk:
                if it.isdigit():
                    g.append(it)
                elif it.startswith("FUEL:") and it[5:].isdigit():
                    g.append(it[5:])
        groups.append(" ".join(g))
    return ";".join(groups)


def project(line):
    """What the property talks about: per-op results and the final schedule; not the heap array."""
    i = line.find(" H[")
    return line[:i] if i >= 0 else line


def oracle(case, line):
    """Property C19 evaluated on ONE implementation output line. Returns list of (klass, text)."""
    if line.startswith("CRASH") or line.startswith("HARNESS-ERROR") or line.startswith("BADCASE") or line == "MISSING":
        return [("crash", "scheduler crashed / harness failed: " + line[:200])]
    n, k, valid, scripts, ops = parse_case(case)
    scripted_T = any(o[0] == "T" for b in scripts.values() for o in b)
    head, _, tail = line.partition(" | ")
    toks = split_tokens(head)
    bad = []
    if len(toks) != len(ops):
        return [("output-shape", "number of result tokens differs from number of ops")]
    sp = Spec(n, valid)
    st = {"fired": False}
    for o, tk in zip(ops, toks):
        if o[0] == "P":
            items = list(tk)
            i, stt = _dispatch(sp, scripts, o[1], items, 0, bad, st)
            if stt == "fuel":
                return bad + [("fuel", "")]
            if stt == "fatal":
                return bad
            if i != len(items):
                bad.append(("output-shape", "items after the end of a dispatch"))
                return bad
        elif o[0] == "L":
            # one event-loop iteration: clock t1 -> call_events (d, script c) -> clock t1+d -> perform -> poll timeout
            t1, d, m, c = o[1], o[2], o[3], o[4]
            items = list(tk)
            sp.now = t1
            i, stt = _script(sp, scripts.get(c, []) if c >= 0 else [], items, 0, bad)
            if stt == "fatal":
                return bad
            if stt == "aborted":
                if i != len(items):
                    bad.append(("output-shape", "items after an aborted iteration"))
                    return bad
                continue
            sp.now = t1 + d
            i, stt = _dispatch(sp, scripts, t1 + d, items, i, bad, st)
            if stt == "fuel":
                return bad + [("fuel", "")]
            if stt == "fatal":
                return bad
            if stt == "aborted":
                if i != len(items):
                    bad.append(("output-shape", "items after an aborted iteration"))
                    return bad
                continue
            if len(items) - i != 3 or not (items[i].startswith("th=") and items[i + 1].startswith("sc=") and items[i + 2].startswith("r=")):
                bad.append(("output-shape", "loop iteration without th/sc/r"))
                return bad
            r = int(items[i + 2][2:])
            if not scripted_T and sp.due:
                # the poll sleeps r starting no earlier than the real clock t1+d: it must not pass a pending timer
                mn = min(sp.due.values())
                if r > 0 and t1 + d + r > mn:
                    bad.append(("loop-oversleeps", "event-loop iteration (clock %d after call_events) polls for %d us but the earliest pending timer is due in %d us: wakes %d us late"
                                % (t1 + d, r, mn - (t1 + d), t1 + d + r - mn)))
            if r > max(m, 0):
                bad.append(("next-timeout-exceeds-max", "poll timeout %d exceeds the thread's own next_timeout %d" % (r, m)))
        else:
            exp = sp.expect_err(o)
            if tk == "ERR:internal":
                if not exp:
                    bad.append(("spurious-internal-error", "op %s raised internal_error" % fmt_op(o)))
                continue
            if exp:
                bad.append(("precondition-not-enforced", "op %s should raise internal_error, got %s" % (fmt_op(o), tk)))
                # the op took effect in the implementation; follow it so later verdicts stay meaningful
            if o[0] == "N":
                if not tk.startswith("N="):
                    bad.append(("output-shape", "N without value"))
                    return bad
                sp.check_next(o[1], int(tk[2:]), bad)
            else:
                sp.apply(o)
    # final schedule: erase prevents / update moves / fired entries are unscheduled
    s_part = tail.split("]")[0]
    got = {}
    if s_part.startswith("S["):
        for kv in s_part[2:].split():
            e, _, d = kv.partition(":")
            got[int(e)] = int(d)
    want = dict(sp.other)
    want.update(sp.due)
    if got != want:
        bad.append(("final-schedule-mismatch", "scheduled entries at the end %s differ from the reference %s" % (sorted(got.items())[:6], sorted(want.items())[:6])))
    if not bad and st["fired"]:
        bad.append(("_nontrivial", ""))
    return bad


# ------------------------------------------------------------------ generators

HAND = [
    # ties, plain order
    (3, "-", {}, [("W", 0, B + 5), ("W", 1, B + 3), ("W", 2, B + 3), ("N", 100), ("T", B + 1), ("N", 100), ("N", 1),
                  ("P", B + 3), ("P", B + 10)]),
    # boundary of the accepted time range
    (2, "-", {}, [("W", 0, 0), ("W", 0, B - 1), ("W", 0, B), ("W", 1, -5), ("U", 1, B - 1), ("U", 1, B), ("P", B)]),
    # relative waits: 10 years boundary, ceil boundaries
    (4, "-", {}, [("T", B + 1), ("F", 0, TENY), ("F", 1, TENY + 1), ("G", 1, TENY + 1), ("C", 1, US - 1), ("C", 2, US),
                  ("D", 3, 0), ("D", 3, -1), ("N", 5 * US), ("P", B + US), ("P", B + 2 * US)]),
    # erase of self / others inside a handler, update of self (future), re-arm self
    (4, "-", {0: [("E", 1), ("E", 0)], 1: [("U", 1, B + 50)], 2: [("W", 2, B + 60), ("U", 3, B + 2)], 3: [("N", 1000)]},
     [("W", 0, B + 3), ("W", 1, B + 3), ("W", 2, B + 3), ("W", 3, B + 3), ("P", B + 3), ("P", B + 55), ("P", B + 60)]),
    # handler error aborts the dispatch, later dispatch continues
    (3, "-", {0: [("W", 1, B + 9)]}, [("W", 0, B + 1), ("W", 1, B + 1), ("W", 2, B + 1), ("P", B + 1), ("P", B + 1), ("N", 0)]),
    # re-arm in the past: runs until the harness' slot budget
    (2, "-", {0: [("U", 0, B + 1)]}, [("W", 0, B + 5), ("W", 1, B + 6), ("P", B + 9), ("N", 5), ("P", B + 9)]),
    # event-loop iterations: timer due inside the busy interval of call_events, relative wait from a handler,
    # poll timeout bounded by the thread's own timeout, script run by call_events
    (3, "-", {0: [("G", 1, 7)], 2: [("F", 1, 100), ("N", 50)]},
     [("W", 0, B + 5), ("W", 2, B + 90), ("L", B + 1, 3, 1000, -1), ("L", B + 3, 4, 1000, 2), ("L", B + 10, 5, 0, -1),
      ("L", B + 20, 80, 600 * US, 2), ("N", 9)]),
    (2, "-", {}, [("W", 0, B + 10 * US), ("W", 1, B + 50000), ("L", B, 300000, 600 * US, -1), ("L", B + 300000, 0, 600 * US, -1)]),
    # an entry scheduled in a second scheduler: wait/update/erase on the first one throw, and vice versa
    (3, "-", {2: [("U", 0, B + 9)]},
     [("X", 0, B + 5), ("W", 0, B + 5), ("U", 0, B + 5), ("E", 0), ("W", 1, B + 2), ("X", 1, B + 2), ("Z", 1, B + 2), ("Y", 1),
      ("Y", 0), ("W", 0, B + 3), ("Z", 0, B + 3), ("W", 2, B + 1), ("X", 0, B + 7), ("E", 0), ("X", 0, B + 7), ("P", B + 4), ("Y", 0)]),
    # invalid entries
    (3, "101", {}, [("W", 1, B + 1), ("U", 1, B + 1), ("E", 1), ("W", 0, B + 1), ("P", B + 1)]),
    # many tombstones at the front, next_timeout pops them
    (5, "-", {}, [("W", 0, B + 1), ("W", 1, B + 2), ("W", 2, B + 3), ("W", 3, B + 4), ("W", 4, B + 5), ("E", 0), ("E", 1), ("E", 2),
                  ("N", 99), ("U", 3, B + 1), ("U", 4, B + 1), ("U", 3, B + 7), ("N", -3), ("T", B + 20), ("N", 50), ("P", B + 7)]),
    # update of an unscheduled entry, update to the past, double wait
    (2, "-", {}, [("U", 0, B + 5), ("W", 0, B + 6), ("U", 0, B + 1), ("W", 1, B + 1), ("P", B + 1), ("P", B + 1), ("E", 0), ("E", 1)]),
]


def rnd_time(R, base_set, wide):
    x = R.random()
    if x < 0.72:
        return R.choice(base_set)
    if x < 0.9:
        return B + R.randrange(0, wide)
    if x < 0.94:
        return R.choice([0, 1, B - 1, B, B + 1, -1, B - US])
    return B + R.choice([US - 1, US, US + 1, 2 * US, 3 * US - 1])


def rnd_basic(R, n, base_set, wide, now, malformed):
    x = R.random()
    e = R.randrange(n)
    if x < 0.30:
        return ("W", e, rnd_time(R, base_set, wide))
    if x < 0.50:
        return ("U", e, rnd_time(R, base_set, wide))
    if x < 0.66:
        return ("E", e)
    if x < 0.74:
        return ("N", R.choice([0, 1, 2, 3, 5, 100, 10 * US, -1, wide]))
    rel = R.choice([0, 1, 2, 3, 4, 7, US - 1, US, US + 1, wide // 2])
    if malformed and R.random() < 0.3:
        rel = R.choice([TENY, TENY + 1, TENY - 1, -1, -B, -(now or 1)])
    if x < 0.82:
        return ("F", e, rel)
    if x < 0.88:
        return ("G", e, rel)
    if x < 0.94:
        return ("C", e, rel)
    return ("D", e, rel)


def rnd_case(R, malformed=False, big=False):
    n = R.choice([1, 2, 2, 3, 3, 4, 5, 6, 8, 12]) if not big else R.choice([12, 20, 40])
    nt = R.choice([2, 3, 4, 4, 4, 6])
    base = B + R.choice([0, 1, 5, US - 2, 1000 * US])
    base_set = [base + i for i in range(nt)]
    wide = R.choice([8, 40, 3 * US])
    mask = "-"
    if malformed and R.random() < 0.5:
        mask = "".join(R.choice("1110") for _ in range(n))
    scripts = {}
    for e in range(n):
        if R.random() < (0.55 if not big else 0.3):
            body = []
            for _ in range(R.choice([1, 1, 2, 2, 3, 4])):
                y = R.random()
                if y < 0.18:
                    body.append(("E", e))                          # erase self (no-op: already detached)
                elif y < 0.30:
                    body.append(("W", e, rnd_time(R, base_set, wide)))   # re-arm self
                elif y < 0.42:
                    body.append(("U", e, rnd_time(R, base_set, wide)))
                else:
                    o = rnd_basic(R, n, base_set, wide, base, malformed)
                    if o[0] in "WFC" and R.random() < 0.6 and not malformed:
                        o = ({"W": "U", "F": "G", "C": "D"}[o[0]],) + o[1:]   # keep most handler ops error free
                    body.append(o)
            scripts[e] = body
    ops = []
    now = 0
    L = R.choice([3, 6, 10, 16, 24, 40]) if not big else R.choice([80, 160])
    if R.random() < 0.8:
        now = base - R.choice([0, 1, 3])
        ops.append(("T", now))
    while len(ops) < L:
        x = R.random()
        if x < 0.22:
            t = R.choice(base_set + [base_set[-1] + 1, base - 1, base + wide])
            if R.random() < 0.7:
                ops.append(("T", t))
                now = t
            ops.append(("P", t))
        elif x < 0.25:
            now = rnd_time(R, base_set, wide)
            ops.append(("T", now))
        else:
            ops.append(rnd_basic(R, n, base_set, wide, now, malformed))
    return make_case(n, K, mask, scripts, ops)


def rnd_burst_case(R):
    """Scale dimension: MANY handles at or before one dispatch time -- either many entries due together or few
    entries re-armed many times between two dispatches (each update leaves a dead handle in the heap) -- followed by
    dispatches at/after the due times.  A dispatch must fire every due live entry however many handles it pops."""
    mode = R.choice(["many-due", "many-due", "resched-storm", "mixed"])
    base = B + R.choice([0, 5, 1000 * US])
    ops = [("T", base - 1)]
    if mode == "many-due":
        n = R.choice([33, 63, 64, 65, 66, 100, 129, 200])
        for e in range(n):
            ops.append(("W", e, base + R.choice([0, 0, 1, 2, 3])))
        if R.random() < 0.5:
            for e in R.sample(range(n), R.choice([1, 5, n // 3])):
                ops.append(("E", e))
    elif mode == "resched-storm":
        n = R.choice([1, 2, 3])
        for e in range(n):
            ops.append(("W", e, base + 2))
        for _ in range(R.choice([31, 63, 64, 65, 66, 100, 130, 257])):
            ops.append(("U", R.randrange(n), base + R.choice([0, 1, 2, 3])))
    else:
        n = R.choice([40, 70])
        for e in range(n):
            ops.append(("W", e, base + R.choice([0, 1, 2, 3, 50])))
        for _ in range(R.choice([30, 70, 140])):
            ops.append(("U", R.randrange(n), base + R.choice([0, 1, 2, 3, 50])))
    for t in sorted(R.sample([base, base + 1, base + 2, base + 3, base + 4, base + 60], R.choice([1, 2, 3]))):
        ops.append(("T", t))
        ops.append(("N", 0))
        ops.append(("P", t))
        ops.append(("N", 0))
    return make_case(n, 1000, "-", {}, ops)


def rnd_loop_case(R):
    """Event-loop iterations (op L) through the real Thread::process_events: the clock only moves
    forward, call_events takes d, timers are due before / inside / after the busy interval."""
    n = R.choice([1, 2, 3, 3, 4, 6])
    base = B + R.choice([0, 5, US - 2, 1000 * US])
    wide = R.choice([8, 40, 3 * US])
    scripts = {}
    for e in range(n):
        if R.random() < 0.5:
            body = []
            for _ in range(R.choice([1, 1, 2, 3])):
                y = R.random()
                e2 = R.randrange(n)
                if y < 0.25:
                    body.append(("G", e2, R.choice([0, 1, 2, 5, 9, US, wide])))      # relative to the scheduler's clock
                elif y < 0.40:
                    body.append(("F", e2, R.choice([1, 3, 8, US])))
                elif y < 0.55:
                    body.append(("U", e2, base + R.randrange(0, wide)))
                elif y < 0.70:
                    body.append(("E", e2))
                elif y < 0.85:
                    body.append(("N", R.choice([0, 3, 100, 10 * US])))
                else:
                    body.append(("D", e2, R.choice([0, 1, US - 1])))
            scripts[e] = body
    ops = []
    clock = base - R.choice([0, 1, 3])
    L = R.choice([3, 5, 8, 12, 20])
    while len(ops) < L:
        x = R.random()
        if x < 0.45:
            d = R.choice([0, 0, 1, 2, 3, 7, 30, US, 2 * US + 1])
            m = R.choice([0, 1, 5, 50, 1000, 10 * 60 * US, 10 * 60 * US, -1])
            c = R.choice([-1, -1] + list(scripts.keys()))
            ops.append(("L", clock, d, m, c))
            clock += d + R.choice([0, 1, 2, 5, wide // 2])
        elif x < 0.70:
            ops.append(("W", R.randrange(n), clock + R.choice([-1, 0, 1, 2, 3, 5, 8, wide, US])))
        elif x < 0.82:
            ops.append(("U", R.randrange(n), clock + R.choice([0, 1, 2, 4, 9, wide])))
        elif x < 0.90:
            ops.append(("E", R.randrange(n)))
        elif x < 0.95:
            ops.append(("G", R.randrange(n), R.choice([0, 1, 4, US])))
        else:
            ops.append(("N", R.choice([0, 7, 10 * US])))
    return make_case(n, K, "-", scripts, ops)


def loop_exhaustive(maxlen):
    """All op lists of length <= maxlen over 2 entries x 2 times with loop iterations at 2 clock values x 2 durations."""
    out = []
    t = [B + 2, B + 4]
    al = [("W", e, x) for e in range(2) for x in t] + [("U", e, x) for e in range(2) for x in t] + \
         [("E", e) for e in range(2)] + [("L", c, d, 100, -1) for c in (B + 1, B + 3) for d in (0, 2)]
    for cfg in [{}, {0: [("G", 1, 1)], 1: [("E", 0), ("F", 1, 3)]}]:
        for L in range(1, maxlen + 1):
            for ops in itertools.product(al, repeat=L):
                out.append(make_case(2, K, "-", cfg, list(ops)))
    return out


def rnd_two_sched_case(R):
    """Entries moving between two schedulers: every op on an entry that is scheduled in the other one must throw."""
    n = R.choice([1, 2, 3, 4])
    base = B + R.choice([0, 5, 1000 * US])
    t = [base + i for i in range(4)]
    scripts = {}
    for e in range(n):
        if R.random() < 0.4:
            scripts[e] = [R.choice([("W", R.randrange(n), R.choice(t)), ("U", R.randrange(n), R.choice(t)), ("E", R.randrange(n)),
                                    ("G", R.randrange(n), 2)]) for _ in range(R.choice([1, 2]))]
    ops = [("T", base - 1)]
    for _ in range(R.choice([4, 8, 14, 20])):
        x = R.random()
        e = R.randrange(n)
        if x < 0.18:
            ops.append(("X", e, R.choice(t + [0, B - 1])))
        elif x < 0.30:
            ops.append(("Z", e, R.choice(t)))
        elif x < 0.42:
            ops.append(("Y", e))
        elif x < 0.60:
            ops.append(("W", e, R.choice(t)))
        elif x < 0.72:
            ops.append(("U", e, R.choice(t)))
        elif x < 0.84:
            ops.append(("E", e))
        elif x < 0.94:
            ops.append(("P", R.choice(t)))
        else:
            ops.append(("N", 5))
    return make_case(n, K, "-", scripts, ops)


def exhaustive(stats):
    """All op lists of length <= 4 over 3 entries x 3 due times (25 letters), and of length 5 over
    2 entries x 2 times (13 letters), each under two handler configurations."""
    out = []
    t = [B + 1, B + 2, B + 3]
    cfgs3 = [{}, {0: [("E", 1)], 1: [("U", 0, B + 2)], 2: [("W", 2, B + 3), ("N", 9)]}]
    al3 = [("W", e, x) for e in range(3) for x in t] + [("U", e, x) for e in range(3) for x in t] + \
          [("E", e) for e in range(3)] + [("P", x) for x in t] + [("N", 2)]
    for cfg in cfgs3:
        for L in range(1, 5):
            for ops in itertools.product(al3, repeat=L):
                out.append(make_case(3, K, "-", cfg, [("T", B)] + list(ops)))
    al2 = [("W", e, x) for e in range(2) for x in t[:2]] + [("U", e, x) for e in range(2) for x in t[:2]] + \
          [("E", e) for e in range(2)] + [("P", x) for x in t[:2]] + [("N", 2)]
    cfgs2 = [{}, {0: [("U", 1, B + 1)], 1: [("E", 0), ("W", 1, B + 2)]}]
    for cfg in cfgs2:
        for ops in itertools.product(al2, repeat=5):
            out.append(make_case(2, K, "-", cfg, [("T", B)] + list(ops)))
    stats["exhaustive"] = len(out)
    return out


def gen(seed, tier):
    R = random.Random(seed)
    cases = []
    stats = {}
    here = os.path.dirname(os.path.abspath(__file__))
    for f in sorted(glob.glob(os.path.join(here, "..", "corpus", "C19", "*.case"))):
        for l in open(f):
            l = l.strip()
            if l and not l.startswith("#"):
                cases.append(l)
    stats["corpus"] = len(cases)
    for n, mask, scr, ops in HAND:
        cases.append(make_case(n, K, mask, scr, ops))
    stats["hand"] = len(HAND)
    nv, nm, nb = (6000, 2000, 150) if tier == "quick" else (60000, 20000, 1500)
    for _ in range(nv):
        cases.append(rnd_case(R))
    for _ in range(nm):
        cases.append(rnd_case(R, malformed=True))
    for _ in range(nb):
        cases.append(rnd_case(R, big=True))
    nbu = 60 if tier == "quick" else 600
    for _ in range(nbu):
        cases.append(rnd_burst_case(R))
    stats["burst"] = nbu
    n2 = 2000 if tier == "quick" else 20000
    for _ in range(n2):
        cases.append(rnd_two_sched_case(R))
    stats["two_schedulers"] = n2
    nl = 4000 if tier == "quick" else 40000
    for _ in range(nl):
        cases.append(rnd_loop_case(R))
    le = loop_exhaustive(3 if tier == "quick" else 4)
    cases += le
    stats.update(structured=nv, malformed=nm, big=nb, loop_random=nl, loop_exhaustive=len(le))
    if tier == "thorough":
        cases += exhaustive(stats)
    else:
        # quick: exhaustive length <= 3 over 3 entries x 3 times, both handler configurations
        t = [B + 1, B + 2, B + 3]
        al3 = [("W", e, x) for e in range(3) for x in t] + [("U", e, x) for e in range(3) for x in t] + \
              [("E", e) for e in range(3)] + [("P", x) for x in t] + [("N", 2)]
        k0 = len(cases)
        for cfg in [{}, {0: [("E", 1)], 1: [("U", 0, B + 2)], 2: [("W", 2, B + 3), ("N", 9)]}]:
            for L in range(1, 4):
                for ops in itertools.product(al3, repeat=L):
                    cases.append(make_case(3, K, "-", cfg, [("T", B)] + list(ops)))
        stats["exhaustive"] = len(cases) - k0
    kinds = {}
    for c in cases:
        for o in c.split("|")[3].split(","):
            o = o.strip()
            if o and o != "-":
                kinds[o[0]] = kinds.get(o[0], 0) + 1
    stats["top_level_op_kinds"] = kinds
    return cases, stats
