"""C17 case generator. A case is  '<nthreads> <nids> / body ; body ... / prog ; prog ... / <schedule digits>'.
cmd tokens: P:<tgt>:<n|i>:<id|->:<body>  C:<id>  W:<id>  X:<id>  D:<0|1>.
Streams: corpus, hand list of racy programs x hand schedules, seeded random programs x seeded
random schedules (bursty + round-robin tail so that most runs reach quiescence), and exhaustive
enumeration of ALL interleavings of small programs (enumerated by the extracted model's ENUM mode;
the implementation then replays every one of them)."""
import glob, os, random

HERE = os.path.dirname(os.path.abspath(__file__))

# programs (without schedule) whose complete interleaving sets are small enough to replay all of them
EXHAUSTIVE_QUICK = [
    "2 1 / / P:1:n:0:0 W:0 ; D:0",            # post, then cancel-and-wait, racing one dispatch (1322)
    "2 1 / / P:1:n:0:0 C:0 ; D:0 D:0",        # post, plain cancel, two dispatches
    "2 1 / / P:1:i:0:0 ; W:0 D:1",            # target cancels before dispatching
    "2 1 / W:0 / P:1:n:0:0 ; D:0",            # self-cancel inside the callback
    "2 1 / X:0 / P:1:n:0:0 ; D:0",            # two-arg form inside the callback, no competitor
    "2 1 / / W:0 ; P:0:n:-:0 P:0:n:0:0",      # the target itself cancel-and-waits while a post into its NON-EMPTY queue is in flight
]
EXHAUSTIVE_THOROUGH = [
    "2 1 / / P:1:n:0:0 P:1:i:0:0 ; D:0",      # 2 callbacks, normal + interrupt kinds (17637)
    "2 1 / / P:1:n:0:0 P:1:n:0:0 ; D:0",      # 2 callbacks same kind (fifo)
    "2 1 / / P:1:n:-:0 P:1:n:0:0 ; D:0",      # id-less + id
    "2 1 / / P:1:n:0:0 ; D:0 W:0",            # target cancels after dispatch
    "2 1 / / P:1:n:0:0 W:0 ; D:0 D:0",
    "2 1 / W:0 / P:1:n:0:0 C:0 ; D:0",
    "2 2 / / P:1:n:0:0 P:1:n:1:0 ; C:1 D:0",
    "2 1 / X:0 / P:1:n:0:0 ; P:0:n:0:0 D:0",  # 2 threads x 2 callbacks, one side self-cancels with the handshake
    "2 1 / / P:1:n:0:0 W:0 ; P:0:n:0:0 D:0",
]
# bounded prefix of a space too large to finish: mutual two-arg cancel, 2 threads x 2 callbacks
EXHAUSTIVE_PREFIX = [("2 1 / X:0 / P:1:n:0:0 D:0 ; P:0:n:0:0 D:0", 60000)]

HAND = [
    # mutual two-arg cancel on a shared id (threads 0 and 1, both inside a callback of the id) while a THIRD thread posts to
    # thread 1 under the id exactly between thread 0's dl_fetch_add (generation bump, 0x8 still set) and its dl_fetch_and; thread 1
    # then starts its own cancel (sees 0x8, handshake path). The post completed before thread 1's cancel began: it must not run
    # on thread 1's second dispatch.
    ("3 1 / X:0 ; / P:1:n:0:0 D:0 ; P:0:n:0:0 D:0 D:0 ; P:1:n:0:1",
     ["0000" + "1111" + "1111" + "0000" + "000" + "2222" + "11111" + "012" * 30,
      "0000" + "1111" + "1111" + "0000" + "000" + "2222" + "111" + "0" + "012" * 30,
      "0000" + "1111" + "1111" + "0000" + "00" + "2222" + "0" + "11111" + "012" * 30]),
    ("3 1 / X:0 ; / P:1:i:0:0 D:0 ; P:0:i:0:0 D:0 D:0 ; P:1:i:0:1",
     ["0000" + "1111" + "1111" + "0000" + "000" + "2222" + "11111" + "012" * 30]),
    # notify/wait discipline: the canceller (= the target thread, nobody dispatches) blocks in id->wait() while a post under the
    # id is between fetch_add and fetch_sub; the post goes into a NON-EMPTY queue (no poll interrupt); only the notify_all after
    # the fetch_sub can wake the canceller
    ("2 1 / / W:0 ; P:0:n:-:0 P:0:n:0:0", ["1111" + "000" + "111" + "0" * 6 + "01" * 12, "11111" + "00" + "1" + "0" + "1" + "01" * 14]),
    ("2 1 / / W:0 ; P:0:i:-:0 P:0:i:0:0", ["1111" + "000" + "111" + "0" * 6 + "01" * 12]),
    ("2 1 / / W:0 ; P:0:n:0:0 P:0:n:0:0", ["1111" + "1" + "000" + "1111" + "0" * 6 + "01" * 12, "11111" + "1" + "00" + "11" + "0" + "01" * 14]),
    ("3 1 / / W:0 ; P:0:n:-:0 P:0:n:0:0 ; P:0:n:0:0", ["1111" + "22" + "000" + "2" + "00" + "111" + "00" + "012" * 12]),
    # ... and blocked while a dispatch on another thread is between pc_fetch_add and pc_fetch_sub / pc_skip_sub
    ("2 1 / / P:1:n:0:0 W:0 ; D:0", ["0000" + "111" + "000" + "1111" + "0000" + "01" * 12]),
    ("3 1 / / P:1:n:0:0 C:0 P:2:n:0:0 W:0 ; D:0 ; D:0", ["0" * 9 + "111" + "2222" + "000" + "1111" + "00" + "2222" + "012" * 14]),
    # one poster, one kind (interrupt), with and without id: must run in post order
    ("2 1 / / P:1:i:0:0 P:1:i:-:0 P:1:i:0:0 ; D:0 D:0", ["0" * 11 + "1" * 30, "0" * 4 + "1" * 2 + "0" * 7 + "1" * 30]),
    ("2 1 / / P:1:n:0:0 P:1:i:-:0 P:1:i:0:0 P:1:n:-:0 ; D:0 D:0", ["0" * 14 + "1" * 40]),
    # three threads share an id: two callbacks of it run on threads 1 and 2 while thread 0 cancel-and-waits
    ("3 1 / / P:1:n:0:0 P:2:n:0:0 W:0 ; D:0 ; D:0", ["0" * 8 + "1111" + "2222" + "00" + "012" * 20, "0" * 8 + "2222" + "1111" + "000" + "012" * 20]),
    # interrupt callback posted while an interrupt batch runs, normal callbacks already queued
    ("2 1 / P:1:i:-:0 ; / P:1:n:-:1 P:1:i:-:0 P:1:n:-:1 P:1:n:-:1 ; D:0", ["0" * 9 + "1" * 40, "0" * 9 + "1" * 5 + "0" * 3 + "1" * 40]),
    # a cancelled callback is SKIPPED on thread 0; later thread 0 (outside any callback) cancel-and-waits on the id
    # while thread 1 runs a callback of it: must wait (count 1 is not thread 0's own dispatch)
    ("2 1 / / D:0 P:1:n:0:0 W:0 ; P:0:n:0:0 C:0 D:0", ["11111" + "00000" + "0000" + "1111" + "00" + "01" * 20,
                                                        "11111" + "00000" + "0000" + "111" + "000" + "01" * 20]),
    ("2 1 / / D:0 P:1:n:0:0 X:0 ; P:0:n:0:0 C:0 D:0", ["11111" + "00000" + "0000" + "1111" + "0000" + "01" * 20]),
    # mutual cancel with the 0x8 handshake (both inside a callback on the shared id)
    ("2 1 / X:0 / P:1:n:0:0 D:0 ; P:0:n:0:0 D:0", ["01" * 40, "0" * 12 + "1" * 30 + "0" * 30, "0011" * 20, "000111" * 14]),
    # mutual cancel with the single-argument form: deadlocks (both wait for the other's count)
    ("2 1 / W:0 / P:1:n:0:0 D:0 ; P:0:n:0:0 D:0", ["01" * 40, "0011" * 20]),
    # ABA: post's fetch_add/fetch_sub between the canceller's load and CAS
    ("2 1 / / W:0 ; P:0:n:0:0 D:0", ["0" + "1" * 4 + "0" * 3 + "1" * 12, "01" * 15]),
    # cancel while the target is between fetch_add and run
    ("2 1 / / P:1:n:0:0 W:0 ; D:0", ["0000" + "111" + "000" + "1" * 10 + "0" * 10, "0000" + "1111" + "0000" + "1" * 8 + "0" * 8]),
    # two-arg cancel from inside a callback while the other thread runs a callback of the same id
    ("2 1 / X:0 ; / P:1:n:0:1 D:0 ; P:0:n:0:0 D:0", ["0" * 4 + "1" * 4 + "0" * 4 + "1" * 3 + "0" * 12 + "1" * 12, "01" * 30]),
    # three threads, two posters to one target, interrupt priority
    ("3 2 / ; C:1 / P:2:n:0:0 P:2:i:0:1 ; P:2:i:1:0 P:2:n:1:0 W:1 ; D:0 D:1 D:0", ["012" * 40, "001122" * 20, "0" * 8 + "1" * 11 + "2" * 40 + "01" * 10]),
    # nested post from a callback back to the poster
    ("2 1 / P:0:n:0:1 ; / P:1:n:0:0 D:0 D:0 ; D:0 D:0", ["01" * 40, "0" * 5 + "1" * 30 + "0" * 30]),
    # only_interrupt dispatch leaves normal callbacks queued
    ("2 1 / / P:1:n:-:0 P:1:i:-:0 P:1:n:0:0 ; D:1 D:0", ["0" * 12 + "1" * 30, "01" * 30]),
    # id-less first-push interrupt, then second push without interrupt
    ("2 1 / / P:1:n:-:0 P:1:n:-:0 ; D:0", ["0" * 6 + "1" * 12, "0" * 2 + "1" * 3 + "0" * 4 + "1" * 12]),
]


def rand_cmd(r, n, nids, nbodies, t, in_body, posts_left):
    x = r.random()
    if x < (0.35 if in_body else 0.45) and posts_left[0] > 0:
        posts_left[0] -= 1
        tgt = r.choice([i for i in range(n) if i != t] or [t]) if (in_body or r.random() < 0.9) else t
        if in_body:
            tgt = r.randrange(n)
        idv = "-" if r.random() < 0.15 else str(r.randrange(nids))
        return "P:%d:%s:%s:%d" % (tgt, r.choice("nni"), idv, r.randrange(nbodies))
    if x < 0.6:
        return "C:%d" % r.randrange(nids)
    if x < 0.8:
        return "W:%d" % r.randrange(nids)
    return "X:%d" % r.randrange(nids)


def rand_program(r, poll=False):
    n = r.choice([2, 2, 3])
    nids = r.choice([1, 1, 2])
    nbodies = r.choice([2, 3, 4])
    posts_left = [r.choice([2, 3, 4, 6])]
    bodies = [""]
    for _ in range(nbodies - 1):
        k = r.choice([0, 1, 1, 2])
        bodies.append(" ".join(rand_cmd(r, n, nids, nbodies, 0, True, posts_left) for _ in range(k)))
    progs = []
    for t in range(n):
        cmds = []
        for _ in range(r.choice([1, 2, 3, 4])):
            if poll and r.random() < 0.15:
                cmds.append("L")
            elif r.random() < 0.35:
                cmds.append("D:%d" % (1 if r.random() < 0.25 else 0))
            else:
                cmds.append(rand_cmd(r, n, nids, nbodies, t, False, posts_left))
        cmds.append("D:0")
        if r.random() < 0.5:
            cmds.append("D:0")
        progs.append(" ".join(cmds))
    return "%d %d / %s / %s" % (n, nids, " ; ".join(bodies), " ; ".join(progs)), n


def rand_schedule(r, n, length):
    s = []
    while len(s) < length:
        t = r.randrange(n)
        burst = r.choice([1, 1, 1, 2, 3, 5, 9])
        s += [str(t)] * burst
    return "".join(s[:length]) + "".join(str(i) for i in range(n)) * 40


def corpus():
    out = []
    for f in sorted(glob.glob(os.path.join(HERE, "..", "corpus", "C17", "*.case"))):
        for l in open(f):
            l = l.strip()
            if l and not l.startswith("#"):
                out.append(l)
    return out


def have_poll_hooks():
    repo = os.environ.get("LTV_REPO", "/repo")
    try:
        return "poll_enter" in open(os.path.join(repo, "src/torrent/system/poll_epoll.cc")).read()
    except OSError:
        return False

# poll handshake (needs hooks/c17b.patch): L = one Poll::do_poll pass
HAND_POLL = [
    # a normal callback posted after the target's process_callbacks pass and before it enters poll: do_interrupt is a
    # no-op (not polling); poll() must see has_any_callbacks and not sleep the full timeout
    ("2 1 / / D:0 L D:0 ; P:0:n:-:0", ["00" + "11" + "000" + "0" * 8, "0" + "11" + "0" + "000" + "0" * 8, "00" + "1" + "0" + "1" + "00" + "0" * 8]),
    ("2 1 / / D:0 L D:0 ; P:0:n:0:0", ["00" + "1111" + "000" + "0" * 8, "00" + "11" + "0" + "11" + "00" + "0" * 8]),
    ("2 1 / / D:0 L D:0 ; P:0:i:-:0", ["00" + "11" + "000" + "0" * 8]),
    # post while the target IS polling: do_interrupt must set flag_interrupted
    ("2 1 / / L D:0 ; P:0:n:-:0", ["00" + "11" + "0" + "0" * 8, "0" + "11" + "00" + "0" * 8]),
    ("2 1 / / L L D:0 ; P:0:n:-:0 P:0:i:-:0", ["01" * 12, "0011" * 6]),
]
EXHAUSTIVE_POLL = ["2 1 / / D:0 L D:0 ; P:0:n:-:0", "2 1 / / L D:0 ; P:0:n:0:0"]


def gen(seed, tier):
    """returns (cases, stats, enum_requests). enum_requests: [(program, limit)] to be expanded by the model's ENUM mode."""
    r = random.Random(seed)
    cases = corpus()
    stats = {"corpus": len(cases)}
    for prog, scheds in HAND:
        for s in scheds:
            cases.append(prog + " / " + s)
    poll = have_poll_hooks()
    if poll:
        for prog, scheds in HAND_POLL:
            for sc in scheds:
                cases.append(prog + " / " + sc)
    stats["hand"] = len(cases) - stats["corpus"]
    stats["poll_hooks"] = poll
    nprog = 400 if tier == "quick" else 2500
    nsched = 12 if tier == "quick" else 24
    nrand = 0
    for _ in range(nprog):
        prog, n = rand_program(r, poll)
        for _ in range(nsched):
            cases.append(prog + " / " + rand_schedule(r, n, r.choice([10, 25, 40, 60])))
            nrand += 1
    stats["random_programs"] = nprog
    stats["random_cases"] = nrand
    enum = [(p, 100000) for p in EXHAUSTIVE_QUICK] + ([(p, 100000) for p in EXHAUSTIVE_POLL] if poll else [])
    if tier != "quick":
        enum += [(p, 60000) for p in EXHAUSTIVE_THOROUGH] + list(EXHAUSTIVE_PREFIX)
    return cases, stats, enum
