"""C02 constants re-extracted from /repo on every run (see gen/params.py)."""
ENTRIES = [
    # FileList::left_bytes sanity bound: left > (uint64_t{1} << 60) -> internal_error
    ("c02_left_bytes_limit_shift", "src/torrent/data/file_list.cc",
     r"if \(left > \(uint64_t\{1\} << (\d+)\)\)", "N"),
    # DownloadConstructor::parse_info piece length window: (1 << 10) < piece_length <= (512 << 20)
    ("c02_loader_piece_length_min_excl", "src/download/download_constructor.cc",
     r"if \(piece_length <= (\(1 << \d+\))", "N"),
    ("c02_loader_piece_length_max", "src/download/download_constructor.cc",
     r"piece_length > (\(\d+ << \d+\))\)", "N"),
    # File::flag_attr_padding bit
    ("c02_flag_attr_padding_shift", "src/torrent/data/file.h",
     r"flag_attr_padding\s*=\s*\(1 << (\d+)\)", "N"),
]
