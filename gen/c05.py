"""C05 case generator + python property oracle helpers.

Case line:  plen=<n> total=<n> done=<01..> seed=<n> files=<a,b,..> [enc=1] | op ...
  enc=1    RC4 stream (the scripted peer negotiates MSE first)      enc=2  MSE handshake, plaintext stream (crypto_select 1)
  out=1    the library makes the connection (scripted peer = MSE responder); needs enc=1|2
  R:i:b:l  REQUEST     C:i:b:l  CANCEL     D:0 / D:1  unchoke / choke decision
  W:k      the library-side socket accepts k more bytes in this event_write      W:inf  unlimited
Normal form (the harness needs it): D:1 never directly follows R/C/D:0 and is always followed by a W
(a W:0 is inserted), at most
two D:1 per case (each later D:0 costs 11 s of virtual time and no 30 s tick may fall in a case),
every case ends with W:inf."""
import glob
import os
import random

TWO32 = 1 << 32
LIMIT = 1 << 17


class Layout:
    def __init__(self, plen, files, done, seed=1, off=None):
        self.plen, self.files, self.seed, self.off = plen, files, seed, off
        self.total = sum(files)
        self.n = (self.total + plen - 1) // plen
        self.done = done if done is not None else "1" * self.n
        assert len(self.done) == self.n

    def psize(self, i):
        if i + 1 != self.n or self.total % self.plen == 0:
            return self.plen
        return self.total % self.plen

    def head(self, enc=0, out=False, role=None, rate=0):
        """enc: 0 plain, 1 MSE + RC4 stream, 2 MSE handshake + plaintext stream; out: the library connects out
        (needs enc 1|2); role='iseed': initial-seeding torrent (oracle only, see props/c05.py)"""
        return "plen=%d total=%d done=%s seed=%d files=%s%s%s%s" % (  # noqa
            self.plen, self.total, self.done, self.seed, ",".join(map(str, self.files)),
            " enc=%d" % int(enc) if enc else "", " out=1" if (out and enc) else "",
            (" role=%s" % role if role else "") + (" rate=%d" % rate if rate else "") +
            (" off=%s" % self.off if self.off else ""))

    def parts(self, i):
        """[(begin, end)] offsets inside piece i of the non-empty file parts it is made of"""
        lo, hi = i * self.plen, i * self.plen + self.psize(i)
        out, g = [], 0
        for f in self.files:
            a, b = max(g, lo), min(g + f, hi)
            if b > a:
                out.append((a - lo, b - lo))
            g += f
        return out


def parse_head(h):
    kv = dict(t.split("=", 1) for t in h.split() if "=" in t)
    return Layout(int(kv["plen"]), [int(x) for x in kv["files"].split(",")], kv["done"], int(kv["seed"]), kv.get("off"))


LAYOUTS = [
    Layout(32768, [50000, 70001, 5], "1111"),            # multi-file pieces, short last piece
    Layout(32768, [50000, 70001, 5], "1101"),            # piece 2 not verified
    Layout(262144, [300000, 1, 299999], "111", seed=2),  # 2^17 blocks fit in a piece
    Layout(16384, [1, 16383, 32768], "111", seed=3),     # size is a multiple of the piece length
    Layout(2048, [1, 2, 3, 700, 0, 4294], "101", seed=4),  # tiny pieces, zero-length file, many boundaries
    Layout(524288, [700000, 300000, 200000], "111", seed=5),  # pieces 4 x the 2^17 limit: requests of 131073 .. piece length
]


def normalize(ops, rate=0):
    """insert W:0 before a D:1 that follows R/C/D:0, cap D:1 at two, end with W:inf"""
    out, chokes = [], 0
    for o in ops:
        if o == "D:1":
            if chokes >= 2:
                continue
            chokes += 1
            if out and out[-1][0] in "RCN" or (out and out[-1] == "D:0"):
                out.append("W:0")
        out.append(o)
    # the library gets write opportunities (event_write with nothing accepted) while virtual time
    # passes before a later D:0: make that explicit for the model as a W:0 right after every D:1
    out2 = []
    seen_choke = False
    for j, o in enumerate(out):
        # lifting a snub unchokes at once (since /repo d278df5 the snub keeps the peer's interest), so a
        # D:0 after a D:1 must not have unflushed requests in front of it
        if o == "D:0" and seen_choke and out2 and out2[-1][0] in "RCN":
            out2.append("W:0")
        if o == "N":
            seen_choke = True
        # a keep-alive tick / quota grant acts on the library at once: no unflushed messages in front of it
        if (o == "K" or o[0] == "Q") and out2 and (out2[-1][0] in "RCN" or out2[-1] == "D:0"):
            out2.append("W:0")
        out2.append(o)
        if o == "D:1":
            seen_choke = True
        # any stepping of the library (e.g. the virtual time a later D:0 needs) is a write opportunity:
        # make the one right after a choke decision / keep-alive tick explicit for the model
        if o in ("D:1", "K"):
            if not (j + 1 < len(out) and out[j + 1][0] == "W"):
                out2.append("W:0")
    out = out2
    if rate:
        # let every queued block finish: two grants (the first lands in the unthrottled pool, the second
        # moves it to the unallocated quota the node may use), then an unlimited write
        out += ["W:0", "Q:3000000", "Q:3000000", "W:inf", "Q:3000000", "W:inf"]
    if not out or out[-1] != "W:inf":
        out.append("W:inf")
    return out


def rk(r):
    c = r.random()
    if c < 0.25:
        return r.choice([0, 0, 1, 2, 3, 4, 5, 6, 12, 13, 14, 17, 18, 19, 23])
    if c < 0.5:
        return r.randrange(0, 200)
    if c < 0.8:
        return r.randrange(0, 40000)
    if c < 0.9:
        return "inf"
    return r.choice([16383, 16384, 16385, 16397, 16402, 131072, 131085])


def valid_req(r, L, small=False):
    for _ in range(50):
        i = r.randrange(L.n)
        ps = L.psize(i)
        c = r.random()
        if c < 0.35:
            l = min(16384, ps)
            b = (r.randrange(0, max(1, ps // max(1, l)))) * l if ps >= l else 0
        elif c < 0.55:
            l = r.randrange(1, min(ps, LIMIT) + 1)
            b = ps - l                         # ends exactly at the piece end
        elif c < 0.65:
            l = min(ps, LIMIT)
            b = r.randrange(0, ps - l + 1)
        else:
            l = r.randrange(1, min(ps, 2000 if small else LIMIT) + 1)
            b = r.randrange(0, ps - l + 1)
        if small and l > 3000:
            continue
        if b + l <= ps and l > 0:
            return (i, b, l)
    return (0, 0, 1)


def inner_part_req(r, L):
    """a block lying wholly inside a NON-FIRST file part of a piece made of several files"""
    cands = [(i, p) for i in range(L.n) if L.done[i] == "1" for p in L.parts(i)[1:] if p[1] - p[0] >= 1]
    if not cands:
        return valid_req(r, L, True)
    i, (a, b) = r.choice(cands)
    l = r.randrange(1, min(b - a, LIMIT) + 1)
    if r.random() < 0.4:
        l = min(l, 600)
    off = r.choice([a, b - l, r.randrange(a, b - l + 1)])
    return (i, off, l)


def boundary_req(r, L):
    i = r.randrange(L.n)
    ps = L.psize(i)
    k = r.randrange(20)
    if k == 16:
        return (i, 0, ps)                     # the whole piece (over the limit when the piece is big)
    if k == 17:
        return (i, 0, min(ps, LIMIT + 1 + r.randrange(0, 5)))
    if k == 18:
        return (i, 0, min(ps, r.randrange(LIMIT + 1, max(LIMIT + 2, L.plen + 1))))
    if k == 19:
        return (i, max(0, ps - LIMIT - 1), min(ps, LIMIT + 1))
    if k == 0:
        return (i, ps - 1, 2)                 # one past the end
    if k == 1:
        return (i, ps, 1)
    if k == 2:
        return (i, 0, ps + 1 if ps + 1 <= LIMIT else LIMIT)
    if k == 3:
        return (i, TWO32 - 1, 2)              # begin+len wraps to 1
    if k == 4:
        return (i, TWO32 - 100, 200)
    if k == 5:
        return (i, TWO32 - 1, 1)              # wraps to 0
    if k == 6:
        return (i, 0, 0)
    if k == 7:
        return (i, r.randrange(0, ps), 0)
    if k == 8:
        return (i, 0, LIMIT)                  # valid iff the piece is big enough
    if k == 9:
        return (i, 0, LIMIT + 1)              # never queued
    if k == 10:
        return (L.n, 0, 1)                    # index = piece count
    if k == 11:
        return (TWO32 - 1, 0, 1)
    if k == 12:
        return (L.n - 1, 0, L.plen)           # full piece length on the (maybe short) last piece
    if k == 13:
        return (i, 1, TWO32 - 1)              # len over limit and wrapping
    if k == 14:
        return (i, ps - 1, 1)                 # last byte: valid
    return (i, 0, min(ps, LIMIT))             # whole piece / max block: valid


def fmt(kind, t):
    return "%s:%d:%d:%d" % (kind, t[0], t[1], t[2])


def gen_stream(r, L, mode, rate=0):
    """rate > 0: throttled case -- Q:<n> grants quota to the real throttle; no D:1 (no virtual time may pass)"""
    ops = []
    budget = 400000            # payload bytes we are willing to move in one case
    sent = []
    if r.random() < 0.15:
        ops.append(fmt("R", valid_req(r, L, True)))   # while still choked
        if r.random() < 0.5:
            ops.append("W:%s" % rk(r))
    ops.append("D:0")
    n = r.randrange(3, 40)
    for _ in range(n):
        c = r.random()
        if c < 0.5:
            if mode == "parts":
                t = inner_part_req(r, L) if r.random() < 0.8 else valid_req(r, L, True)
            elif mode == "valid" or r.random() < 0.6:
                t = valid_req(r, L, budget < 100000)
            elif mode == "boundary":
                t = boundary_req(r, L)
            else:
                t = (r.choice([r.randrange(TWO32), r.randrange(L.n + 2)]),
                     r.choice([r.randrange(TWO32), r.randrange(L.plen + 2)]),
                     r.choice([r.randrange(TWO32), r.randrange(LIMIT + 2), 0]))
            if budget - t[2] < 0 and t[2] <= LIMIT:
                continue
            if t[2] <= LIMIT:
                budget -= t[2]
            sent.append(t)
            ops.append(fmt("R", t))
        elif c < 0.58 and sent:
            ops.append(fmt("R", r.choice(sent)))        # duplicate
        elif c < 0.68 and sent:
            ops.append(fmt("C", r.choice(sent)))        # cancel (maybe already served)
        elif c < 0.70:
            ops.append(fmt("C", valid_req(r, L, True)))  # cancel of something never requested
        elif c < 0.90:
            ops.append("W:%s" % rk(r))
        elif c < 0.93:
            ops.append("K")
        elif c < 0.94 and not rate:
            ops.append("N")
        elif rate and c < 0.99:
            ops.append("Q:%d" % r.choice([0, 1, 500, 1023, 1024, 1025, 3000, 5000, 16384, 20000, r.randrange(0, 40000)]))
        elif c < 0.96:
            if not rate:
                ops.append("D:1")
        else:
            ops.append("D:0")
    return normalize(ops, rate)


HAND = [
    "D:0 R:0:100:16384 R:1:32000:768 W:20 W:inf",
    "D:0 R:0:0:16384 R:0:16384:16384 R:0:0:16384 C:0:16384:16384 W:inf",
    "R:0:0:10 W:0 D:0 R:3:0:21702 R:3:0:21703 R:1:5:5 W:inf",
    "D:0 R:0:0:16384 R:1:0:16384 R:2:0:16384 W:100 D:1 W:50 R:3:0:10 W:inf D:0 R:3:0:10 W:inf",
    "D:0 R:0:4294967295:2 W:inf",
    "D:0 R:0:0:0 W:inf",
    "D:0 W:3 W:1 W:1 R:0:0:5 W:10 W:3 W:2 W:inf",
    "D:0 R:4:0:1 W:inf",
    "D:0 R:0:0:1 W:0 D:1 D:0 R:0:1:1 W:inf",
    "D:0 W:0 D:1 D:0 W:inf",
    "D:0 R:0:0:100 R:0:100:100 W:0 D:1 W:0 D:0 R:0:200:100 W:inf",
    "D:0 R:0:0:100 R:0:100:100 W:18 D:1 W:1 W:200 R:0:300:1 W:inf",
    "D:0 R:0:0:100 W:0 C:0:0:100 W:inf",
    "D:0 R:0:0:100 R:1:0:100 W:0 C:1:0:100 W:inf",
    "D:0 R:0:0:131072 R:0:0:131073 R:0:1:131072 W:inf",
    # the peer chokes itself (NOT_INTERESTED) right behind a request, before anything was uploaded; later it
    # is unchoked again: the request must be gone
    "D:0 W:inf R:0:0:100 N W:inf D:0 W:inf",
    "D:0 R:0:0:100 R:1:0:50 N W:inf D:0 R:1:5:5 W:inf",
    "D:0 R:0:0:100 W:inf R:0:100:100 N R:0:200:100 W:inf D:0 W:inf",
    # keep-alive ticks: idle, while the PIECE header is partly flushed, in the middle of the payload
    "D:0 R:0:0:100 W:9 K W:3 K W:inf K K W:2 W:inf",
    "D:0 W:inf K R:0:0:100 W:7 K W:0 K W:inf",
    "D:0 R:0:0:16384 R:0:16384:100 W:5 K W:12 K W:1 K W:5000 K W:inf K W:inf",
]

# RC4 stream: blocks inside the 2nd file part of piece 1 (layout 0/1: part boundary at 17232), partial
# writes inside the header, inside the encrypt buffer, across refills
HAND_ENC = [
    "D:0 R:1:20000:12768 R:1:17300:100 R:1:17000:500 W:18 W:0 W:5000 W:1 W:20000 W:inf",
    "D:0 R:1:17232:1 R:1:17231:2 R:1:32767:1 W:inf",
    "D:0 R:0:100:16384 R:1:32000:768 W:20 W:inf",
    "D:0 R:0:0:16384 R:1:0:16384 R:2:0:16384 W:100 D:1 W:50 R:3:0:10 W:inf D:0 R:3:0:10 W:inf",
    "D:0 R:3:21000:702 R:3:21697:5 R:3:21696:6 W:3 W:9 W:1 W:700 W:inf",
]
# throttled (rate=20000: min chunk 1024): the staging buffer gets less than a block, the socket takes a part,
# more quota arrives than is left in the buffer
HAND_THR = [
    "D:0 R:1:17300:12000 W:inf Q:3000 W:1000 Q:5000 W:inf Q:20000 W:inf",
    "D:0 R:1:17300:12000 R:0:0:5 W:inf Q:3000 W:1000 Q:5000 W:inf Q:20000 W:inf",
    "D:0 R:1:20000:12768 W:inf Q:2000 W:700 Q:1100 W:300 Q:9000 W:5000 Q:20000 W:inf",
    "D:0 R:0:0:16384 R:1:17232:6000 W:100 Q:1023 W:inf Q:1 W:inf Q:4000 W:2500 K Q:3000 W:inf Q:30000 W:inf",
]
# partial seeding: the files holding every incomplete piece are PRIORITY_OFF (+ update_priorities), so nothing
# is wanted any more although piece 2 never verified (junk on disk); requests for it must not be answered
PARTIAL = [
    Layout(32768, [50000, 70001, 5], "1101", off="1,2"),
    Layout(2048, [1, 2, 3, 700, 0, 4294], "101", seed=4, off="5"),
]
HAND_PARTIAL = [
    "D:0 R:2:0:16384 W:inf",
    "D:0 R:0:0:100 R:2:5:100 R:1:0:100 W:inf",
    "D:0 R:1:0:64 W:inf R:2:32767:1 W:inf",
]
HAND_BIG = [   # layout 5 (512 KiB pieces): the 2^17 clause on its own
    "D:0 R:0:0:131072 W:inf R:1:0:131073 R:2:0:151424 R:0:0:524288 R:1:1000:262144 W:inf R:0:5:10 W:inf",
    "D:0 R:1:175712:131072 R:1:175712:131073 R:1:175713:131072 W:70000 W:inf",
]


def gen(seed, tier):
    r = random.Random(seed * 7919 + 5)
    cases, stats = [], {"corpus": 0, "hand": 0, "valid": 0, "boundary": 0, "malformed": 0, "queue_limit": 0,
                        "exhaustive_small": 0}
    here = os.path.dirname(os.path.dirname(os.path.abspath(__file__)))
    for f in sorted(glob.glob(os.path.join(here, "corpus", "C05", "*.case"))):
        for l in open(f):
            l = l.strip()
            if l and not l.startswith("#"):
                cases.append(l)
                stats["corpus"] += 1
    for L in LAYOUTS[:3]:
        for h in HAND:
            cases.append(L.head() + " | " + " ".join(normalize(h.split())))
            stats["hand"] += 1
    for L in LAYOUTS[:2]:
        for h in HAND_ENC:
            cases.append(L.head(True) + " | " + " ".join(normalize(h.split())))
            stats["hand"] += 1
    for L in LAYOUTS[:2]:
        for h in HAND_THR:
            for e in (0, 1):
                cases.append(L.head(e, False, None, 20000) + " | " + " ".join(normalize(h.split(), 20000)))
                stats["hand"] += 1
    stats["partial_seeding"] = 0
    for L in PARTIAL:
        for e in (0, 1):
            for h in HAND_PARTIAL:
                h2 = h if L.n > 2 and L.done[2:3] == "0" else h.replace("R:2:", "R:1:").replace("R:1:0:64", "R:0:0:64").replace("1:32767:1", "1:2047:1")
                cases.append(L.head(e) + " | " + " ".join(normalize(h2.split())))
                stats["partial_seeding"] += 1
        for j in range(12 if tier == "quick" else 120):
            cases.append(L.head(r.choice([0, 1])) + " | " + " ".join(gen_stream(r, L, ("valid", "parts", "boundary")[j % 3])))
            stats["partial_seeding"] += 1
    for e in (False, True):
        for h in HAND_BIG:
            cases.append(LAYOUTS[5].head(e) + " | " + " ".join(normalize(h.split())))
            stats["hand"] += 1
    nval, nbnd, nmal, npar = (60, 90, 40, 60) if tier == "quick" else (500, 700, 300, 500)
    stats.update(parts=0, rc4=0, plain=0, mse_plain=0, outgoing=0, throttled=0)
    for j in range(40 if tier == "quick" else 400):
        L = LAYOUTS[(0, 1, 4, 2)[j % 4]]
        e = 1 if r.random() < 0.6 else 0
        rate = r.choice([5000, 20000, 20000, 100000])
        cases.append(L.head(e, False, None, rate) + " | " + " ".join(gen_stream(r, L, ("parts", "valid")[j % 2], rate)))
        stats["throttled"] += 1
    for L in LAYOUTS[:2]:
        for h in HAND_ENC[:3]:
            for (e, o) in ((1, True), (2, True), (2, False)):
                cases.append(L.head(e, o) + " | " + " ".join(normalize(h.split())))
                stats["hand"] += 1
    for mode, cnt in (("valid", nval), ("boundary", nbnd), ("malformed", nmal), ("parts", npar)):
        for j in range(cnt):
            L = LAYOUTS[j % len(LAYOUTS)]
            if mode == "parts":
                L = LAYOUTS[(0, 1, 4, 5, 2)[j % 5]]
            e = 1 if r.random() < (0.7 if mode == "parts" else 0.4) else (2 if r.random() < 0.15 else 0)
            o = e != 0 and r.random() < 0.3
            cases.append(L.head(e, o) + " | " + " ".join(gen_stream(r, L, mode)))
            stats[mode] += 1
            stats[("rc4", "plain", "mse_plain")[(1, 0, 2).index(e)]] += 1
            stats["outgoing"] += 1 if o else 0
    # initial-seeding role (oracle only): the library offers pieces with HAVE, may drop requests and choke
    stats["iseed"] = 0
    for j in range(30 if tier == "quick" else 200):
        L = LAYOUTS[(0, 3, 2)[j % 3]]
        e = r.choice([0, 0, 1, 2])
        cases.append(L.head(e, False, "iseed") + " | " + " ".join(gen_stream(r, L, ("valid", "boundary", "parts")[j % 3])))
        stats["iseed"] += 1
    # queue bound: more than 2048 outstanding one-byte requests, writer blocked
    for L in (LAYOUTS[0],) if tier == "quick" else (LAYOUTS[0], LAYOUTS[3]):
        ps = L.psize(0)
        ops = ["D:0"] + ["R:0:%d:1" % (j % ps) for j in range(2052)] + ["W:0"] + \
              ["R:1:%d:1" % j for j in range(3)] + ["W:40", "C:0:7:1", "R:1:9:1", "W:inf"]
        cases.append(L.head() + " | " + " ".join(ops))
        stats["queue_limit"] += 1
    if tier == "thorough":
        # exhaustive small scope: every op list of length <= 4 over a 6-op alphabet, on layout 4
        L = LAYOUTS[4]
        alpha = ["R:0:0:3", "R:1:0:1", "R:2:2040:8", "C:0:0:3", "D:1", "W:7"]
        import itertools
        for n in range(1, 5):
            for combo in itertools.product(alpha, repeat=n):
                cases.append(L.head() + " | " + " ".join(normalize(["D:0"] + list(combo))))
                stats["exhaustive_small"] += 1
    return cases, stats


def model_case(case, impl_line, policy):
    """The case as the MODEL driver gets it: the probed policy in the header, and before every W the throttle
    state the harness read from the real ThrottleList just before that write step (field thr= of the
    implementation's output; only present for rate= cases)."""
    head, _, ops = case.partition("|")
    head = head.rstrip() + " " + policy
    x = dict(t.split("=", 1) for t in impl_line.partition(" || ")[2].split() if "=" in t)
    obs = [] if x.get("thr", "-") in ("-", "") else x["thr"].split(",")
    out, j = [], 0
    for o in ops.split():
        if o[0] == "W" and j < len(obs):
            out.append("T:" + obs[j])
            j += 1
        out.append(o)
    return head + " | " + " ".join(out)


# ------------------------------------------------------------------ property oracle (python)

def oracle(case, line):
    """C05 evaluated on ONE implementation output line; independent of the Coq model.
    Returns list of (klass, text)."""
    bad = []
    if line.startswith("CRASH") and "TIMEOUT" in line:
        return [("hang", "the implementation did not finish this case within the watchdog time: " + line[:120])]
    if line.startswith("CRASH") or line.startswith("ERR:internal"):
        return [("crash", "upload path crashed or raised internal_error: " + line[:200])]
    if line.startswith("ERR") or line.startswith("BADCASE") or line == "MISSING":
        return []          # harness trouble, reported as broken correspondence by the caller
    head, _, opstr = case.partition("|")
    L = parse_head(head)
    iseed = " role=iseed" in head
    main, _, extra = line.partition(" || ")
    if " ERR:" in main:
        return []          # harness trouble (reported as broken correspondence)
    f = dict(t.split("=", 1) for t in main.split() if "=" in t)
    x = dict(t.split("=", 1) for t in extra.split() if "=" in t)
    msgs = [] if f.get("msgs", "-") == "-" else f["msgs"].split(",")
    pay = "" if x.get("pay", "-") == "-" else x["pay"]
    # requests by op position with the choke state decided at that time; effective D:1 ordinal
    choked, nchoke = True, 0
    reqs = []          # (triple, eligible, chokes_so_far)
    for o in opstr.split():
        k = o.split(":")
        if k[0] == "D" or k[0] == "N":
            c = k[0] == "N" or k[1] == "1"
            if c != choked:
                choked = c
                if c:
                    nchoke += 1
        elif k[0] == "R":
            reqs.append(((int(k[1]), int(k[2]), int(k[3])), not choked, nchoke))
    used = {}
    seen_c1 = 0
    pi = 0
    for m in msgs:
        if m == "C1":
            seen_c1 += 1
            continue
        if not m.startswith("P:"):
            continue
        _, i, b, l = m.split(":")
        t = (int(i), int(b), int(l))
        ok_pay = pi < len(pay) and pay[pi] == "1"
        pi += 1
        cands = [q for q in reqs if q[0] == t and q[1]]
        if not cands:
            bad.append(("piece-not-requested", "PIECE %s does not answer any REQUEST received while unchoked" % m))
        else:
            # (initial seeding chokes on its own, so its CHOKEs cannot be matched with the D:1 ops)
            if not iseed and not any(q[2] >= seen_c1 for q in cands):
                bad.append(("piece-after-choke", "PIECE %s answers only requests that a written CHOKE had discarded" % m))
            used[t] = used.get(t, 0) + 1
            if used[t] > len(cands):
                bad.append(("piece-twice", "PIECE %s sent more often than requested" % m))
        # the property's own length clause, on the implementation's output alone: nothing here depends
        # on the model or on the constant extracted from the source
        if t[2] == 0 or t[2] > 131072:
            bad.append(("piece-length", "PIECE %s has a length outside (0, 2^17]" % m))
        if t[0] >= L.n or t[1] + t[2] > L.psize(min(t[0], L.n - 1)):
            bad.append(("piece-range", "PIECE %s lies outside the piece" % m))
        elif L.done[t[0]] != "1":
            bad.append(("piece-unverified", "PIECE %s sent for a piece that is not completed" % m))
        if not ok_pay:
            bad.append(("piece-bytes", "payload of PIECE %s differs from the verified content" % m))
    if x.get("leak", "-") != "-":
        bad.append(("chunk-leak", "chunk references left after the connection was closed: " + x["leak"]))
    if "trail" in f:
        bad.append(("partial-message", "connection ended inside a message"))
    return bad
