"""C12: constants of the throttle code re-extracted from /repo into Params_gen.v."""
import re


def _sh(a, b):
    return int(a) << int(b)


def _table(m):
    body = m.group(1)
    pairs = re.findall(r"if \(m_maxRate <= \((\d+) << (\d+)\)\)\s*return \((\d+) << (\d+)\);", body)
    if not pairs:
        return None
    return "[" + "; ".join("(%d%%N, %d%%N)" % (_sh(a, b), _sh(c, d)) for a, b, c, d in pairs) + "]"


def _default(m):
    return _sh(m.group(1), m.group(2))


ENTRIES = [
    ("throttle_chunk_table", "src/torrent/throttle.cc",
     r"Throttle::calculate_min_chunk_size\(\) const \{(.*?)\n\}", "list (N * N)", _table),
    ("throttle_chunk_default", "src/torrent/throttle.cc",
     r"Throttle::calculate_min_chunk_size\(\) const \{.*?else\s*return \((\d+) << (\d+)\);\s*\}", "N", _default),
    ("throttle_max_chunk_factor", "src/torrent/throttle.cc",
     r"return calculate_min_chunk_size\(\) \* (\d+);", "N"),
    ("throttle_list_min_chunk_init", "src/net/throttle_list.h", r"m_minChunkSize\{(\d+ << \d+)\}", "N"),
    ("throttle_list_max_chunk_init", "src/net/throttle_list.h", r"m_maxChunkSize\{(\d+ << \d+)\}", "N"),
    ("throttle_tick_min_interval_ms", "src/net/throttle_internal.cc", r"m_time_last_tick \+ (\d+)ms", "N"),
    ("throttle_fraction_bits", "src/net/throttle_internal.h", r"fraction_bits = (\d+);", "N"),
    ("rate_limit_bytes_shift", "src/torrent/rate.cc", r"bytes > \(rate_type\{1\} << (\d+)\)", "N"),
    ("rate_limit_cur_shift", "src/torrent/rate.cc", r"m_current > \(rate_type\{1\} << (\d+)\)", "N"),
]
