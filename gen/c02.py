"""C02 case generators + python reference oracle (independent of both model and implementation).

Case line:   <cs> <layout> { ; <op> }*        layout ::= size[p],size[p],...   ('p' = padding)
  op ::= C <off> <len> <w> <pos> <datahex|-> <rpos> <rn>    create_chunk(off,len); from_buffer (if w);
       | I <idx> <w> <pos> <datahex|-> <rpos> <rn>          to_buffer(rpos,rn); compare_buffer; sync; delete
       | M <idx> | V <idx> <off> <len> | Q | D
The reference below is the SPECIFICATION of the property (concatenate the files in torrent order),
written without looking at how the code walks files."""
import bisect
import hashlib
import itertools
import os
import random

U32 = 1 << 32
PAGE = os.sysconf("SC_PAGESIZE")


def hx(b):
    return bytes(b).hex() if b else "-"


def parse_layout(s):
    out = []
    for t in s.split(","):
        t = t.split("@", 1)[0]          # loader-driven cases carry "@path"; the layout is the torrent-order list
        pad = t.endswith("p")
        out.append((int(t[:-1] if pad else t), pad))
    return out


def layout_str(lay):
    return ",".join("%d%s" % (s, "p" if p else "") for s, p in lay)


def parse_case(line):
    toks = line.split()
    if toks and toks[0] == "T":
        toks = toks[1:]
    cs, lay = int(toks[0]), parse_layout(toks[1])
    ops, cur = [], []
    for t in toks[2:]:
        if t == ";":
            if cur:
                ops.append(cur)
            cur = []
        else:
            cur.append(t)
    if cur:
        ops.append(cur)
    return cs, lay, ops


class Ref:
    """Specification-level reference: one flat byte stream, files are consecutive windows of it.
    The stream image is sparse (dict, default 0) so multi-GiB layouts cost nothing."""

    def __init__(self, cs, lay):
        self.cs, self.lay = cs, lay
        self.offs = []
        o = 0
        for s, _ in lay:
            self.offs.append(o)
            o += s
        self.total = o
        self.image = {}                   # flat torrent byte stream (padding positions stay 0)
        self.sized = [False] * len(lay)   # file has been ftruncated to its size
        self.npieces = (o + cs - 1) // cs
        self.bits = set()                 # completed bitfield
        self.counted_bits = set()         # bits the per-file counters have seen (mark / update_completed)
        self._ne = [i for i, (s, _) in enumerate(lay) if s > 0]
        self._neoffs = [self.offs[i] for i in self._ne]

    def locate(self, g):
        """the unique (file, offset) holding global byte g"""
        k = bisect.bisect_right(self._neoffs, g) - 1
        i = self._ne[k]
        assert k >= 0 and self.offs[i] <= g < self.offs[i] + self.lay[i][0], g
        return (i, g - self.offs[i])

    def piece_size(self, i):
        return min(self.cs, self.total - i * self.cs)

    def get(self, g):
        return self.image.get(g, 0)

    def file_image(self, i):
        s, pad = self.lay[i]
        if pad:
            return None
        return [self.get(self.offs[i] + t) for t in range(s)] if self.sized[i] else []

    # ---- per-file completed-chunk accounting
    def overlaps(self, j, p):
        s = self.lay[j][0]
        return s > 0 and self.offs[j] < (p + 1) * self.cs and p * self.cs < self.offs[j] + s

    def counted(self, j, p):
        """completing piece p increments file j's counter iff file j overlaps piece p"""
        return self.overlaps(j, p)

    def bits_counted(self, j):
        """set pieces overlapping file j, as of the last mark/recount (S alone does not count yet)"""
        return [p for p in self.counted_bits if self.overlaps(j, p)]

    def mark(self, p):
        self.counted_bits.add(p)
        self.bits.add(p)

    def recount(self):
        self.counted_bits = set(self.bits)


class Unparseable(Exception):
    pass


def fields(o):
    """'k=v k=v ...' -> dict; anything else is an output the oracle refuses to interpret"""
    out = {}
    for x in o.split(" "):
        if "=" not in x:
            raise Unparseable(o)
        k, v = x.split("=", 1)
        out[k] = v
    return out


def oracle(case, line):
    """TOTAL wrapper: whatever the implementation printed, the result is a list of (klass, text); an
    output line that cannot be interpreted (error text where a result belongs, missing fields, ...)
    is itself a violation with this case as replay, never an exception of the check."""
    try:
        return oracle_inner(case, line)
    except Exception as e:          # noqa: the oracle must be total over implementation outputs
        kl = "internal-error" if "ERR:internal" in line else "crash"
        return [(kl, "implementation output cannot be interpreted (%s: %s): %s" % (type(e).__name__, str(e)[:80], line[:160]))]


def oracle_inner(case, line):
    """Property C02 evaluated on ONE implementation output line. Returns list of (klass, text)."""
    if line.startswith("HANG"):
        return [("hang", "the implementation did not answer this case within the per-case watchdog: " + line[:80])]
    if line.startswith(("CRASH", "ERR:internal!", "ERR:local", "ERR:other", "REJECT")) or line in ("MISSING", "BADCASE"):
        return [("crash", "harness/impl crashed, rejected the torrent or raised outside an operation: " + line[:200])]
    cs, lay, ops = parse_case(case)
    outs = line.split(" | ")
    if len(outs) != len(ops):
        return [("shape", "number of outputs differs from number of ops")]
    R = Ref(cs, lay)
    bad = []

    def fail(k, t, j):
        bad.append((k, "op %d (%s): %s" % (j, " ".join(ops[j])[:80], t)))

    for j, (op, o) in enumerate(zip(ops, outs)):
        k = op[0]
        if "ERR:internal!" in o or o.startswith("ERR:local") or o.startswith("ERR:other") or o == "BADOP" or "CLEANUP-ERR" in o:
            fail("unexpected-exception", "unexpected exception: " + o[:120], j)
            continue
        if k in ("Q", "D") and R.total > (1 << 26):
            if o != "skipped-large":
                fail("shape", "dump/query of a layout above 64 MiB must be skipped", j)
            continue
        if k in ("C", "I"):
            if k == "C":
                off, ln = int(op[1]), int(op[2])
                w, pos, data, rpos, rn = op[3] == "1", int(op[4]), op[5], int(op[6]), int(op[7])
                in_range = off + ln <= R.total
            else:
                idx = int(op[1])
                w, pos, data, rpos, rn = op[2] == "1", int(op[3]), op[4], int(op[5]), int(op[6])
                in_range = idx < R.npieces
                off, ln = idx * cs, (R.piece_size(idx) if in_range else 0)
            data = list(bytes.fromhex(data)) if data != "-" else []
            if not in_range:
                if o != "ERR:internal":
                    fail("chunk-out-of-range-accepted", "chunk beyond the torrent was not refused: " + o[:80], j)
                continue
            if o == "ERR:internal":
                fail("chunk-refused", "valid chunk range refused", j)
                continue
            # the specification's segmentation of [off, off+ln): maximal runs inside one file
            runs, t = [], 0
            while t < ln:
                fi, fo = R.locate(off + t)
                ext = min(ln - t, lay[fi][0] - fo)
                runs.append((t, ext, fi, fo))
                t += ext
            touched = [r[2] for r in runs]

            def target(t):
                for (p0, ext, fi, fo) in runs:
                    if p0 <= t < p0 + ext:
                        return fi, fo + (t - p0)
                raise AssertionError(t)

            if o == "NULL":
                # legitimate only for an empty range or a read-only request that meets a file not
                # yet resized
                if ln == 0:
                    continue
                if w or all(R.sized[fi] or lay[fi][1] for fi in touched):
                    fail("chunk-null", "chunk creation failed on a mappable range", j)
                continue
            f = fields(o)
            parts = [] if f["parts"] == "-" else [p.split(":") for p in f["parts"].split(",")]
            got, cpos = [], 0
            for p in parts:
                ppos, psz, pfi, pfo, pk = int(p[0]), int(p[1]), int(p[2]), int(p[3]), p[4]
                if ppos != cpos:
                    fail("parts-not-contiguous", "part position %d, expected %d" % (ppos, cpos), j)
                if psz == 0 or pfi >= len(lay) or lay[pfi][0] == 0:
                    fail("parts-empty", "zero-length part or zero-length file in a chunk", j)
                if pfi < len(lay) and (pk == "p") != lay[pfi][1]:
                    fail("parts-padding-flag", "padding flag of a part differs from the file's", j)
                got.append((ppos, psz, pfi, pfo))
                cpos += psz
                if len(p) > 5 and int(p[5]) != (0 if pk == "p" else pfo % PAGE):
                    fail("mmap-align", "part mapped with page alignment %s, file offset %d" % (p[5], pfo), j)
            if ln <= 8192:
                expb = [(fi, fo + t) for (_, ext, fi, fo) in runs for t in range(ext)]
                gotb = [(pfi, pfo + t) for (_, psz, pfi, pfo) in got for t in range(psz)]
                okc = expb == gotb
            else:
                okc = got == runs
            if not okc:
                fail("parts-cover", "chunk parts do not map byte k to locate(off+k): got %s want %s" % (got[:4], runs[:4]), j)
            if not w and any(not (R.sized[fi] or lay[fi][1]) for fi in touched):
                fail("chunk-on-short-file", "read-only chunk mapped beyond a file's current size", j)
            if w:
                for fi in touched:
                    R.sized[fi] = True
            n = len(data)
            cm = {}
            if w:
                if pos + n > ln:
                    if f["wr"] != "ERR:internal":
                        fail("write-out-of-chunk-accepted", "from_buffer beyond the chunk not refused", j)
                else:
                    if f["wr"] != "ok":
                        fail("write-refused", "valid from_buffer refused: " + f["wr"], j)
                    for t in range(n):
                        fi, fo = target(pos + t)
                        if lay[fi][1]:
                            cm[pos + t] = data[t]
                        else:
                            R.image[off + pos + t] = data[t]
            elif f["wr"] != "skip":
                fail("shape", "wr on read-only chunk", j)

            def view(a, b):
                return [cm.get(t, 0) if lay[target(t)[0]][1] else R.get(off + t) for t in range(a, b)]

            if rpos + rn > ln:
                if f["rd"] != "ERR:internal":
                    fail("read-out-of-chunk-accepted", "to_buffer beyond the chunk not refused", j)
            elif f["rd"] != hx(view(rpos, rpos + rn)):
                fail("read-wrong", "to_buffer returned %s, the mapping says %s" % (f["rd"][:40], hx(view(rpos, rpos + rn))[:40]), j)
            if pos + n > ln:
                if f["cmp"] != "ERR:internal":
                    fail("read-out-of-chunk-accepted", "compare_buffer beyond the chunk not refused", j)
            else:
                want = "1" if view(pos, pos + n) == data else "0"
                if f["cmp"] != want:
                    fail("compare-wrong", "compare_buffer returned %s, expected %s" % (f["cmp"], want), j)
        elif k == "X":
            idx, w, first, last = int(op[1]), op[2] == "1", int(op[3]), int(op[4])
            steps = [] if op[6] == "-" else [int(x) for x in op[6].split(",")]
            src = list(bytes.fromhex(op[7])) if op[7] != "-" else []
            if idx >= R.npieces:
                if o != "ERR:internal":
                    fail("chunk-out-of-range-accepted", "chunk beyond the torrent was not refused", j)
                continue
            off, ln = idx * cs, R.piece_size(idx)
            runs, t = [], 0
            while t < ln:
                fi, fo = R.locate(off + t)
                ext = min(ln - t, lay[fi][0] - fo)
                runs.append((t, ext, fi))
                t += ext
            touched = [r_[2] for r_ in runs]
            if o == "ERR:internal":
                fail("chunk-refused", "valid chunk range refused", j)
                continue
            if o == "NULL":
                if w or all(R.sized[fi] or lay[fi][1] for fi in touched):
                    fail("chunk-null", "chunk creation failed on a mappable range", j)
                continue
            if not w and any(not (R.sized[fi] or lay[fi][1]) for fi in touched):
                fail("chunk-on-short-file", "read-only chunk mapped beyond a file's current size", j)
                continue
            if w:
                for fi in touched:
                    R.sized[fi] = True
            f = fields(o)
            if (f.get("pre") == "ok") != (first < ln):
                fail("preload", "Chunk::preload(%d, ..) on a %d byte chunk: %s" % (first, ln, f.get("pre")), j)
            if first >= ln:
                if f.get("xfer") != "ERR:internal":
                    fail("read-out-of-chunk-accepted", "ChunkIterator beyond the chunk not refused", j)
                continue
            if f.get("xfer") == "ERR:internal":
                fail("transfer-raised", "the transfer loop raised on a valid range", j)
                continue

            def run_of(t):
                for (p0, ext, fi) in runs:
                    if p0 <= t < p0 + ext:
                        return p0 + ext, fi
                raise AssertionError(t)

            # the stream semantics: bytes go to / come from chunk positions first, first+1, ... in order;
            # each iteration is offered the contiguous memory up to the end of the current file segment
            pos, total, wins, si = first, 0, [], 0
            while True:
                end, _ = run_of(pos)
                win = min(end - pos, last - pos)
                wins.append(win)
                n = min(steps[si], win) if si < len(steps) else 0
                si += 1
                if n == 0:
                    break
                total += n
                pos += n
                if pos >= last or pos >= ln:
                    break
            want_out = "-"
            if w:
                for t in range(total):
                    fi = run_of(first + t)[1]
                    if not lay[fi][1]:
                        R.image[off + first + t] = src[t]
            else:
                want_out = hx([0 if lay[run_of(first + t)[1]][1] else R.get(off + first + t) for t in range(total)])
            if f.get("xfer") != str(total):
                fail("transfer-count", "the loop moved %s bytes, the schedule gives %d" % (f.get("xfer"), total), j)
            elif f.get("out") != want_out:
                fail("transfer-bytes", "bytes sent %s, the mapping says %s" % (f.get("out", "")[:40], want_out[:40]), j)
            elif f.get("wins") != ",".join(str(x) for x in wins):
                fail("transfer-windows", "windows offered %s, file segments give %s" % (f.get("wins"), wins), j)
        elif k == "H":
            idx = int(op[1])
            steps = [] if op[2] == "-" else [int(x) for x in op[2].split(",")]
            if idx >= R.npieces:
                if o != "ERR:internal":
                    fail("chunk-out-of-range-accepted", "hashing chunk beyond the torrent was not refused", j)
                continue
            off, ln = idx * cs, R.piece_size(idx)
            files_t = []
            t = 0
            while t < ln:
                fi, fo = R.locate(off + t)
                ext = min(ln - t, lay[fi][0] - fo)
                files_t.append(fi)
                t += ext
            if o == "ERR:internal":
                fail("chunk-refused", "valid hashing chunk refused", j)
                continue
            if o == "NULL":
                if all(R.sized[fi] or lay[fi][1] for fi in files_t):
                    fail("chunk-null", "hashing chunk creation failed on a mappable range", j)
                continue
            if any(not (R.sized[fi] or lay[fi][1]) for fi in files_t):
                fail("chunk-on-short-file", "hashing chunk mapped beyond a file's current size", j)
                continue
            # the piece's bytes, in order, each exactly once (padding reads as zeros)
            data = bytes(0 if lay[R.locate(off + t)[0]][1] else R.get(off + t) for t in range(ln))
            want = "hash=%s pos=%d" % (hashlib.sha1(data).hexdigest(), ln)
            if o != want:
                fail("hash-input", "HashChunk digest/position %s, the piece's bytes give %s" % (o[:60], want[:60]), j)
        elif k == "M":
            idx = int(op[1])
            legal = idx < R.npieces and idx not in R.bits
            if legal and o != "ok":
                fail("mark-refused", "mark_completed of an unset valid piece raised", j)
            if not legal and o == "ok":
                fail("mark-accepted", "mark_completed accepted an invalid or already set piece", j)
            if o == "ok":
                R.mark(idx)
        elif k == "S":
            idx = int(op[1])
            if (o == "set=1") != (idx < R.npieces):
                fail("shape", "bitfield set of an out-of-range index", j)
            if idx < R.npieces:
                R.bits.add(idx)          # bitfield only: the per-file counters wait for update_completed
        elif k in ("R", "U"):
            if o != "upd=ok":
                fail("update-completed-raised", "update_completed / re-open raised: " + o[:60], j)
            if k == "R":
                R.bits = set()
            R.recount()
        elif k == "P":
            i, off, ln = int(op[1]), int(op[2]), int(op[3])
            if i >= len(lay) or lay[i][1]:
                if o != "pread=none":
                    fail("shape", "pread of a padding entry / no such file: " + o[:40], j)
                continue
            size = lay[i][0] if R.sized[i] else 0
            n = max(0, min(ln, size - off))
            want = "pread=%d:%s" % (size, hx([R.get(R.offs[i] + off + t) for t in range(n)]))
            if o != want:
                fail("file-bytes", "bytes of file %d at offset %d on disk are %s, the mapping says %s" % (i, off, o[6:60], want[6:60]), j)
        elif k == "V":
            idx, off, ln = int(op[1]), int(op[2]), int(op[3])
            want = idx < R.npieces and ln != 0 and off + ln <= R.piece_size(idx)
            if (o == "1") != want:
                fail("valid-piece", "is_valid_piece(%d,%d,%d) = %s, the layout says %s" % (idx, off, ln, o, int(want)), j)
        elif k == "Q":
            f = fields(o)
            sizes = [] if f["sizes"] == "-" else [int(x) for x in f["sizes"].split(",")]
            if int(f["chunks"]) != R.npieces or len(sizes) != R.npieces:
                fail("piece-count", "size_chunks %s, expected %d" % (f["chunks"], R.npieces), j)
            elif sizes != [R.piece_size(i) for i in range(R.npieces)] or sum(sizes) != R.total:
                fail("piece-sizes", "piece sizes %s do not tile the torrent (total %d)" % (sizes[:8], R.total), j)
            files = [tuple(int(v) for v in x.split(":")) for x in f["files"].split(",")]
            if len(files) != len(lay):
                fail("file-count", "%d files, the torrent lists %d" % (len(files), len(lay)), j)
                continue
            for i, (fo, fs, r1, r2, comp) in enumerate(files):
                if fo != R.offs[i] or fs != lay[i][0]:
                    fail("file-offset", "file %d offset/size %d/%d, torrent order says %d/%d" % (i, fo, fs, R.offs[i], lay[i][0]), j)
                    continue
                if fs > 0:
                    touch = sorted({(fo + t) // cs for t in range(fs)}) if fs <= 4096 else list(range(fo // cs, (fo + fs - 1) // cs + 1))
                    if list(range(r1, r2)) != touch:
                        fail("file-range", "file %d range [%d,%d) but it touches pieces %s" % (i, r1, r2, touch[:8]), j)
                elif r1 != r2:
                    fail("file-range", "empty file %d has a non-empty piece range" % i, j)
                # per-file completed chunks (File::completed_chunks): the number of set pieces that
                # overlap the file, never above the file's piece count; 0 for empty files
                want = len(R.bits_counted(i))
                if comp != want or comp > r2 - r1:
                    # klass file-completed-overcount: the defect repaired by 17569a5 (inc_completed counted
                    # empty files its walk passed and the file starting exactly at the end of the piece)
                    kl = "file-completed-overcount" if comp > want else "file-completed"
                    bad.append((kl, "op %d (Q): file %d (offset %d, size %d, pieces [%d,%d)) has completed_chunks %d but %d of its pieces are set" % (
                        j, i, fo, fs, r1, r2, comp, want)))
            cbytes = sum(R.piece_size(i) for i in R.bits)
            if int(f["cc"]) != len(R.bits):
                fail("completed-count", "completed_chunks %s, expected %d" % (f["cc"], len(R.bits)), j)
            if f["cb"] != str(cbytes):
                fail("completed-bytes", "completed_bytes %s, expected %d" % (f["cb"], cbytes), j)
            if f["left"] != str(R.total - cbytes):
                fail("left-bytes", "left_bytes %s, expected %d" % (f["left"], R.total - cbytes), j)
        elif k == "D":
            imgs = o[len("dump="):].split(",")
            want = [("P" if R.lay[i][1] else hx(R.file_image(i))) for i in range(len(lay))]
            if imgs != want:
                d = [i for i in range(min(len(imgs), len(want))) if imgs[i] != want[i]]
                fail("file-image", "file bytes on disk differ from the mapping (first differing file %s: got %s want %s)" % (
                    d[:1], imgs[d[0]][:40] if d else "?", want[d[0]][:40] if d else "?"), j)
    return bad


# ------------------------------------------------------------------ generators

class Pat:
    """distinct non-zero neighbouring bytes, so a misplaced or dropped byte shows"""

    def __init__(self, start=0):
        self.c = start

    def take(self, n):
        out = [1 + ((self.c + i) % 255) for i in range(n)]
        self.c += n
        return out


def rand_layout(r, cs):
    nf = r.choice((1, 1, 2, 2, 3, 3, 4, 5, 6, 8))
    sizes_pool = [0, 0, 1, 1, cs - 1, cs, cs + 1, 2 * cs - 1, 2 * cs, 2 * cs + 1, 3 * cs + 1]
    lay = []
    for _ in range(nf):
        if r.random() < 0.75:
            s = max(0, r.choice(sizes_pool))
        else:
            s = r.randrange(0, 4 * cs + 2)
        pad = r.random() < 0.15
        lay.append((s, pad))
        if r.random() < 0.15:                 # runs of empty files, often exactly at a piece boundary
            for _ in range(r.randrange(1, 4)):
                lay.append((0, r.random() < 0.1))
    if sum(s for s, _ in lay) == 0:
        lay[r.randrange(len(lay))] = (r.choice((1, cs, cs + 1)), False)
    return lay[:12]


def gen_ops(r, cs, lay, malformed=False):
    R = Ref(cs, lay)
    pat = Pat(r.randrange(255))
    ops = []
    np_, tot = R.npieces, R.total

    def w_piece(idx, full=None):
        ps = R.piece_size(idx) if idx < np_ else cs
        if full is None:
            full = r.random() < 0.5
        if full:
            pos, n = 0, ps
        else:
            pos = r.randrange(0, ps)
            n = r.randrange(1, ps - pos + 1)
        if r.random() < 0.5:
            rpos, rn = pos, n
        else:
            rpos = r.randrange(0, ps)
            rn = r.randrange(0, ps - rpos + 1)
        return "I %d 1 %d %s %d %d" % (idx, pos, hx(pat.take(n)), rpos, rn)

    def r_piece(idx):
        ps = R.piece_size(idx) if idx < np_ else cs
        rpos = r.randrange(0, ps)
        rn = r.randrange(0, ps - rpos + 1)
        return "I %d 0 0 - %d %d" % (idx, rpos, rn)

    def c_any(w):
        off = r.randrange(0, tot)
        ln = r.randrange(1, min(tot - off, 6 * cs + 3) + 1)
        pos = r.randrange(0, ln)
        n = r.randrange(1, ln - pos + 1) if w else 0
        rpos = r.randrange(0, ln)
        rn = r.randrange(0, ln - rpos + 1)
        return "C %d %d %d %d %s %d %d" % (off, ln, int(w), pos, hx(pat.take(n)), rpos, rn)

    def v_op():
        idx = r.choice((0, np_ - 1, np_ - 1, np_, r.randrange(0, np_ + 1)))
        idx = max(0, idx)
        ps = R.piece_size(idx) if idx < np_ else cs
        kind = r.randrange(6)
        if kind == 0:
            off, ln = 0, ps
        elif kind == 1:
            off, ln = 0, ps + 1
        elif kind == 2:
            off = r.randrange(0, ps + 1)
            ln = ps - off + r.choice((-1, 0, 0, 1))
        elif kind == 3:   # uint32 wrap of offset+length
            off = r.choice((U32 - 1, U32 - ps, U32 - 2, 1, ps))
            ln = r.choice((U32 - 1, U32 - off, U32 - off + 1 if off > 1 else 1, 1, ps))
        elif kind == 4:
            off, ln = r.randrange(0, ps + 2), 0
        else:
            off, ln = r.randrange(0, cs + 2), r.randrange(0, cs + 2)
        off = max(0, min(off, U32 - 1))
        ln = max(0, min(ln, U32 - 1))
        return "V %d %d %d" % (idx, off, ln)

    order = list(range(np_))
    r.shuffle(order)
    if r.random() < 0.3:
        ops.append("Q")
    if r.random() < 0.3 and np_:
        ops.append(r_piece(r.randrange(np_)))       # read before any write: NULL unless padding only
    marks = []
    for idx in order[:r.choice((np_, np_, max(1, np_ // 2)))][:24]:
        ops.append(w_piece(idx))
        if r.random() < 0.25:
            ops.append(r_piece(r.randrange(np_)))
        if r.random() < 0.2:
            ops.append(c_any(r.random() < 0.6))
        if r.random() < 0.15:
            ops.append("D")
        if r.random() < 0.6:
            marks.append(idx)
            ops.append("M %d" % idx)
            if r.random() < 0.3:
                ops.append("Q")
        if r.random() < 0.3:
            ops.append(v_op())
        if r.random() < 0.15 and np_:
            hi = r.randrange(np_)
            ps_ = R.piece_size(hi)
            st = [r.choice((0, 1, ps_ - 1, ps_, ps_ + 1, r.randrange(0, ps_ + 2))) for _ in range(r.randrange(0, 4))]
            ops.append("H %d %s" % (hi, ",".join(str(max(0, x)) for x in st) if st else "-"))
        if r.random() < 0.25 and np_:
            ops.append(x_op(r, R, pat, r.randrange(np_)))
        if r.random() < 0.08:
            ops += ["R", "Q"]
            marks = []
        if r.random() < 0.08 and np_:
            ops += ["S %d" % r.randrange(np_), "U", "Q"]
    if malformed:
        for _ in range(r.randrange(1, 6)):
            k = r.randrange(8)
            if k == 0:
                off = r.randrange(0, tot + 2)
                ops.append("C %d %d 1 0 - 0 0" % (off, tot - off + r.choice((1, 2, cs))))
            elif k == 1:
                ops.append("I %d 1 0 %s 0 1" % (np_ + r.randrange(0, 3), hx(pat.take(1))))
            elif k == 2 and np_:
                idx = r.randrange(np_)
                ps = R.piece_size(idx)
                pos = r.randrange(0, ps + 2)
                ops.append("I %d 1 %d %s 0 %d" % (idx, pos, hx(pat.take(ps - pos + r.choice((1, 2)) if ps - pos + 1 > 0 else 1)), ps))
            elif k == 3 and np_:
                idx = r.randrange(np_)
                ps = R.piece_size(idx)
                rpos = r.randrange(0, ps + 2)
                ops.append("I %d 0 0 - %d %d" % (idx, rpos, max(0, ps - rpos) + r.choice((1, 3))))
            elif k == 4:
                ops.append("M %d" % r.choice(marks + [np_, np_ + 1, U32 - 1]))
            elif k == 5:
                ops.append("C %d 0 %d 0 - 0 0" % (r.randrange(0, tot + 1), r.randrange(2)))
            elif k == 6 and np_:
                idx = r.randrange(np_)
                ops.append("I %d 1 %d - %d 0" % (idx, r.choice((0, R.piece_size(idx), R.piece_size(idx) + 1, U32 - 1)),
                                                 r.choice((0, R.piece_size(idx), R.piece_size(idx) + 1))))
            else:
                ops.append(v_op())
    ops += ["Q", "D"]
    return ops


def case_line(cs, lay, ops):
    return "%d %s ; " % (cs, layout_str(lay)) + " ; ".join(ops)


def canonical_ops(cs, lay, order_seed):
    """write every piece completely (distinct pattern) in a permuted order, mark, query, dump"""
    R = Ref(cs, lay)
    pat = Pat(order_seed * 37)
    order = list(range(R.npieces))
    random.Random(order_seed).shuffle(order)
    ops = ["Q"]
    for idx in order:
        ps = R.piece_size(idx)
        ops.append("I %d 1 0 %s 0 %d" % (idx, hx(pat.take(ps)), ps))
    ops.append("D")
    for idx in order[::2]:
        ops.append("M %d" % idx)
    ops.append("Q")
    for idx in order[1::2]:
        ops.append("M %d" % idx)
    ops.append("Q")
    ops.append("C 0 %d 0 0 - 0 %d" % (R.total, R.total))
    rx = random.Random(order_seed + 99)
    for idx in range(R.npieces):
        ops.append("H %d %s" % (idx, "-" if idx % 2 else "1,%d" % max(0, R.piece_size(idx) - 2)))
        ops.append(x_op(rx, R, pat, idx, w=(idx % 3 != 0)))
    ops.append("D")
    for idx in range(R.npieces):
        ops.append("V %d 0 %d" % (idx, R.piece_size(idx)))
        ops.append("V %d 1 %d" % (idx, R.piece_size(idx)))
    return ops



def x_op(r, R, pat, idx, w=None):
    """the down_chunk / up_chunk loop over a block [first,last) of piece idx with short transfers"""
    ps = R.piece_size(idx)
    first = r.randrange(ps)
    last = r.randrange(first + 1, ps + 1)
    if w is None:
        w = r.random() < 0.6
    n = last - first
    kind = r.randrange(5)
    if kind == 0:
        steps = [n]                                   # one full transfer
    elif kind == 1:
        steps = [1] * n                               # byte by byte
    elif kind == 2:
        steps = [r.randrange(1, n + 2) for _ in range(r.randrange(1, n + 2))]
    elif kind == 3:
        steps = [r.randrange(1, 4) for _ in range(r.randrange(0, n))]     # stream dries up early
    else:
        steps = [r.choice((n, n + 5, 2 ** 32 - 1))] + [1] * 3
    return "X %d %d %d %d %d %s %s" % (idx, int(w), first, last, r.randrange(2),
                                       ",".join(str(x) for x in steps) if steps else "-", hx(pat.take(n)) if w else "-")


def reopen_ops(r, cs, lay):
    """progress -> close/re-open without resume data -> update_completed -> re-mark; resume-like
    bit loading (S.. U) with none / some / all bits set"""
    R = Ref(cs, lay)
    np_ = R.npieces
    ops = []
    order = list(range(np_))
    r.shuffle(order)
    first = order[:r.randrange(1, np_ + 1)]
    for i in first:
        ops.append("M %d" % i)
    ops += ["Q", "R", "Q"]
    r.shuffle(order)
    for i in order[:r.randrange(0, np_ + 1)]:
        ops.append("M %d" % i)
    ops.append("Q")
    if r.random() < 0.5:
        ops += ["R", "U", "Q"]
    k = r.choice((0, 1, np_ // 2, np_ - 1, np_))
    ops.append("R")
    for i in sorted(r.sample(range(np_), k)):
        ops.append("S %d" % i)
    ops += ["U", "Q"]
    rest = [i for i in range(np_)]
    r.shuffle(rest)
    for i in rest[:r.randrange(0, np_ + 1)]:
        ops.append("M %d" % i)            # some of these are already set: must be refused
    ops += ["Q", "U", "Q"]
    return ops


DIRS = ["video", "audio", "z", "a", "B", "video/extras", "docs"]


def loader_layout(r, cs):
    """entries (size, pad, path) in TORRENT order, deliberately not in lexicographic path order"""
    nf = r.choice((2, 3, 3, 4, 5, 6, 8))
    pool = [0, 0, 1, 100, cs - 1, cs, cs + 1, 2 * cs + 3, 3 * cs, 17]
    ents, used = [], set()
    for i in range(nf):
        size = r.choice(pool)
        pad = r.random() < 0.15 and size > 0
        while True:
            d = r.choice(DIRS + ["", "", ""])
            name = r.choice(("f%d.bin" % r.randrange(1, 13), "f%d" % r.randrange(1, 13), "%s.dat" % r.choice("abcxyz")))
            if pad:
                d, name = ".pad", "%d" % r.randrange(100)
            path = (d + "/" if d else "") + name
            if path not in used:
                used.add(path)
                break
        ents.append((size, pad, path))
    if sum(e[0] for e in ents) == 0:
        ents[0] = (cs + 1, False, ents[0][2])
    keys = [tuple(c.encode() for c in e[2].split("/")) for e in ents]
    if keys == sorted(keys) and len(ents) > 1:
        ents.reverse()
    return ents


def loader_case(r):
    cs = r.choice((1025, 1025, 1100, 2048))
    ents = loader_layout(r, cs)
    if r.random() < 0.1:
        ents = [(r.choice((1, cs - 1, cs, 3 * cs + 7)), False, None)]      # single-file torrent
    lay = [(s, p) for s, p, _ in ents]
    R = Ref(cs, lay)
    pat = Pat(r.randrange(255))
    ops = ["Q"]
    order = list(range(R.npieces))
    r.shuffle(order)
    for idx in order[:6]:
        ps = R.piece_size(idx)
        if r.random() < 0.4:
            pos, n = 0, ps
        else:
            pos = r.randrange(ps)
            n = min(ps - pos, r.randrange(1, 24))
        ops.append("I %d 1 %d %s %d %d" % (idx, pos, hx(pat.take(n)), pos, n))
        if r.random() < 0.5:
            ops.append("M %d" % idx)
    for i, (s_, p_, _) in enumerate(ents[:4]):
        if s_ > 0:
            ops.append("P %d %d %d" % (i, r.randrange(s_), 16))
    for idx in order[:3]:
        ops.append("H %d %s" % (idx, r.choice(("-", "100", "1,1024", "512,512,512"))))
        ps = R.piece_size(idx)
        first = r.randrange(ps)
        last = min(ps, first + r.randrange(1, 40))
        st = [r.randrange(1, 12) for _ in range(r.randrange(1, 12))]
        ops.append("X %d 1 %d %d 1 %s %s" % (idx, first, last, ",".join(map(str, st)), hx(pat.take(last - first))))
        ops.append("X %d 0 %d %d 0 %s -" % (idx, first, last, ",".join(map(str, st[::-1]))))
    ops += ["Q", "D"]
    if r.random() < 0.3:
        ops += ["R", "Q", "M %d" % order[0], "Q", "D"]
    lay_s = ",".join("%d%s%s" % (s_, "p" if p_ else "", ("@" + pth) if pth else "") for s_, p_, pth in ents)
    return "T %d %s ; " % (cs, lay_s) + " ; ".join(ops)


TWO32 = 1 << 32


def big_cases(r, tier):
    """SPARSE multi-GiB layouts: file offsets at and above 2^32 (never dumped, only pread)"""
    out = []
    shapes = [
        (65536, [(TWO32 + 3 * 65536 + 5, False)]),
        (65536, [(100, False), (TWO32 + 200000, False), (0, False), (9, True), (3000, False)]),
        (40000, [(7, False), (TWO32 + 123457, False), (70000, False)]),
        (65536, [(TWO32 - 10, False), (TWO32 + 77, False)]),
    ]
    if tier != "quick":
        shapes += [(32768, [(3 * TWO32 + 12345, False), (1, False)]),
                   (65536, [(TWO32 + 65536, False)]),
                   (50000, [(5, True), (2 * TWO32 + 5, False), (5, False)]),
                   (65536, [(TWO32 // 2, False), (TWO32 // 2 + 4096, False), (TWO32, False)])]
    for cs, lay in shapes:
        R = Ref(cs, lay)
        pat = Pat(r.randrange(255))
        ops = []
        big = [i for i, (s_, _) in enumerate(lay) if s_ >= TWO32 // 2]
        interesting = set()
        for i in big:
            fo = R.offs[i]
            for fo_in in (TWO32 - 1, TWO32, TWO32 + 4096 + 17, lay[i][0] - 1, 2 * TWO32, 3 * TWO32 + 100):
                if 0 <= fo_in < lay[i][0]:
                    interesting.add((fo + fo_in) // cs)
            interesting.add(fo // cs)
        interesting.add(R.npieces - 1)
        interesting.add(0)
        todo = sorted(interesting)
        r.shuffle(todo)
        for idx in todo:
            ps = R.piece_size(idx)
            pos = r.randrange(ps)
            n = min(ps - pos, r.randrange(1, 20))
            # make the write straddle 2^32 inside the file when the piece does
            for i in big:
                g = R.offs[i] + TWO32
                if idx * cs < g < idx * cs + ps and g - idx * cs >= 4 and r.random() < 0.7:
                    pos = g - idx * cs - 3
                    n = min(ps - pos, 9)
            ops.append("I %d 1 %d %s %d %d" % (idx, pos, hx(pat.take(n)), pos, n))
            fi, fo = R.locate(idx * cs + pos)
            ops.append("P %d %d %d" % (fi, max(0, fo - 4), n + 8))
            if fo >= TWO32:
                ops.append("P %d %d %d" % (fi, fo - TWO32, n + 4))     # where a 32-bit offset would land
            if r.random() < 0.5:
                ops.append("M %d" % idx)
        for idx in todo[:3]:
            ops.append("I %d 0 0 - 0 8" % idx)
        # re-check the first writes at the very end (nothing may have clobbered them)
        ops += [o for o in ops if o.startswith("P ")][:6]
        ops.append("V %d 0 %d" % (R.npieces - 1, R.piece_size(R.npieces - 1)))
        out.append(case_line(cs, lay, ops))
    return out


HAND = [
    # zero-length file strictly inside a piece (round-3 seed 3): the start-file lookup must land on the file holding the byte
    "4096 5000,0,7000 ; Q ; I 0 1 0 0102 0 2 ; I 1 1 0 0304 0 2 ; I 1 1 900 0506 900 6 ; I 2 1 0 0708 0 2 ; X 1 1 890 930 0 7,7,7,7,7,7 "
    + "ffeeddccbbaa99887766554433221100ffeeddccbbaa99887766554433221100ffeeddccbbaa9988 ; X 1 0 890 930 0 40 - ; H 1 - ; H 0 - ; P 0 4090 20 ; P 2 0 20 ; D",
    "8192 5000,0,3192p,6000 ; Q ; I 0 1 0 0102 0 2 ; I 0 1 4990 a1a2a3a4a5a6a7a8a9aaabacadaeaf 4990 20 ; I 0 0 0 - 4990 20 ; I 1 1 0 0304 0 2 ; X 0 1 4995 5010 1 3,3,3,3,3 "
    + "b1b2b3b4b5b6b7b8b9babbbcbdbebf ; X 0 0 4990 5010 0 20 - ; H 0 100,5000 ; H 1 - ; P 0 4980 20 ; P 3 0 8 ; D",
    "3 2,0,5,1p,0,4 ; Q ; D ; I 0 0 0 - 0 3 ; I 0 1 0 010203 0 3 ; D ; I 1 1 1 0a0b 0 3 ; I 2 1 0 1112 0 3 ; I 3 1 0 212223 0 3 ; D ; M 0 ; M 3 ; Q ; M 3 ; M 4 ; V 3 0 3 ; V 3 0 4 ; V 0 4294967295 2 ; Q",
    "4 10 ; C 3 5 1 0 0102030405 0 5 ; D ; C 0 10 0 2 - 0 10 ; C 8 3 1 0 01 0 1 ; C 10 0 1 0 - 0 0 ; C 2 4 1 3 0102 0 4 ; C 2 4 1 4 - 5 0 ; C 2 4 1 0 - 4 1",
    "1 1,1,1 ; I 1 1 0 07 0 1 ; D ; Q ; M 1 ; Q",
    # single file smaller than a piece; last piece short; piece spanning >= 3 files with empties between
    "8 3 ; Q ; I 0 1 0 010203 0 3 ; D ; M 0 ; Q ; V 0 0 3 ; V 0 0 4 ; V 0 2 1 ; V 0 3 0",
    "4 1,0,0,1,0,1,1,3 ; Q ; I 0 1 0 01020304 0 4 ; I 1 1 0 050607 0 3 ; D ; M 1 ; Q ; M 0 ; Q",
    "2 0,0,2,0,0,2,0 ; I 1 1 0 0a0b 0 2 ; I 0 1 0 0c0d 0 2 ; D ; Q",
    # padding entries: written bytes go nowhere, fresh chunk reads zeros
    "4 3,1p,4,3p,1 ; I 0 1 0 01020304 0 4 ; I 0 0 0 - 0 4 ; I 2 1 0 05060708 0 4 ; I 2 0 0 - 0 4 ; I 1 1 0 090a0b0c 0 4 ; D ; Q",
    "2 2p,2 ; I 0 0 0 - 0 2 ; I 0 1 0 0102 0 2 ; I 1 0 0 - 0 2 ; I 1 1 0 0304 0 2 ; D",
    # uint32 overflow guard of is_valid_piece
    "4 9 ; V 0 4294967295 1 ; V 0 4294967295 2 ; V 0 4294967294 4 ; V 0 1 4294967295 ; V 0 2 4294967295 ; V 2 0 1 ; V 2 0 2 ; V 2 1 4294967295 ; V 3 0 1 ; V 4294967295 0 1",
    # overlapping writes, later wins; non-overlapping writes in either order
    "4 3,3,3 ; C 1 6 1 0 010203040506 0 6 ; C 4 4 1 0 0a0b0c0d 0 4 ; D ; C 0 2 1 0 1112 0 2 ; D",
    "4 3,3,3 ; C 4 4 1 0 0a0b0c0d 0 4 ; C 0 2 1 0 1112 0 2 ; C 2 2 1 0 0102 0 2 ; D",
]


def gen(seed, tier):
    r = random.Random(seed)
    cases = []
    stats = {"corpus": 0, "hand": 0, "random_valid": 0, "random_malformed": 0, "page_sized": 0, "exhaustive": 0,
             "reopen": 0, "loader": 0, "sparse_4gib": 0,
             "cs_hist": {}, "nfiles_hist": {}, "op_hist": {}, "with_padding": 0, "with_empty_files": 0}
    cdir = os.path.join(os.path.dirname(os.path.dirname(os.path.abspath(__file__))), "corpus", "C02")
    if os.path.isdir(cdir):
        for f in sorted(os.listdir(cdir)):
            for l in open(os.path.join(cdir, f)):
                l = l.strip()
                if l and not l.startswith("#"):
                    cases.append(l)
                    stats["corpus"] += 1
    for h in HAND:
        cases.append(h)
        stats["hand"] += 1
    n_valid = 1500 if tier == "quick" else 12000
    n_mal = 500 if tier == "quick" else 4000
    for k in range(n_valid + n_mal):
        cs = r.choice((1, 1, 2, 2, 3, 3, 4, 4, 5, 7, 8, 16))
        lay = rand_layout(r, cs)
        mal = k >= n_valid
        cases.append(case_line(cs, lay, gen_ops(r, cs, lay, malformed=mal)))
        stats["random_malformed" if mal else "random_valid"] += 1
    # close / re-open / update_completed / resume-like bit loading
    for _ in range(150 if tier == "quick" else 1500):
        cs = r.choice((1, 2, 3, 4, 5))
        lay = rand_layout(r, cs)
        cases.append(case_line(cs, lay, reopen_ops(r, cs, lay)))
        stats["reopen"] += 1
    # loader-driven: metainfo -> download_add -> DownloadConstructor -> FileList, files not path-sorted
    for _ in range(40 if tier == "quick" else 300):
        cases.append(loader_case(r))
        stats["loader"] += 1
    # sparse files above 4 GiB
    for c in big_cases(r, tier):
        cases.append(c)
        stats["sparse_4gib"] += 1
    # a few layouts whose file boundaries straddle the mmap page size (offset % page alignment path)
    for _ in range(12 if tier == "quick" else 60):
        cs = r.choice((1025, 4096, 4097, 5000, 8192))
        lay = [(r.choice((1, 4095, 4096, 4097, cs - 1, cs, cs + 1, 3 * cs + 5, 0)), r.random() < 0.1) for _ in range(r.randrange(1, 5))]
        if sum(s for s, _ in lay) == 0:
            lay[0] = (cs + 1, False)
        cases.append(case_line(cs, lay, canonical_ops(cs, lay, r.randrange(1000))))
        stats["page_sized"] += 1
    # exhaustive small scope
    if tier == "quick":
        maxf, maxs, css = 3, 3, (1, 2, 3)
    else:
        maxf, maxs, css = 4, 5, (1, 2, 3, 4)
    for nf in range(1, maxf + 1):
        for sizes in itertools.product(range(maxs + 1), repeat=nf):
            if sum(sizes) == 0:
                continue
            for cs in css:
                lay = [(s, False) for s in sizes]
                cases.append(case_line(cs, lay, canonical_ops(cs, lay, 1)))
                stats["exhaustive"] += 1
                # one padding variant per vector: the first non-empty file that is not the only one
                if nf > 1 and cs == css[-1]:
                    i = next(i for i, s in enumerate(sizes) if s > 0)
                    layp = [(s, j == i) for j, s in enumerate(sizes)]
                    cases.append(case_line(cs, layp, canonical_ops(cs, layp, 2)))
                    stats["exhaustive"] += 1
    stats["exhaustive_scope"] = "all size vectors of <= %d files with sizes 0..%d (total > 0), cs in %s, every piece written+read+marked" % (maxf, maxs, list(css))
    for c in cases:
        cs, lay, ops = parse_case(c)
        stats["cs_hist"][str(cs)] = stats["cs_hist"].get(str(cs), 0) + 1
        stats["nfiles_hist"][str(len(lay))] = stats["nfiles_hist"].get(str(len(lay)), 0) + 1
        stats["with_padding"] += any(p for _, p in lay)
        stats["with_empty_files"] += any(s == 0 for s, _ in lay)
        for o in ops:
            stats["op_hist"][o[0]] = stats["op_hist"].get(o[0], 0) + 1
    return cases, stats
