"""Constants and repair flags of resume save/load (C10), MEASURED on the compiled code by `harness c10 --probe`
(props/c10.py runs it before the Coq build and stores the result); no source text is parsed, so a refactor of
resume.cc / transfer_list.cc cannot break the translation."""
import json
import os


def _probe(key, default):
    def conv(_m):
        p = os.path.join(os.path.dirname(os.path.dirname(os.path.abspath(__file__))), "build", "probe", "c10.json")
        try:
            return int(json.load(open(p))[key])
        except Exception:
            return default
    return conv


_ANY = ("src/torrent/utils/resume.cc", r"(resume)")

ENTRIES = [
    # resume_save_uncertain_pieces: pieces completed within the last N minutes are saved as uncertain
    ("c10_uncertain_window_min",) + _ANY + ("Z", _probe("uncertain_window_min", 15)),
    # TransferList::hash_succeeded: prune when the oldest entry is older than A minutes, keep the last B minutes
    ("c10_completed_prune_after_min",) + _ANY + ("Z", _probe("completed_prune_after_min", 60)),
    ("c10_completed_keep_min",) + _ANY + ("Z", _probe("completed_keep_min", 30)),
    # resume_load_progress does not trust the stat buffer of a missing file (1) / does (0)
    ("c10_load_checks_exists",) + _ANY + ("N", _probe("load_checks_exists", 1)),
    # ... rejects the whole object when a 'files' entry is not a map, before anything is applied (1) / throws later (0)
    ("c10_load_validates_entries",) + _ANY + ("N", _probe("load_validates_entries", 1)),
    # resume_load_uncertain_pieces skips an index at or beyond the piece count (1) / lets update_range throw (0)
    ("c10_unc_skips_out_of_range",) + _ANY + ("N", _probe("unc_skips_out_of_range", 1)),
    # resume_save_uncertain_pieces leaves the stored list alone while the download is not hash checked (1) / erases it (0)
    ("c10_unc_kept_while_unchecked",) + _ANY + ("N", _probe("unc_kept_while_unchecked", 0)),
]
