"""Constants of resume save/load (C10) re-extracted from /repo on every run."""
ENTRIES = [
    # resume_save_uncertain_pieces: pieces completed within the last N minutes are saved as uncertain
    ("c10_uncertain_window_min", "src/torrent/utils/resume.cc",
     r"return this_thread::cached_time\(\) - (\d+)min <= std::chrono::microseconds\(v\.first\);", "Z"),
    # TransferList::hash_succeeded: prune when the oldest entry is older than A minutes, keep the last B minutes
    ("c10_completed_prune_after_min", "src/torrent/data/transfer_list.cc",
     r"m_completedList\.front\(\)\.first\) \+ (\d+)min < this_thread::cached_time\(\)", "Z"),
    ("c10_completed_keep_min", "src/torrent/data/transfer_list.cc",
     r"return this_thread::cached_time\(\) - (\d+)min <= std::chrono::microseconds\(v\.first\);", "Z"),
    # resume_load_progress consults fileExists before trusting the stat buffer (1) or not (0)
    ("c10_load_checks_exists", "src/torrent/utils/resume.cc",
     r"(if \(!fileExists \|\| static_cast<uint64_t>\(fs\.size\(\)\) != \(\*listItr\)->size_bytes\(\)\))", "N",
     lambda m: 1),
    # resume_load_progress rejects the whole object when a 'files' entry is not a map, before anything is applied (1) or not (0)
    ("c10_load_validates_entries", "src/torrent/utils/resume.cc",
     r"resume_load_progress\(Download download, const Object& object\) \{(?:(?!\n\}).)*?(is_map\(\))(?:(?!\n\}).)*?resume_load_bitfield\(download, object\)", "N",
     lambda m: 1),
    # resume_load_uncertain_pieces skips an index at or beyond the piece count (1) or lets update_range throw (0)
    ("c10_unc_skips_out_of_range", "src/torrent/utils/resume.cc",
     r"resume_load_uncertain_pieces\(Download download, const Object& object\) \{(?:(?!\n\}).)*?(size_chunks\(\))", "N",
     lambda m: 1),
]
