"""C19 constants re-extracted from scheduler.cc on every run (gen/params.py picks this file up)."""
_S = "src/torrent/system/scheduler.cc"
ENTRIES = [
    ("sched_min_days_wait", _S,
     r"Scheduler::wait_until\(SchedulerEntry\* entry.*?time < Scheduler::time_type\((\d+) \* 24h\)", "Z"),
    ("sched_min_days_update", _S,
     r"Scheduler::update_wait_until\(SchedulerEntry\* entry.*?time < Scheduler::time_type\((\d+) \* 24h\)", "Z"),
    ("sched_max_years_wait_for", _S,
     r"Scheduler::wait_for\(SchedulerEntry\* entry.*?time > Scheduler::time_type\((\d+) \* 365 \* 24h\)", "Z"),
    ("sched_max_years_wait_for_ceil", _S,
     r"Scheduler::wait_for_ceil_seconds\(SchedulerEntry\* entry.*?time > Scheduler::time_type\((\d+) \* 365 \* 24h\)", "Z"),
    ("sched_max_years_update_for", _S,
     r"Scheduler::update_wait_for\(SchedulerEntry\* entry.*?time > Scheduler::time_type\((\d+) \* 365 \* 24h\)", "Z"),
    ("sched_max_years_update_for_ceil", _S,
     r"Scheduler::update_wait_for_ceil_seconds\(SchedulerEntry\* entry.*?time > Scheduler::time_type\((\d+) \* 365 \* 24h\)", "Z"),
]
