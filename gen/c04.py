"""C04 generator + wire-level property oracle.

Case line (see harness/c04.cc):  plen=<n> files=<a,b,..> done=<01..> seed=<n> | op ...
Swarms of 1-4 scripted conforming peers: bitfields (full / partial / disjoint / overlapping / none),
HAVE trickle, choke flapping, slow peers (long silences: stall ticks, unordered timeout), out of
order service, partial PIECE then disconnect, joins and leaves, file priorities off/normal/high,
normal and endgame mode (endgame is on from the start for torrents of <= 5 pieces), and a
completion phase (Q:p) with one honest unchoking peer."""
import os
import random
import re

BLOCK = 16384
UNORDERED_TIMEOUT = 60     # RequestList::timeout_process_unordered (seconds); only used to tell two finding classes apart

LAYOUTS = [
    # (plen, files)  -- pieces, blocks per piece
    (32768, [40000, 50000]),            # 3 pieces: endgame from the start
    (32768, [32768 * 5]),               # 5 pieces exact multiple
    (16384, [16384 * 9 + 1, 30000]),    # 11+ pieces of one block, short tail
    (32768, [100000, 200000, 150000]),  # 14 pieces, 2 blocks
    (65536, [65536 * 7, 70000, 1]),     # 9 pieces, 4 blocks
    (49152, [49152 * 12 + 5000]),       # 13 pieces, 3 blocks, short tail
    (32768, [30000, 30000, 30000, 30000, 30000, 500000]),   # many small files: priorities
    (16384, [16384 * 24]),              # 24 pieces, normal mode for long
]


def npieces(plen, files):
    t = sum(files)
    return (t + plen - 1) // plen


def header(plen, files, done, seed, dslots=0):
    h = "plen=%d files=%s done=%s seed=%d" % (plen, ",".join(map(str, files)), done, seed)
    return h + (" dslots=%d" % dslots if dslots else "")


def rand_bits(r, n, kind):
    if kind == "full":
        return "1" * n
    if kind == "none":
        return "-"
    if kind == "half":
        return "".join("1" if i % 2 == 0 else "0" for i in range(n))
    if kind == "otherhalf":
        return "".join("1" if i % 2 == 1 else "0" for i in range(n))
    if kind == "low":
        return "".join("1" if i < (n + 1) // 2 else "0" for i in range(n))
    if kind == "high":
        return "".join("1" if i >= n // 2 else "0" for i in range(n))
    return "".join(r.choice("01") for _ in range(n))


KINDS = ["full", "full", "none", "half", "otherhalf", "low", "high", "rand", "rand"]


def random_case(r, stats, nops=None, big_time=True, slots=False):
    plen, files = r.choice(LAYOUTS)
    n = npieces(plen, files)
    done = "".join("1" if r.random() < 0.12 else "0" for _ in range(n)) if r.random() < 0.5 else "0" * n
    if "0" not in done:
        done = "0" + done[1:]
    seed = r.randrange(1, 1 << 16)
    npeers = r.choice([1, 1, 2, 2, 3, 4]) if not slots else r.choice([2, 3, 3, 4, 4])
    dslots = r.choice([1, 1, 2]) if slots else 0
    ops = []
    joined = set()
    # priorities first in some cases
    nf = len(files)
    if r.random() < 0.35:
        for f in range(nf):
            if r.random() < 0.5:
                ops.append("W:%d:%d" % (f, r.choice([0, 0, 1, 2])))
        stats["with_priorities"] = stats.get("with_priorities", 0) + 1
    for p in range(npeers):
        ops.append("J:%d:%s" % (p, rand_bits(r, n, r.choice(KINDS))))
        joined.add(p)
        if r.random() < 0.8:
            ops.append("U:%d" % p)
    nops = nops or r.choice([10, 20, 40, 80])
    for _ in range(nops):
        p = r.randrange(npeers)
        x = r.random()
        if x < 0.45:
            ops.append("P:%d:%d" % (p, r.choice([0, 0, 0, 1, 2, 3, 7])))
        elif x < 0.53:
            ops.append("K:%d" % p)
            if r.random() < 0.5:
                ops.append("U:%d" % p)       # choke immediately followed by unchoke
        elif x < 0.61:
            ops.append("U:%d" % p)
        elif x < 0.70:
            ops.append("H:%d:%d" % (p, r.randrange(n)))
        elif x < 0.80:
            t = r.choice([1, 2, 5, 7, 11, 31]) if (not big_time or r.random() < 0.7) else r.choice([61, 65, 125, 250])
            ops.append("A:%d" % t)
        elif x < 0.84:
            ops.append("X:%d" % p)
            if r.random() < 0.7:
                ops.append("J:%d:%s" % (p, rand_bits(r, n, r.choice(KINDS))))
                if r.random() < 0.7:
                    ops.append("U:%d" % p)
        elif x < 0.90:
            ops.append("PB:%d:%d" % (p, r.choice([0, 0, 1])))
            y = r.random()
            if y < 0.4:
                ops.append("PE:%d" % p)
            elif y < 0.6:
                ops.append("X:%d" % p)
            elif y < 0.8:
                q = r.randrange(npeers)
                ops.append("P:%d:0" % q)
                ops.append("PE:%d" % p)
            else:
                ops.append("A:%d" % r.choice([3, 130, 250]))
                ops.append("PE:%d" % p)
        elif x < 0.93:
            ops.append("W:%d:%d" % (r.randrange(nf), r.choice([0, 1, 1, 2])))
        elif x < 0.97:
            # message crossings: p's next small messages are held back while the swarm goes on, then arrive in one segment;
            # a PIECE crossing the client's CANCEL; a PIECE for a request voided by p's own CHOKE
            y = r.random()
            if y < 0.5:
                k = r.choice([2, 2, 3, 4])
                ops.append("B:%d:%d" % (p, k))
                pool = ["K:%d" % p, "U:%d" % p, "H:%d:%d" % (p, r.randrange(n)), "H:%d:%d" % (p, r.randrange(n))]
                q = r.randrange(npeers)
                for j in range(k + 1):
                    ops.append(r.choice(pool))
                    if r.random() < 0.5:
                        ops.append(r.choice(["P:%d:0" % q, "A:1", "U:%d" % q, "P:%d:1" % p]))
                stats["batches"] = stats.get("batches", 0) + 1
            elif y < 0.75:
                ops.append("PC:%d:%d" % (p, r.choice([0, 1])))
            else:
                ops.append("K:%d" % p)
                ops.append("PK:%d:%d" % (p, r.choice([0, 1])))
                if r.random() < 0.5:
                    ops.append("A:7")
                    ops.append("PK:%d:0" % p)
                ops.append("U:%d" % p)
        else:
            ops.append("J:%d:%s" % (p, rand_bits(r, n, r.choice(KINDS))))
    # completion phase with one honest peer: everything wanted must complete
    if r.random() < 0.8:
        q = r.randrange(npeers)
        ops.append("PE:%d" % q)
        ops.append("J:%d:%s" % (q, "1" * n))
        if slots:
            # with limited download slots which queued connection gets the slot is choke_queue's rotation policy
            # (property C11); the completion claim of C04 is made with the other connections gone
            for o in range(npeers):
                if o != q:
                    ops.append("X:%d" % o)
        ops.append("Q:%d" % q)
        stats["with_completion"] = stats.get("with_completion", 0) + 1
    stats["peers_%d" % npeers] = stats.get("peers_%d" % npeers, 0) + 1
    stats["pieces_le5" if n <= 5 else "pieces_gt5"] = stats.get("pieces_le5" if n <= 5 else "pieces_gt5", 0) + 1
    if slots:
        stats["limited_slots"] = stats.get("limited_slots", 0) + 1
    return header(plen, files, done, seed, dslots) + " | " + " ".join(ops)


def priority_mid_case(r, stats):
    """Mid-session priority changes against non-seeders whose per-peer piece cache is filled (bitfield / HAVEs before the change)."""
    plen, files = r.choice([(32768, [30000, 30000, 30000, 30000, 30000, 500000]), (16384, [16384, 16384, 16384, 16384, 327680]),
                            (32768, [100000, 200000, 150000]), (16384, [16384 * 9 + 1, 16384 * 12])])
    n = npieces(plen, files)
    nf = len(files)
    npeers = r.choice([1, 1, 2])
    ops = []
    for p in range(npeers):
        bits = ["1" if r.random() < 0.85 else "0" for _ in range(n)]
        bits[r.randrange(n)] = "0"                      # never a seeder: seeders use the shared queue, not the per-peer cache
        if r.random() < 0.3:
            late = [i for i in range(n) if bits[i] == "1" and r.random() < 0.4]
            for i in late:
                bits[i] = "0"
            ops.append("J:%d:%s" % (p, "".join(bits)))
            ops.append("U:%d" % p)
            ops.append("P:%d:0" % p)
            ops += ["H:%d:%d" % (p, i) for i in late]     # HAVEs insert into the enabled cache
        else:
            ops.append("J:%d:%s" % (p, "".join(bits)))
            ops.append("U:%d" % p)
    for _ in range(r.choice([1, 2, 3, 5])):
        ops.append("P:%d:0" % r.randrange(npeers))
    big = max(range(nf), key=lambda f: files[f])
    ops.append("W:%d:0" % (big if r.random() < 0.7 else r.randrange(nf)))
    if r.random() < 0.3:
        ops.append("W:%d:0" % r.randrange(nf))
    for _ in range(r.choice([6, 10, 14])):
        ops.append("P:%d:%d" % (r.randrange(npeers), r.choice([0, 0, 1])))
    if r.random() < 0.4:
        ops.append("W:%d:%d" % (big, r.choice([1, 2])))
        for _ in range(4):
            ops.append("P:%d:0" % r.randrange(npeers))
    ops.append("A:31")
    q = r.randrange(npeers)
    ops.append("Q:%d" % q)
    stats["priority_mid_download"] = stats.get("priority_mid_download", 0) + 1
    return header(plen, files, "0" * n, r.randrange(1, 1 << 16)) + " | " + " ".join(ops)


def reissue_case(r, stats):
    """The shape of Properties.v reissued_after_choke_timeout / reissued_after_disconnect: few wanted pieces, so that ONE connection
    p holds every outstanding request while another connection q (announced the pieces, unchoking, interested and queued) has
    nothing to be asked for; then p's requests are voided by CHOKE + the 6 s delay_remove_choked timer, or by a disconnect, and
    the blocks must be asked for at q (RequestList::choked / clear -> Block::release -> Delegator::delegate at q)."""
    plen, files = r.choice([(32768, [30000, 30000, 30000, 30000, 30000, 500000]), (16384, [16384, 16384, 16384, 16384, 327680]),
                            (65536, [65536 * 2, 70000, 65536 * 6]), (49152, [49152 * 2 + 5000, 49152 * 10])])
    n = npieces(plen, files)
    nf = len(files)
    keep = r.randrange(nf - 1)                    # one small file stays wanted
    ops = ["W:%d:0" % f for f in range(nf) if f != keep]
    npeers = r.choice([2, 2, 3])
    for p in range(npeers):
        ops.append("J:%d:%s" % (p, "1" * n if r.random() < 0.7 else rand_bits(r, n, "rand")))
    order = list(range(npeers))
    r.shuffle(order)
    ops += ["U:%d" % p for p in order]
    ops.append("A:%d" % r.choice([1, 31]))
    for _ in range(r.choice([0, 0, 1, 2])):
        ops.append("P:%d:0" % r.randrange(npeers))
    for rnd in range(r.choice([1, 1, 2])):
        p = r.randrange(npeers)
        if r.random() < 0.6:
            # below / at / above the 6 s timer; a PIECE for a voided request may still arrive (PK)
            ops.append("K:%d" % p)
            if r.random() < 0.25:
                ops.append("PK:%d:0" % p)
            ops.append("A:%d" % r.choice([5, 6, 7, 8, 12, 31]))
            stats["reissue_choke"] = stats.get("reissue_choke", 0) + 1
            back = "U:%d" % p
        else:
            if r.random() < 0.3:
                ops.append("PB:%d:0" % p)          # disconnect in the middle of a PIECE
            ops.append("X:%d" % p)
            stats["reissue_disconnect"] = stats.get("reissue_disconnect", 0) + 1
            back = "J:%d:%s U:%d" % (p, "1" * n, p)
        ops.append("A:%d" % r.choice([1, 8, 31]))
        for _ in range(r.choice([0, 1, 3])):
            ops.append("P:%d:0" % r.randrange(npeers))
        if r.random() < 0.6:
            ops.append(back)
            ops.append("A:31")
    q = r.randrange(npeers)
    ops.append("PE:%d" % q)
    ops.append("J:%d:%s" % (q, "1" * n))
    ops.append("Q:%d" % q)
    stats["reissue_shape"] = stats.get("reissue_shape", 0) + 1
    return header(plen, files, "0" * n, r.randrange(1, 1 << 16)) + " | " + " ".join(ops)


def count_reissues(out):
    """Measured on the implementation's trace: blocks whose outstanding request at connection p was voided by p's CHOKE followed by
    the choke timer (DC:p), or by p's disconnect (X:p), and that were then requested at a DIFFERENT connection."""
    ev, _, _, _ = parse_trace(out)
    held, choked, freed_choke, freed_disc = {}, {}, {}, {}
    n_choke = n_disc = 0
    for e in (ev or [])[1:]:
        t = e[0]
        if t == "J":
            held[e[1]] = set()
        elif t == "R":
            b = (int(e[2]), int(e[3]))
            held.setdefault(e[1], set()).add(b)
            if b in freed_choke and freed_choke[b] != e[1]:
                n_choke += 1
            if b in freed_disc and freed_disc[b] != e[1]:
                n_disc += 1
            freed_choke.pop(b, None)
            freed_disc.pop(b, None)
        elif t == "P" or t == "C":
            held.get(e[1], set()).discard((int(e[2]), int(e[3])))
        elif t == "K":
            choked[e[1]] = choked.get(e[1], set()) | held.get(e[1], set())
            held[e[1]] = set()
        elif t == "DC":
            for b in choked.pop(e[1], set()):
                freed_choke[b] = e[1]
        elif t == "X":
            for b in held.pop(e[1], set()) | choked.pop(e[1], set()):
                freed_disc[b] = e[1]
        elif t == "F":
            for d in (freed_choke, freed_disc):
                for b in [b for b in d if b[0] == int(e[1])]:
                    del d[b]
    return n_choke, n_disc


def hand_cases():
    H = []
    z10 = "0" * 10
    big = (32768, [100000, 200000])            # 10 pieces
    h = lambda ops, lay=big, done=None, seed=3: header(lay[0], lay[1], done or "0" * npieces(*lay), seed) + " | " + ops
    # one seeder, in order
    H.append(h("J:0:1111111111 U:0 Q:0"))
    # out of order, choke, drop of the choked bucket, unchoke, complete
    H.append(h("J:0:1111111111 U:0 P:0:0 P:0:0 P:0:2 A:7 K:0 A:7 U:0 Q:0"))
    # unordered timeout: serve the LAST request first, then stay silent for > 60 s, then continue
    H.append(h("J:0:1111111111 U:0 P:0:1 A:61 P:0:0 P:0:0 A:65 P:0:0 Q:0"))
    H.append(h("J:0:1111111111 U:0 P:0:0 P:0:0 P:0:0 P:0:3 A:70 P:0:0 P:0:0 P:0:0 P:0:0 A:10 Q:0"))
    # slow peer: stall ticks, second peer takes over
    H.append(h("J:0:1111111111 U:0 A:130 A:130 J:1:1111111111 U:1 A:31 Q:1"))
    H.append(h("J:0:1111111111 U:0 P:0:0 A:250 A:250 J:1:1111111111 Q:1"))
    # choke with only stalled requests (RequestList::choked early return)
    H.append(h("J:0:1111111111 U:0 A:250 K:0 A:10 U:0 A:40 Q:0"))
    # choke flapping
    H.append(h("J:0:1111111111 U:0 K:0 U:0 K:0 U:0 A:1 K:0 A:5 U:0 A:2 K:0 A:7 U:0 A:31 Q:0"))
    # disconnect mid piece, rejoin
    H.append(h("J:0:1111111111 U:0 PB:0:0 X:0 J:1:1111111111 U:1 A:31 Q:1"))
    H.append(h("J:0:1111111111 J:1:1111111111 U:0 U:1 PB:0:0 P:1:0 P:1:0 PE:0 Q:1"))
    # two peers disjoint halves, HAVE trickle
    H.append(h("J:0:1010101010 J:1:0101010101 U:0 U:1 P:0:0 P:1:0 H:0:1 H:1:0 P:0:0 P:1:0 A:31 Q:0"))
    # peer without bitfield that trickles HAVEs
    H.append(h("J:0:- U:0 H:0:3 P:0:0 H:0:4 P:0:0 P:0:0 H:0:9 P:0:0 A:31 Q:0"))
    # endgame: small torrent, 3 peers, everyone asked for the same blocks, cancels
    small = (32768, [40000, 50000])
    H.append(h("J:0:111 J:1:111 J:2:111 U:0 U:1 U:2 A:31 P:0:0 P:1:0 P:2:0 P:0:0 P:1:1 Q:2", small))
    H.append(h("J:0:111 J:1:111 U:0 U:1 A:31 P:0:0 P:0:0 K:1 A:7 U:1 X:0 A:31 Q:1", small))
    # priorities: files off before start, switched on later; off while in flight
    many = (32768, [30000, 30000, 30000, 30000, 30000, 500000])
    H.append(h("W:5:0 J:0:%s U:0 P:0:0 P:0:0 P:0:0 P:0:0 P:0:0 A:31 W:5:1 A:31 Q:0" % ("1" * npieces(*many)), many))
    H.append(h("W:0:0 W:1:2 J:0:%s U:0 P:0:0 P:0:0 W:1:0 P:0:0 P:0:0 A:31 Q:0" % ("1" * npieces(*many)), many))
    H.append(h("J:0:%s U:0 P:0:0 W:5:0 P:0:0 P:0:0 P:0:0 P:0:0 P:0:0 A:31 Q:0" % ("1" * npieces(*many)), many))
    # partially complete at start
    H.append(h("J:0:1111111111 U:0 Q:0", big, "1100110011"))
    # a peer leaves / chokes with listed pieces in flight that the remaining peer does NOT have (delegate must not hand them out)
    H.append(h("J:0:1111100000 J:1:0000011000 U:0 U:1 A:31 X:0 P:1:0 P:1:0 P:1:0 P:1:0 A:31 P:1:0 A:31"))
    H.append(h("J:0:1010101010 J:1:0101010101 U:0 U:1 A:31 X:0 A:31 P:1:0 P:1:0 P:1:0 A:31 P:1:0 P:1:0"))
    H.append(h("J:0:1111100000 J:1:0000011000 U:0 U:1 A:31 K:0 A:8 P:1:0 P:1:0 P:1:0 P:1:0 A:31 P:1:0 U:0 A:31 Q:0"))
    # a block half received while request rounds run (stall_prolonged after >= 3 keep-alive ticks; endgame HAVE / tick):
    # the connection's own in-progress transfer must keep Block::insert from handing the block to it again
    H.append(h("J:0:1111111111 U:0 PB:0:0 A:125 A:125 A:125 A:125 PE:0 Q:0"))
    H.append(h("J:0:1111111111 U:0 P:0:0 PB:0:0 A:250 A:250 PE:0 A:31 Q:0"))
    H.append(h("J:0:110 U:0 PB:0:0 H:0:2 A:125 PE:0 Q:0", small))
    H.append(h("J:0:111 J:1:111 U:0 U:1 PB:0:0 A:125 P:1:0 A:125 PE:0 Q:1", small))
    # wanted range starting at a piece index that is not a multiple of 8, the pieces before it switched off
    H.append(h("W:0:0 W:1:0 W:2:0 W:3:0 J:0:%s U:0 Q:0" % ("1" * npieces(*many)), many))
    H.append(h("W:0:0 W:1:0 W:2:0 W:3:0 W:4:0 J:0:%s J:1:%s U:0 U:1 P:0:0 P:1:0 A:31 Q:1" % ("1" * npieces(*many), "01" * (npieces(*many) // 2)), many))
    # a piece started by a leecher whose requests are voided (leaves / chokes); only seeders remain
    H.append(h("J:0:1111100000 U:0 P:0:0 X:0 J:1:1111111111 U:1 A:31 Q:1"))
    H.append(h("J:0:1111100000 J:1:1111111111 U:0 U:1 P:0:0 K:0 A:8 A:31 Q:1"))
    # limited download slots: one slot, three seeders
    H.append(header(32768, [100000, 200000], "0" * 10, 3, 1) + " | J:0:1111111111 J:1:1111111111 J:2:1111111111 U:0 U:1 U:2 A:31 P:0:0 P:1:0 P:2:0 A:31 A:31 P:0:0 P:1:0 P:2:0 K:0 A:31 A:31 P:1:0 P:2:0 Q:2")
    H.append(header(32768, [100000, 200000], "0" * 10, 4, 2) + " | J:0:1111111111 J:1:1111111111 J:2:1111111111 J:3:1111111111 U:0 U:1 U:2 U:3 A:31 P:0:0 P:3:0 A:61 P:1:0 P:2:0 X:0 A:31 A:31 Q:3")
    # message crossings
    H.append(h("J:0:1111111111 U:0 B:0:2 K:0 U:0 A:1 P:0:0 A:7 P:0:0 A:31 Q:0"))             # CHOKE+UNCHOKE in one segment
    H.append(h("J:0:1111111111 U:0 P:0:0 K:0 PK:0:0 PK:0:0 A:7 U:0 A:31 Q:0"))                # PIECEs after the peer's CHOKE
    H.append(h("J:0:- B:0:3 U:0 H:0:3 H:0:4 A:1 P:0:0 A:31 Q:0"))                              # UNCHOKE racing with HAVEs
    H.append(h("J:0:111 J:1:111 U:0 U:1 A:31 P:0:0 PC:1:0 P:1:0 PC:0:0 A:31 Q:1", small))       # PIECE crossing our CANCEL (endgame)
    H.append(h("J:0:1111100000 J:1:1111111111 U:0 U:1 B:0:1 P:1:0 K:0 P:1:0 A:1 P:1:0 A:8 Q:1"))  # requests sent while p0's CHOKE is in flight
    # one small wanted file, the rest off (normal mode): seeder 0 holds every request of the wanted piece, seeder 1 has nothing
    # to be asked for; then 0 chokes: the requests must be re-issued to 1 (interest in a LISTED piece must have been kept)
    H.append(h("W:1:0 W:2:0 W:3:0 W:4:0 W:5:0 J:0:%s J:1:%s U:0 U:1 A:31 K:0 A:8 A:31 Q:1" % ("1" * npieces(*many), "1" * npieces(*many)), many))
    H.append(h("W:1:0 W:2:0 W:3:0 W:4:0 W:5:0 J:0:%s J:1:%s U:0 U:1 A:31 X:0 A:31 Q:1" % ("1" * npieces(*many), "1" * npieces(*many)), many))
    # a peer with nothing useful unchokes (interest dropped), chokes, unchokes again while the client is not interested,
    # then announces a wanted piece: the unchoke must not have been forgotten
    H.append(h("J:0:- U:0 K:0 U:0 H:0:3 A:31 Q:0"))
    H.append(h("J:0:- U:0 A:3 K:0 A:12 U:0 A:12 H:0:3 H:0:4 A:31 P:0:0 A:31 Q:0"))
    # a file is switched off IN THE MIDDLE of a download while an interested, unchoked NON-seeder has candidate pieces of that file
    # cached (PeerChunks::download_cache): update_priorities must flush those caches, no NEW piece of the file may be started
    H.append(h("J:0:0%s U:0 P:0:0 P:0:0 W:5:0 %s A:31 Q:0" % ("1" * (npieces(*many) - 1), " ".join(["P:0:0"] * 10)), many))
    H.append(header(16384, [16384, 16384, 16384, 16384, 327680], "0" * 24, 5) + " | J:0:011111111111111111111110 U:0 P:0:0 W:4:0 " + " ".join(["P:0:0"] * 7) + " A:31 Q:0")
    # four peers
    H.append(h("J:0:1111100000 J:1:0000011111 J:2:1111111111 J:3:- U:0 U:1 U:2 U:3 P:0:0 P:1:0 P:2:0 K:2 P:0:0 X:1 A:8 U:2 H:3:2 A:31 Q:2"))
    return H


def gen(seed, tier):
    r = random.Random(seed * 1000003 + 4)
    stats = {}
    cases = []
    cdir = os.path.join(os.path.dirname(os.path.dirname(os.path.abspath(__file__))), "corpus", "C04")
    if os.path.isdir(cdir):
        for f in sorted(os.listdir(cdir)):
            if f.endswith(".case"):
                for l in open(os.path.join(cdir, f)):
                    l = l.strip()
                    if l and not l.startswith("#"):
                        cases.append(l)
    stats["corpus"] = len(cases)
    hc = hand_cases()
    cases += hc
    stats["hand"] = len(hc)
    n = 260 if tier == "quick" else 2400
    for _ in range(n):
        cases.append(random_case(r, stats))
    # short-time stream: no long silences, many ops (choke flapping / out-of-order heavy)
    for _ in range(n // 4):
        cases.append(random_case(r, stats, nops=r.choice([40, 120]), big_time=False))
    # limited download slots (ResourceManager::max_download_unchoked 1 or 2) with 2-4 peers: the client's own choke
    # queue decides who may be asked; more time steps so that its balance tick runs
    for _ in range(n // 4):
        cases.append(random_case(r, stats, nops=r.choice([20, 40, 80]), slots=True))
    for _ in range(n // 8):
        cases.append(priority_mid_case(r, stats))
    # the shape of the reissued_after_* theorems: one holder, voided by CHOKE + 6 s timer or disconnect, re-issued elsewhere
    nre = 24 if tier == "quick" else 240
    for _ in range(nre):
        cases.append(reissue_case(r, stats))
    stats["random"] = n + n // 4 + n // 4 + n // 8 + nre
    return cases, stats


# ------------------------------------------------------------------------------------------------
# Property oracle evaluated DIRECTLY on the implementation's observed wire streams (independent of
# the Coq model): returns [(class_token, text)].

def parse_trace(out):
    """out: harness line -> (events list of token lists, done flag, amb, err)"""
    main = out.partition(" || ")[0]
    toks = main.split()
    ev = None
    done = "-"
    amb = 0
    err = None
    for t in toks:
        if t.startswith("ev="):
            ev = [e.split(":") for e in t[3:].split(",")]
        elif t.startswith("done="):
            done = t[5:]
        elif t.startswith("amb="):
            amb = int(t[4:])
        elif t.startswith("ERR:"):
            err = t
    return ev, done, amb, err


def classify_stuck(out):
    """Which mechanism left the completion phase stuck, from the harness's private-state diagnostics of the
    serving peer's connection (stuck=int<0|1>.unch..dq..nq..miss..listed..untouched..unheld..invalid..).
    Each known mechanism gets exactly its own class; anything else is no-completion-other."""
    m = re.search(r" stuck=(\S+)", out)
    if not m or m.group(1) == "noconn":
        return "no-completion-other", "no diagnostics"
    f = dict((k, int(x)) for k, x in re.findall(r"([a-z]+)(\d+)", m.group(1)))
    g = lambda k: f.get(k, 0)
    if g("int") == 1 and g("unch") == 1 and g("dq") == 0 and g("nq") == 1:
        return "no-completion", ("update_interested (update_priorities) re-marked interest while the peer had the client "
                                 "unchoked, without queueing the connection in the download choke queue: " + m.group(1))
    if g("int") == 0 and g("unch") == 1 and g("dq") == 0 and g("qcu") == 1:
        return "no-completion-queue-choked-unqueued", ("the client's own download choke queue choked the connection (it stays queued but is marked "
                                                       "not interested), the peer's CHOKE then removed it from the queue and its UNCHOKE is ignored "
                                                       "because the client is 'not interested': nothing queues it again: " + m.group(1))
    if g("int") == 0 and g("unch") == 1 and (g("licp") == 1 or (g("untouched") > 0 and g("invalid") > 0)):
        return "no-completion-cancelled-pipe", ("a cancelled (invalidated) transfer still sits in the request queue and fills "
                                                "the endgame pipe of 1; the client found nothing to request, dropped its "
                                                "interest and nothing raises it again: " + m.group(1))
    if g("int") == 0 and g("unch") == 1 and g("miss") > 0 and g("listed") == g("miss"):
        return "no-completion-have-listed", ("the client is not interested in an unchoking peer although every missing piece that peer "
                                             "announced is listed in the transfer list (a HAVE for a listed piece was ignored, or "
                                             "interest was dropped although is_interested_in_active should hold) and nothing "
                                             "raises the interest again: " + m.group(1))
    if g("unheld") > 0:
        return "no-completion-choke-stalled", ("the peer's CHOKE arrived when only stalled requests were listed; "
                                               "RequestList::choked returns early and keeps them, Block::insert then refuses "
                                               "this peer for those blocks for ever: " + m.group(1))
    return "no-completion-other", m.group(1)


def oracle(case, out):
    v = []
    if out.startswith("CRASH") or out.startswith("ERR:internal"):
        return [("crash", "the client died / threw internal_error on a conforming swarm: " + out[:160])]
    if out.startswith("ERR:hang"):
        return [("hang", "the client did not finish this case within the per-case wall-clock budget (busy loop / dead lock): " + out[:80])]
    if out.startswith("ERR:") or out in ("MISSING", "BADCASE"):
        return [("harness", "harness could not run the case: " + out[:160])]
    ev, done, amb, err = parse_trace(out)
    if ev is None or not ev or ev[0][0] != "T":
        return [("harness", "no trace: " + out[:160])]
    if err:
        v.append(("harness", "harness error " + err))
    plen, total = int(ev[0][1]), int(ev[0][2])
    completed = [c == "1" for c in ev[0][3]]
    wanted = [c == "1" for c in ev[0][4]]
    n = len(completed)
    started_wanted = set()       # pieces that were wanted when their first block was requested
    have = {}
    interested = {}
    unchoked = {}
    out_req = {}                 # peer -> set of (i,o) outstanding on the wire
    timed_out = {}               # peer -> blocks the client dropped by its unordered timer (no CANCEL sent)
    last_snap_u = {}
    now = 0                      # virtual seconds (sum of A:n)
    u_since = {}                 # peer -> {block: time it entered the unordered bucket}
    premature = {}               # peer -> blocks released by the unordered timer well before its 60 s
    mid = {}                     # peer -> block whose PIECE message is half received
    silent_drop = {}             # peer -> interest dropped internally and no INTERESTED sent since

    def psize(i):
        return total - i * plen if i == n - 1 else plen

    for k, e in enumerate(ev[1:], 1):
        t = e[0]
        if t == "J":
            p = e[1]
            have[p] = [c == "1" for c in e[2]]
            interested[p] = False
            unchoked[p] = False
            out_req[p] = set()
            timed_out[p] = set()
            last_snap_u[p] = []
        elif t == "X":
            for d in (have, interested, unchoked, out_req, timed_out, last_snap_u, mid, u_since, premature, silent_drop):
                d.pop(e[1], None)
        elif t == "H":
            have[e[1]][int(e[2])] = True
        elif t == "K":
            unchoked[e[1]] = False
            out_req[e[1]] = set([mid[e[1]]]) if e[1] in mid else set()      # a choke voids every request on the wire
            timed_out[e[1]] = set()
            premature[e[1]] = set()
        elif t == "U":
            unchoked[e[1]] = True
        elif t == "I":
            interested[e[1]] = True
            silent_drop[e[1]] = False
        elif t == "LI":
            # the client dropped its interest internally; the NOT_INTERESTED of that path is never written (m_send_interested is
            # overwritten), so the wire still says "interested": the next REQUEST must be preceded by a fresh INTERESTED
            silent_drop[e[1]] = True
        elif t == "N":
            interested[e[1]] = False
        elif t == "P":
            out_req[e[1]].discard((int(e[2]), int(e[3])))
            timed_out[e[1]].discard((int(e[2]), int(e[3])))
        elif t == "PB":
            # the answer has begun but the block is still outstanding on this connection until its last byte (PE)
            mid[e[1]] = (int(e[2]), int(e[3]))
        elif t == "PE":
            if e[1] in mid:
                b = mid.pop(e[1])
                out_req.get(e[1], set()).discard(b)
                timed_out.get(e[1], set()).discard(b)
        elif t == "C":
            out_req[e[1]].discard((int(e[2]), int(e[3])))
        elif t == "A":
            now += int(e[1])
        elif t == "F":
            completed[int(e[1])] = True
        elif t == "W":
            wanted = [c == "1" for c in e[1]]
        elif t == "Z":
            # remember the unordered bucket to know which blocks a DU drops
            parts = ":".join(e[3:]).split("/")
            last_snap_u[e[1]] = [tuple(map(int, x.split(".")[:2])) for x in parts[1].split(";") if x]
            since = u_since.setdefault(e[1], {})
            for b in list(since):
                if b not in last_snap_u[e[1]]:
                    del since[b]
            for b in last_snap_u[e[1]]:
                since.setdefault(b, now)
        elif t == "DU":
            for b in last_snap_u.get(e[1], [])[:int(e[2])]:
                timed_out[e[1]].add(b)
                if now - u_since.get(e[1], {}).get(b, now) < UNORDERED_TIMEOUT - 5:
                    premature.setdefault(e[1], set()).add(b)
        elif t == "R":
            p, i, o, l = e[1], int(e[2]), int(e[3]), int(e[4])
            where = "event %d REQUEST %d:%d:%d to peer %s" % (k, i, o, l, p)
            if p not in have:
                v.append(("request-unknown-peer", where + ": peer not connected"))
                continue
            if not (i < n and o % BLOCK == 0 and o < psize(i) and l == min(BLOCK, psize(i) - o) and l > 0):
                v.append(("request-geometry", where + ": outside the piece / not the block grid"))
                continue
            if not have[p][i]:
                v.append(("request-not-announced", where + ": the peer never announced piece %d" % i))
            if completed[i]:
                v.append(("request-completed", where + ": piece already completed"))
            if wanted[i]:
                started_wanted.add(i)
            elif i in started_wanted:
                v.append(("priority-off-inflight", where + ": piece %d belongs only to files now switched off "
                          "(it was wanted when its download began)" % i))
            else:
                v.append(("request-unwanted", where + ": piece %d is not wanted (priority off) and never was while requested" % i))
            if not interested.get(p):
                v.append(("request-uninterested", where + ": no INTERESTED in force"))
            elif silent_drop.get(p):
                v.append(("request-after-silent-uninterest", where + ": the client had dropped its interest in this peer (internally) and "
                          "sent no fresh INTERESTED before requesting again"))
            if not unchoked.get(p):
                v.append(("request-while-choked", where + ": the peer has the client choked"))
            if (i, o) in out_req[p]:
                if (i, o) in premature.get(p, ()):
                    v.append(("unordered-stale-position-rerequest", where + ": second REQUEST for a block still outstanding at this peer; the "
                              "client released the first one by its unordered timer only seconds after the block was overtaken (the "
                              "timer and m_last_unordered_position were left armed by an EARLIER out-of-order batch that a choke / "
                              "stall had emptied), again without CANCEL"))
                elif (i, o) in timed_out[p]:
                    v.append(("unordered-timeout-rerequest", where + ": second REQUEST for a block still outstanding at this peer "
                              "(the client dropped the first one by its 60 s unordered timer without sending CANCEL)"))
                elif mid.get(p) == (i, o):
                    v.append(("duplicate-request", where + ": block is being received on this very connection (PIECE half transferred)"))
                else:
                    v.append(("duplicate-request", where + ": block already outstanding on this connection"))
            out_req[p].add((i, o))
    if done == "0":
        kl, why = classify_stuck(out)
        v.append((kl, "completion phase: an honest unchoking peer with every piece served every request for 1500 s of "
                  "virtual time, yet wanted pieces remain (%s): %s" % (why, out.partition(" || ")[2][:60])))
    return v
