"""Constants of the download path (C01). ROBUSTNESS.md rule 3: the values are read from the COMPILED code (a constexpr
probe built against the tree: Delegator::block_size, HandshakeManager::max_failed); the source regex is only the
fallback when the probe cannot be built (member renamed)."""
import hashlib
import os
import re
import subprocess
import tempfile

_PROBE = r'''
#include "config.h"
#include <cstdio>
#include "download/delegator.h"
#include "protocol/handshake_manager.h"
int main() { std::printf("%llu %llu\n", (unsigned long long)torrent::Delegator::block_size, (unsigned long long)torrent::HandshakeManager::max_failed); return 0; }
'''
_CACHE = {}


def _probe():
    repo = os.environ.get("LTV_REPO", "/repo")
    h = hashlib.sha1()
    for rel in ("src/download/delegator.h", "src/protocol/handshake_manager.h"):
        try:
            h.update(open(os.path.join(repo, rel), "rb").read())
        except OSError:
            h.update(b"?")
    key = (repo, h.hexdigest())
    if key in _CACHE:
        return _CACHE[key]
    val = None
    try:
        with tempfile.TemporaryDirectory(prefix="c01probe", dir=os.path.join(os.path.dirname(os.path.dirname(os.path.abspath(__file__))), "build")) as d:
            src, exe = os.path.join(d, "p.cc"), os.path.join(d, "p")
            open(src, "w").write(_PROBE)
            r = subprocess.run(["g++", "-std=c++20", "-DHAVE_CONFIG_H", "-I" + repo, "-I" + repo + "/src", "-I" + repo + "/src/torrent",
                                "-O0", src, "-o", exe], stdout=subprocess.PIPE, stderr=subprocess.STDOUT, timeout=120)
            if r.returncode == 0:
                out = subprocess.run([exe], stdout=subprocess.PIPE, timeout=20).stdout.decode().split()
                val = (int(out[0]), int(out[1]))
    except Exception:
        val = None
    _CACHE[key] = val
    return val


def _regex_int(rel, rx):
    repo = os.environ.get("LTV_REPO", "/repo")
    try:
        m = re.search(rx, open(os.path.join(repo, rel), errors="replace").read(), flags=re.S)
    except OSError:
        return None
    if not m:
        return None
    s = m.group(1).strip("() ")
    mm = re.match(r"(\d+)\s*<<\s*(\d+)$", s)
    return (int(mm.group(1)) << int(mm.group(2))) if mm else int(s)


def _block_size(_m):
    p = _probe()
    return p[0] if p else _regex_int("src/download/delegator.h", r"block_size\s*=\s*(1 << \d+);")


def _max_failed(_m):
    p = _probe()
    return p[1] if p else _regex_int("src/protocol/handshake_manager.h", r"max_failed\s*=\s*(\d+);")


# (the regex "(.)" on config.h always matches: the value comes from the converter)
ENTRIES = [
    ("c01_block_size", "config.h", r"(.)", "N", _block_size),
    ("c01_max_failed", "config.h", r"(.)", "N", _max_failed),
]
