"""Constants of the download path (C01) re-extracted from /repo on every run."""
ENTRIES = [
    ("c01_block_size", "src/download/delegator.h", r"block_size\s*=\s*(1 << \d+);", "N"),
    ("c01_max_failed", "src/protocol/handshake_manager.h", r"max_failed\s*=\s*(\d+);", "N"),
    ("c01_piece_len_min_excl", "src/download/download_constructor.cc",
     r"if \(piece_length <= (\(1 << \d+\)) \|\| piece_length > \(\d+ << \d+\)\)", "N"),
    ("c01_msg_len_limit", "src/protocol/peer_connection_leech.cc", r"\} else if \(length > (\(1 << \d+\))\) \{", "N"),
]
