"""C15 case generator (DHT routing table / tokens / peer store). Case protocol: harness/c15.cc.

Aims (the case splits of the code and of the proofs):
  * ids sharing long prefixes with the own id  -> deep chains of own-bucket splits (add_loop, mid_point)
  * a 9th node for a full bucket not holding the own id -> discard branch
  * five failed queries -> bad node -> replacement branch; good+bad nodes via housekeeping
  * clock steps around 900 s (node/bucket activity), 14400 s (removal), 1800 s (peer pruning), each +-1
  * tokens: current / previous / two rotations old / issued to another IP / wrong length
  * announce ports with distinct high/low byte, 0, > 65535; > 32 and > 128 peers per torrent
"""
import hashlib
import os
import random
import struct

T0 = 400 * 86400
MAXID = (1 << 160) - 1


def hid(x):
    return "%040x" % x


def token(secret, ip):
    return hashlib.sha1(struct.pack("<I", secret & 0xffffffff) + struct.pack(">I", ip)).digest()[:8].hex()


def near(rng, own, depth=None):
    """id that agrees with own on the first `depth` bits and differs at the next one"""
    if depth is None:
        depth = min(158, int(rng.expovariate(1 / 24.0)))
    low = 159 - depth          # bit index (from LSB) of the first differing bit
    x = own ^ (1 << low)
    mask = (1 << low) - 1
    x = (x & ~mask) | rng.getrandbits(low) if low > 0 else x
    return x


QN = {"ping": b"ping".hex(), "find_node": b"find_node".hex(), "get_peers": b"get_peers".hex(),
      "announce_peer": b"announce_peer".hex()}
PORTS_ODD = [0, 65536, 65537, 65536 + 6881, 131072, -1, -6881, -65535, -65536, 2 ** 31, 2 ** 63 - 1, -2 ** 63, 4294967296 + 80]


def U(ip, t="6161", y="71", q="~", id="~", target="~", ih="~", token="~", port="~", rnd=0):
    """datagram op: fields are hex, '-' (empty string), '~' (absent) or '!' (wrong bencode type)"""
    return "U,%d,%d,%s,%s,%s,%s,%s,%s,%s,%s" % (ip, rnd, t, y, q, id, target, ih, token, port)


class Gen:
    def __init__(self, rng, own=None, nips=6, loop=False):
        self.rng = rng
        self.own = own if own is not None else rng.choice(
            [rng.getrandbits(160), (1 << 159) + 1, MAXID, 1, MAXID - 1, rng.getrandbits(160), 0x80 << 152])
        self.cur = rng.getrandbits(31)
        self.prev = rng.getrandbits(31)
        self.old = []
        self.t0 = T0 + rng.randrange(0, 100000)
        self.loop = loop
        if loop:   # datagram level: scripted nodes live on loopback addresses
            self.ips = [0x7f000002 + j for j in range(nips)] + [0x7f000100 + rng.randrange(1, 250)]
        else:
            self.ips = [(10 << 24) + rng.getrandbits(16) for _ in range(nips)] + [0x7f000001]
        self.known = []         # (id, ip, port) we used in R
        self.issued = []        # (tokenhex, ip)
        self.ihs = [rng.getrandbits(160) for _ in range(2)] + [near(rng, self.own, 6)]
        self.ops = []
        self.stats = {}

    def head(self):
        return "N %s %d %d %d" % (hid(self.own), self.cur, self.prev, self.t0)

    def emit(self, s):
        self.ops.append(s)
        k = s[0]
        self.stats[k] = self.stats.get(k, 0) + 1

    def new_id(self):
        r = self.rng.random()
        if r < 0.55:
            return near(self.rng, self.own)
        if r < 0.9:
            # foreign region: pick one of a few fixed prefixes so that those buckets fill up
            top = self.rng.choice([0x11, 0x12, 0xee, 0x55])
            return (top << 152) | self.rng.getrandbits(152)
        if r < 0.93:
            return self.rng.choice([0, self.own, self.own ^ 1, MAXID, 1])
        return self.rng.getrandbits(160)

    def nport(self):
        # datagram-level cases really send the packets the server queues: keep node ports below the
        # ephemeral range so that they can never reach a socket of a harness process running in parallel
        return self.rng.randrange(1, 1024) if self.loop else self.rng.randrange(1, 65536)

    def contact(self):
        rng = self.rng
        if self.known and rng.random() < 0.45:
            i, ip, port = rng.choice(self.known)
            if rng.random() < 0.1:
                ip = rng.choice(self.ips)       # address mismatch
        else:
            i, ip, port = self.new_id(), rng.choice(self.ips), self.nport()
        return i, ip, port

    def rid(self):
        """20-byte id of a scripted querier (sometimes a node we know)"""
        rng = self.rng
        if self.known and rng.random() < 0.4:
            return hid(rng.choice(self.known)[0])
        return hid(self.new_id())

    def query(self, malformed=False):
        """one datagram: well-formed ping / find_node / get_peers / announce_peer, or a mutation"""
        rng = self.rng
        ip = rng.choice(self.ips)
        kind = rng.choice(["ping", "find_node", "find_node", "get_peers", "get_peers", "announce_peer", "announce_peer"])
        f = dict(t=rng.choice(["61", "6161", "00", "-", "ff" * 4, "31" * 20]), y="71", q=QN[kind], id=self.rid(),
                 target="~", ih="~", token="~", port="~", rnd=rng.getrandbits(31))
        if kind == "find_node":
            f["target"] = hid(rng.choice([self.new_id(), self.own, 0, MAXID]))
            if rng.random() < 0.1:
                f["target"] += "abcd"          # longer than 20 bytes: first 20 count
        if kind in ("get_peers", "announce_peer"):
            f["ih"] = hid(rng.choice(self.ihs))
        if kind == "announce_peer":
            tok, _ = self.tok_choice()
            r = rng.random()
            f["token"] = token(self.cur, ip) if r < 0.6 else token(self.prev, ip) if r < 0.75 else tok
            f["port"] = str(rng.choice([6881, 1, 65535, 0x1234, 256, rng.randrange(1, 65536)]))
            if rng.random() < 0.25:
                f["port"] = str(rng.choice(PORTS_ODD))
        if malformed:
            for _ in range(rng.choice([1, 1, 2])):
                k = rng.choice(["t", "y", "q", "id", "target", "ih", "token", "port", "q", "id"])
                if k == "t":
                    f["t"] = rng.choice(["~", "!", "61" * 21, "61" * 66, "61" * 67, "61" * 200])
                elif k == "y":
                    f["y"] = rng.choice(["~", "!", "-", "7171", "7a", "51"])
                elif k == "q":
                    f["q"] = rng.choice(["~", "!", "-", b"pong".hex(), b"PING".hex(), b"find_nodes".hex(), b"get_peer".hex(), "00"])
                elif k == "id":
                    f["id"] = rng.choice(["~", "!", "-", hid(self.own), hid(self.own) + "00", self.rid()[:38], self.rid() + "ff", "00" * 20])
                elif k in ("target", "ih"):
                    v = rng.choice(["~", "!", "-", hid(self.new_id())[:38], hid(self.new_id())[:2]])
                    f[k] = v
                elif k == "token":
                    f["token"] = rng.choice(["~", "!", "-", token(self.cur, ip)[:14], token(self.cur, ip) + "00", token(self.cur, self.ips[0] ^ 1)])
                else:
                    f["port"] = rng.choice(["~", "!"] + [str(x) for x in PORTS_ODD])
        self.emit(U(ip, **f))

    def op(self):
        rng = self.rng
        if self.loop:
            r0 = rng.random()
            if r0 < 0.40:
                return self.query(False)
            if r0 < 0.55:
                return self.query(True)
            if r0 < 0.57:
                return self.emit("X,%d,%s" % (rng.choice(self.ips), rng.choice(
                    [b"hello".hex(), b"d1:t1:a".hex(), b"i1e".hex(), b"le".hex(), b"d1:t2:aa1:y1:q".hex(), "00", b"d".hex(), b"d1:ti5e".hex()])))
        r = rng.random()
        if r < 0.36:
            i, ip, port = self.contact()
            self.emit("R,%s,%d,%d" % (hid(i), ip, port))
            self.known.append((i, ip, port))
        elif r < 0.44:
            i, ip, port = self.contact()
            self.emit("Q,%s,%d,%d" % (hid(i), ip, port))
        elif r < 0.54:
            i, ip, port = self.contact()
            for _ in range(rng.choice([1, 1, 2, 4, 5, 6])):
                self.emit("I,%s,%d,%d" % (hid(i), ip, port))
        elif r < 0.56:
            i, _, _ = self.contact()
            self.emit("V,%s" % hid(i))
        elif r < 0.66:
            self.emit("T,%d" % rng.choice([0, 1, 5, 30, 899, 900, 901, 1799, 1800, 1801, 14399, 14400, 14401,
                                          rng.randrange(0, 2000), rng.randrange(0, 20000)]))
        elif r < 0.72:
            self.old.append(self.prev)
            self.prev = self.cur
            self.cur = rng.getrandbits(31)
            self.emit("H,%d" % self.cur)
        elif r < 0.76:
            ip = rng.choice(self.ips)
            self.emit("G,%d" % ip)
            self.issued.append((token(self.cur, ip), ip))
        elif r < 0.81:
            self.emit("K,%s,%d" % self.tok_choice())
        elif r < 0.89:
            tok, ip = self.tok_choice()
            port = rng.choice([6881, 0x1234, 0x0101, 0, 65536, 65536 + 257, 70000, 1, 256, 65535, rng.randrange(1, 65536)])
            self.emit("A,%s,%d,%d,%s" % (hid(rng.choice(self.ihs)), ip, port, tok))
        elif r < 0.94:
            self.emit("P,%s,%d,%d" % (hid(rng.choice(self.ihs)), rng.choice(self.ips), rng.getrandbits(31)))
        elif r < 0.97:
            self.emit("F,%s" % hid(rng.choice([self.new_id(), self.own, 0, MAXID])))
        else:
            self.emit("W,%s" % hid(self.new_id()))

    def tok_choice(self):
        rng = self.rng
        ip = rng.choice(self.ips)
        r = rng.random()
        if r < 0.45:
            return token(self.cur, ip), ip
        if r < 0.65:
            return token(self.prev, ip), ip
        if r < 0.75 and self.old:
            return token(rng.choice(self.old), ip), ip
        if r < 0.85 and self.issued:
            return rng.choice(self.issued)[0], ip           # maybe issued to another IP
        if r < 0.92:
            t = token(self.cur, ip)
            return rng.choice([t[:14], t + "00", "-", t[:-2] + "%02x" % (int(t[-2:], 16) ^ 1)]), ip
        return os.urandom(0).hex() or "%016x" % rng.getrandbits(64), ip

    def line(self):
        return self.head() + " " + " ".join(self.ops)


def random_case(rng, nops, dump_every, loop=False):
    g = Gen(rng, loop=loop)
    while len(g.ops) < nops:
        g.op()
        if dump_every and rng.random() < 1.0 / dump_every:
            g.emit("D")
    return g.line(), g.stats


def deep_split_case(rng, depth):
    """fill the own bucket again and again: nodes at every prefix depth"""
    g = Gen(rng)
    order = list(range(depth))
    if rng.random() < 0.5:
        rng.shuffle(order)
    for d in order:
        for _ in range(rng.choice([1, 2, 9])):
            i = near(rng, g.own, d)
            g.emit("R,%s,%d,%d" % (hid(i), rng.choice(g.ips), rng.randrange(1, 65536)))
        if rng.random() < 0.1:
            g.emit("D")
    g.emit("F,%s" % hid(g.own))
    g.emit("F,%s" % hid(near(rng, g.own, 3)))
    return g.line(), g.stats


def bad_node_case(rng):
    """full foreign bucket, make nodes bad, let housekeeping turn a bad node good again, replace"""
    g = Gen(rng)
    ids = [(0x11 << 152) | rng.getrandbits(152) for _ in range(10)]
    ownside = [near(rng, g.own, 1) for _ in range(9)]
    for i in ownside + ids[:8]:
        g.emit("R,%s,%d,%d" % (hid(i), g.ips[0], 1000))
    g.emit("D")
    v = ids[rng.randrange(8)]
    for _ in range(rng.choice([4, 5, 6])):
        g.emit("I,%s,%d,%d" % (hid(v), g.ips[0], 1000))
    g.emit("T,%d" % rng.choice([10, 899, 900, 14400]))
    if rng.random() < 0.7:
        g.emit("H,%d" % rng.getrandbits(31))
    g.emit("D")
    g.emit(rng.choice(["R", "Q"]) + ",%s,%d,%d" % (hid(v), g.ips[0], 1000))
    g.emit("D")
    g.emit("W,%s" % hid(ids[8]))
    g.emit("R,%s,%d,%d" % (hid(ids[8]), g.ips[1], 1001))
    g.emit("R,%s,%d,%d" % (hid(ids[9]), g.ips[1], 1002))
    g.emit("D")
    for _ in range(rng.randrange(0, 12)):
        g.op()
    return g.line(), g.stats


def token_case(rng):
    g = Gen(rng)
    ip, ip2 = g.ips[0], g.ips[1]
    ih = g.ihs[0]
    g.emit("G,%d" % ip)
    t = token(g.cur, ip)
    port = rng.choice([6881, 0x1234, 51413, 0x0101])
    seq = ["K,%s,%d" % (t, ip), "K,%s,%d" % (t, ip2), "A,%s,%d,%d,%s" % (hid(ih), ip, port, t),
           "P,%s,%d,%d" % (hid(ih), ip2, 5)]
    for rot in range(3):
        for s in seq:
            g.emit(s)
        g.emit("T,%d" % rng.choice([900, 899, 901]))
        g.old.append(g.prev)
        g.prev = g.cur
        g.cur = rng.getrandbits(31)
        g.emit("H,%d" % g.cur)
    for s in seq:
        g.emit(s)
    return g.line(), g.stats


def dgram_flow_case(rng):
    """get_peers -> token -> announce_peer -> get_peers from another address, across rotations; a D
    right before find_node so that the oracle can compare the nodes with the table"""
    g = Gen(rng, loop=True)
    a, b = g.ips[0], g.ips[1]
    ih = hid(g.ihs[0])
    for _ in range(rng.choice([0, 3, 12, 30])):
        i = g.new_id()
        ip, port = rng.choice(g.ips), g.nport()
        g.emit("R,%s,%d,%d" % (hid(i), ip, port))
        g.known.append((i, ip, port))
    port = rng.choice([6881, 51413, 0x0102, 65535, 1])
    for rot in range(3):
        g.emit(U(a, q=QN["get_peers"], id=g.rid(), ih=ih))
        g.emit(U(a, q=QN["announce_peer"], id=g.rid(), ih=ih, token=token(g.cur if rot == 0 else g.old_tok, a), port=str(port)))
        g.emit(U(b, q=QN["get_peers"], id=g.rid(), ih=ih))
        g.emit("D")
        g.emit(U(b, q=QN["find_node"], id=g.rid(), target=hid(g.new_id())))
        g.emit(U(b, q=QN["ping"], id=g.rid()))
        if rot == 0:
            g.old_tok = g.cur
        g.emit("T,%d" % rng.choice([900, 899, 1000]))
        g.old.append(g.prev)
        g.prev = g.cur
        g.cur = rng.getrandbits(31)
        g.emit("H,%d" % g.cur)
    for _ in range(rng.randrange(0, 10)):
        g.op()
    return g.line(), g.stats


def dgram_ports_case(rng):
    """announce_peer with every odd port value, each followed by get_peers"""
    g = Gen(rng, loop=True)
    a, b = g.ips[0], g.ips[1]
    for j, pt in enumerate(PORTS_ODD + ["!", "~", 1, 65535]):
        ih = hid(0xbb00 + j)
        g.emit(U(a, q=QN["announce_peer"], id=g.rid(), ih=ih, token=token(g.cur, a), port=str(pt)))
        g.emit(U(b, q=QN["get_peers"], id=g.rid(), ih=ih))
    g.emit("D")
    return g.line(), g.stats


def dgram_many_peers_case(rng, n):
    g = Gen(rng, loop=True)
    ih = hid(g.ihs[0])
    for j in range(n):
        ip = 0x7f000200 + j + 1
        g.emit(U(ip, q=QN["announce_peer"], id=g.rid(), ih=ih, token=token(g.cur, ip), port=str(2000 + j)))
        if j in (31, 32, 33, 127, 128, 129):
            g.emit(U(g.ips[0], q=QN["get_peers"], id=g.rid(), ih=ih, rnd=rng.getrandbits(31)))
    g.emit(U(g.ips[0], q=QN["get_peers"], id=g.rid(), ih=ih, rnd=rng.getrandbits(31)))
    return g.line(), g.stats


def reannounce_case(rng, dgram):
    """announce at t0, re-announce (same ip; same or new port) at t0+x, housekeeping at t0+x+y with
    x+y beyond the 30 min limit but y within it, then get_peers: the peer must still be there"""
    g = Gen(rng, loop=dgram)
    a, b = g.ips[0], g.ips[1]
    ihn = g.ihs[0]
    port = rng.choice([6881, 51413, 1, 65535, 0x0102])
    port2 = port if rng.random() < 0.7 else (port % 65535) + 1
    x = rng.choice([1200, 1000, 1799, 900, 1801, 5])
    y = rng.choice([700, 1799, 1800, 1801, 900, 1000, 1])

    def ann(pt):
        if dgram:
            g.emit(U(a, q=QN["announce_peer"], id=g.rid(), ih=hid(ihn), token=token(g.cur, a), port=str(pt)))
        else:
            g.emit("A,%s,%d,%d,%s" % (hid(ihn), a, pt, token(g.cur, a)))

    def get():
        if dgram:
            g.emit(U(b, q=QN["get_peers"], id=g.rid(), ih=hid(ihn)))
        else:
            g.emit("P,%s,%d,%d" % (hid(ihn), b, 0))
    ann(port)
    if rng.random() < 0.5:      # a second peer that is not refreshed (control: must be pruned when old)
        g.emit("A,%s,%d,%d,%s" % (hid(ihn), g.ips[2], 4242, token(g.cur, g.ips[2])))
    g.emit("T,%d" % x)
    ann(port2)
    get()
    g.emit("T,%d" % y)
    g.old.append(g.prev)
    g.prev, g.cur = g.cur, rng.getrandbits(31)
    g.emit("H,%d" % g.cur)
    get()
    g.emit("D")
    return g.line(), g.stats


def cluster_case(rng):
    """eight nodes that share a long prefix with each other and d bits with the own id fill the single
    bucket; a ninth node then needs min(d, e)+1 consecutive splits of the own bucket"""
    g = Gen(rng)
    d = rng.choice([2, 3, 4, 7, 17, 64, 150])
    base = near(rng, g.own, d)
    for j in range(8):
        g.emit("R,%s,%d,%d" % (hid(base ^ (j + 1)), g.ips[j % len(g.ips)], 1000 + j))
    g.emit("D")
    e = rng.choice([d + 3, d + 1, max(0, d - 1), 1, 158])
    g.emit("R,%s,%d,%d" % (hid(near(rng, g.own, min(e, 158))), g.ips[0], 2000))
    g.emit("D")
    g.emit("R,%s,%d,%d" % (hid(base ^ 0x55), g.ips[1], 2001))      # 9th member of the cluster: discarded
    return g.line(), g.stats


def dgram_absent_case(rng):
    """every key of every query kind individually absent ('~') and of the wrong bencode type ('!')"""
    g = Gen(rng, loop=True)
    a = g.ips[0]
    ih = hid(g.ihs[0])
    g.emit("R,%s,%d,%d" % (hid(near(rng, g.own, 3)), g.ips[1], 700))
    for kind in ("ping", "find_node", "get_peers", "announce_peer"):
        full = dict(t="6162", y="71", q=QN[kind], id=g.rid(), target="~", ih="~", token="~", port="~")
        if kind == "find_node":
            full["target"] = hid(g.new_id())
        if kind in ("get_peers", "announce_peer"):
            full["ih"] = ih
        if kind == "announce_peer":
            full["token"] = token(g.cur, a)
            full["port"] = "6881"
        g.emit(U(a, **full))
        for key in ("t", "y", "q", "id", "target", "ih", "token", "port"):
            if full[key] == "~":
                continue
            for bad in ("~", "!"):
                f = dict(full)
                f[key] = bad
                g.emit(U(a, **f))
                if kind == "announce_peer":
                    g.emit(U(g.ips[1], q=QN["get_peers"], id=g.rid(), ih=ih))
    g.emit("D")
    return g.line(), g.stats


def tx_case(rng):
    """transaction layer (ping transactions only; the table stays below 8 nodes and is never housekept
    while non-empty, so that the server starts no DhtSearch): a scripted node queries, is pinged,
    answers / answers wrongly / sends an error / stays silent"""
    g = Gen(rng, loop=True)
    hdr = g.head().split()
    fillc = (int(hdr[2]) + 7 * int(hdr[3])) & 0x7fffffff
    nodes = 0
    if rng.random() < 0.3:
        g.emit("H,%d" % rng.getrandbits(31))       # empty table: no search, m_networkUp reset
        g.prev, g.cur = g.cur, int(g.ops[-1].split(",")[1])
    for _ in range(rng.choice([2, 4, 7])):
        ip = rng.choice(g.ips)
        x = hid(g.new_id() or 5)
        rnd = rng.getrandbits(31)
        tid = rnd & 255
        how = rng.random()
        if how < 0.75:
            g.emit(U(ip, q=QN[rng.choice(["ping", "find_node", "get_peers"])], id=x, target=hid(g.new_id()), ih=hid(g.ihs[0]), rnd=rnd))
        else:
            g.emit("Q,%s,%d,%d" % (x, ip, rng.randrange(1, 1024)))
            tid = fillc & 255
            if rng.random() < 0.5:
                g.emit("X,%d,%s" % (ip, b"zz".hex()))      # flushes the queued ping
        g.emit("Z")
        r = rng.random()
        other = rng.choice([i for i in g.ips if i != ip])
        if r < 0.30:
            g.emit("Y,%d,%02x,%s" % (ip, tid, x)); nodes += 1
        elif r < 0.40:
            g.emit("Y,%d,%02x,%s" % (ip, tid, hid(g.new_id() or 7)))        # wrong id: ignored, transaction kept
            g.emit("Z")
            g.emit("Y,%d,%02x,%s" % (ip, tid, x)); nodes += 1
        elif r < 0.50:
            g.emit("Y,%d,%02x,%s" % (ip, (tid + rng.choice([1, 128, 255])) & 255, x))   # wrong transaction id
        elif r < 0.58:
            g.emit("Y,%d,%02x,%s" % (other, tid, x))                         # right id/tid from another address
        elif r < 0.66:
            g.emit("Y,%d,%s,%s" % (ip, rng.choice(["%02x%02x" % (tid, tid), "-", "~", "!", "61" * 21]), x))
        elif r < 0.72:
            g.emit("Y,%d,%02x,%s" % (ip, tid, rng.choice(["~", "!", x[:38], hid(g.own)])))
        elif r < 0.82:
            g.emit("E,%d,%s" % (ip, rng.choice(["%02x" % tid, "%02x" % ((tid + 1) & 255), "%02x%02x" % (tid, tid), "~"])))
        else:
            if rng.random() < 0.6:
                g.emit("R,%s,%d,%d" % (x, ip, rng.randrange(1, 1024))); nodes += 1   # the node becomes known by other means
            g.emit("T,%d" % rng.choice([29, 30, 31, 60]))
            g.emit("S")
        g.emit("Z")
        g.emit("D")
        if nodes >= 7:
            break
    if rng.random() < 0.5:
        g.emit("T,31")
        g.emit("S")
        g.emit("Z")
        g.emit("D")
    if rng.random() < 0.3:
        g.emit("H,%d" % rng.getrandbits(31))
        g.emit("Z")
        g.emit("Y,%d,00,%s" % (g.ips[0], hid(5)))
    return g.line(), g.stats


def boundary_case(rng):
    """ids on the case-split boundaries of table_inv: with the own bucket full of nodes that stay with
    the own id for a long time, reply with an id that is EXACTLY the midpoint of the bucket about to
    be split (last id of the lower half), midpoint + 1 (first id of the upper half), then midpoint
    - 1, both bucket bounds and own id +- 1 — for every split depth reached"""
    g = Gen(rng)
    own = g.own
    deep = [near(rng, own, rng.randrange(140, 158)) for _ in range(8)]
    for j, i in enumerate(deep):
        g.emit("R,%s,%d,%d" % (hid(i), g.ips[j % len(g.ips)], 3000 + j))
    depth = 0
    steps = 0
    while depth < 130 and steps < rng.choice([3, 8, 20]):
        steps += 1
        w = 160 - depth
        lo = (own >> w) << w if w < 160 else 0
        hi = lo | ((1 << w) - 1)
        mid = lo + (1 << (w - 1)) - 1
        x = rng.choice([mid, mid, mid + 1])
        if x == own or x == 0:
            x = mid if x != mid else mid + 1
        if x == own or x == 0:
            break
        g.emit("R,%s,%d,%d" % (hid(x), rng.choice(g.ips), 4000 + steps))
        g.emit("D")
        for y in rng.sample([mid - 1, mid, mid + 1, mid + 2, lo, hi, lo + 1, hi - 1, own - 1, own + 1], 3):
            if 0 < y <= MAXID and y != own:
                g.emit("R,%s,%d,%d" % (hid(y), rng.choice(g.ips), 5000 + steps))
        g.emit("W,%s" % hid(mid))
        g.emit("F,%s" % hid(rng.choice([mid, mid + 1, lo, hi])))
        g.emit("D")
        # the own bucket now ends where x and the own id part: one bit below their common prefix
        common = 160 - (x ^ own).bit_length()
        depth = max(depth + 1, common + 1)
        if rng.random() < 0.3:
            depth += 0
    return g.line(), g.stats


def deleted_node_case(rng, dgram):
    """a node is listed in a bucket's node cache (built by a query), then fails five queries while it
    has not been seen for 4 h and is deleted; the same query again, within the same 15 min period,
    must not return it.  Variants: the node lies in the bucket covering the target (its removal
    resets that bucket's cache) or in a neighbouring bucket whose nodes the target's bucket borrowed."""
    g = Gen(rng, loop=dgram)
    own = g.own
    borrowed = rng.random() < 0.5
    # nine nodes on the own side force a split at depth 0; the other half gets 1..3 nodes
    ownside = [near(rng, own, rng.randrange(2, 6)) for _ in range(9)]
    far = [near(rng, own, 0) for _ in range(rng.choice([1, 2, 3]))]
    ports = {}
    for j, i in enumerate(ownside + far):
        ip, port = g.ips[j % len(g.ips)], g.nport()
        ports[i] = (ip, port)
        g.emit("R,%s,%d,%d" % (hid(i), ip, port))
    for i in ownside[4:]:                   # thin the own side out again: the chain then has fewer than
        g.emit("V,%s" % hid(i))             # 8 nodes before it reaches the victim's bucket
    victim = rng.choice(far)
    # the query asks near the victim (its own bucket, which is not full and borrows from the chain) or,
    # for the borrowed variant, on the own side in a bucket with few nodes
    target = victim ^ 0xff if not borrowed else near(rng, own, 1)
    for _ in range(16):                     # 4 h of housekeeping: the victim is never heard of again
        g.emit("T,900")
        for i in ownside[:4]:
            g.emit("R,%s,%d,%d" % (hid(i), ports[i][0], ports[i][1]))
        g.old.append(g.prev)
        g.prev, g.cur = g.cur, rng.getrandbits(31)
        g.emit("H,%d" % g.cur)
    g.emit("T,%d" % rng.choice([1, 60, 600]))

    def ask():
        if dgram:
            g.emit(U(g.ips[0], q=QN["find_node"], id=hid(near(rng, own, 7)), target=hid(target)))
        else:
            g.emit("F,%s" % hid(target))
    g.emit("D")
    ask()
    for _ in range(rng.choice([5, 5, 4, 6])):
        g.emit("I,%s,%d,%d" % (hid(victim), ports[victim][0], ports[victim][1]))
    g.emit("D")
    ask()
    return g.line(), g.stats


def coverage_case(rng, n):
    """n > 32 peers announce; then get_peers is asked with every random() value 0..127: the union of
    the 32-peer windows must be the whole store"""
    g = Gen(rng)
    ih = g.ihs[0]
    for j in range(n):
        ip = (172 << 24) + (16 << 16) + j + 1
        g.emit("A,%s,%d,%d,%s" % (hid(ih), ip, 1024 + j, token(g.cur, ip)))
    order = list(range(128))
    rng.shuffle(order)
    for r in order:
        g.emit("P,%s,%d,%d" % (hid(ih), g.ips[0], r))
    return g.line(), g.stats


def search_case(rng):
    """dht::DhtSearch driven directly: offers (many near the target, duplicates, more than the 18 it
    keeps), hand-outs up to and beyond the concurrency limit, answers / failures, final trim"""
    target = rng.getrandbits(160)
    pool = [near(rng, target, rng.choice([0, 1, 2, 5, 20, 100, 158])) for _ in range(rng.choice([3, 10, 25, 40]))]
    pool += [target, target ^ 1]
    ops = []
    st = {}
    for _ in range(rng.choice([10, 40, 120])):
        r = rng.random()
        if r < 0.45:
            i = rng.choice(pool)
            ops.append("a,%s,%d,%d" % (hid(i), (10 << 24) + rng.getrandbits(16), rng.randrange(1, 65536)))
        elif r < 0.75:
            ops.append("g")
        elif r < 0.93:
            ops.append("s,%s,%d" % (rng.choice(["first", "last"]), rng.random() < 0.6))
        elif r < 0.96:
            ops.append("t")
        elif r < 0.99:
            ops.append("b")
        else:
            ops.append("s,%s,1" % hid(rng.choice(pool)))       # mostly not active: internal_error
    ops += ["b"] + ["g", "s,first,1"] * rng.choice([0, 5, 60]) + ["s,first,0"] * 4
    for o in ops:
        st[o[0]] = st.get(o[0], 0) + 1
    return "S %s %s" % (hid(target), " ".join(ops)), {("search-" + k): v for k, v in st.items()}


def many_peers_case(rng, n):
    g = Gen(rng)
    ih = g.ihs[0]
    for j in range(n):
        ip = (172 << 24) + (16 << 16) + j + 1
        if j % 40 == 0:
            g.emit("T,%d" % rng.choice([1, 60, 600]))
        g.emit("A,%s,%d,%d,%s" % (hid(ih), ip, 1024 + j, token(g.cur, ip)))
        if j in (31, 32, 33, 63, 64, 65, 127, 128, 129) or rng.random() < 0.03:
            g.emit("P,%s,%d,%d" % (hid(ih), g.ips[0], rng.getrandbits(31)))
    for _ in range(3):
        g.emit("P,%s,%d,%d" % (hid(ih), g.ips[0], rng.getrandbits(31)))
    g.emit("T,%d" % rng.choice([1799, 1800, 1801, 1200]))
    g.emit("H,%d" % rng.getrandbits(31))
    g.emit("P,%s,%d,%d" % (hid(ih), g.ips[0], rng.getrandbits(31)))
    return g.line(), g.stats


HAND = [
    # the counter drift witness of Proofs (good+bad node answering again)
    "N 8000000000000000000000000000000000000001 1 2 34560000 R,1100000000000000000000000000000000000001,167772161,1 "
    "I,1100000000000000000000000000000000000001,167772161,1 I,1100000000000000000000000000000000000001,167772161,1 "
    "I,1100000000000000000000000000000000000001,167772161,1 I,1100000000000000000000000000000000000001,167772161,1 "
    "I,1100000000000000000000000000000000000001,167772161,1 D H,3 D R,1100000000000000000000000000000000000001,167772161,1 D",
    # announce then get (port byte order)
    "N 8000000000000000000000000000000000000001 111 222 34560000 G,16909060 "
    "A,aa00000000000000000000000000000000000001,16909060,6881,%s P,aa00000000000000000000000000000000000001,16909061,0" % token(111, 16909060),
    # regression for /repo d3749d4: announce_peer ports outside 1..65535 were truncated to 16 bits (65537 -> 1)
    "N 8000000000000000000000000000000000000001 111 222 34560000 "
    + U(2130706434, q=QN["announce_peer"], id="1100000000000000000000000000000000000001", ih="aa" * 20, token=token(111, 2130706434), port="65537") + " "
    + U(2130706435, q=QN["get_peers"], id="1100000000000000000000000000000000000001", ih="aa" * 20) + " "
    + "A,%s,2130706434,70000,%s P,%s,2130706435,0" % ("ab" * 20, token(111, 2130706434), "ab" * 20),
    # own id queried / zero id
    "N 8000000000000000000000000000000000000001 1 2 34560000 R,8000000000000000000000000000000000000001,1,1 "
    "R,0000000000000000000000000000000000000000,1,1 Q,8000000000000000000000000000000000000001,1,1 W,0000000000000000000000000000000000000000 F,8000000000000000000000000000000000000001 D",
]


def exhaustive_cases():
    """every op sequence of length <= 4 over a 7-letter alphabet on a table pre-filled with 8 good
    nodes in the upper (own) half: 1 + 7 + 49 + 343 + 2401 = 2801 cases"""
    own = (1 << 159) + 1
    pre = ["R,%s,%d,%d" % (hid((1 << 159) + 16 + j), 167772161, 1) for j in range(8)]
    a = hid((1 << 159) + 5)
    b = hid(5)
    alpha = ["R,%s,167772161,1" % a, "R,%s,167772162,2" % b, "I,%s,167772161,1" % hid((1 << 159) + 16),
             "Q,%s,167772161,1" % hid((1 << 159) + 17), "T,900", "H,7", "V,%s" % hid((1 << 159) + 18)]
    out = []

    def rec(seq, n):
        out.append("N %s 1 2 %d %s D" % (hid(own), T0, " ".join(pre + seq)))
        if n == 0:
            return
        for x in alpha:
            rec(seq + [x], n - 1)
    rec([], 4)
    return out


def gen(seed, tier):
    rng = random.Random(seed)
    cases = []
    stats = {"ops": {}, "kinds": {}}

    def add(kind, cs):
        line, st = cs
        cases.append(line)
        stats["kinds"][kind] = stats["kinds"].get(kind, 0) + 1
        for k, v in st.items():
            stats["ops"][k] = stats["ops"].get(k, 0) + v

    cdir = os.path.join(os.path.dirname(os.path.dirname(os.path.abspath(__file__))), "corpus", "C15")
    if os.path.isdir(cdir):
        for f in sorted(os.listdir(cdir)):
            if f.endswith(".case"):
                for l in open(os.path.join(cdir, f)):
                    if l.strip() and not l.startswith("#"):
                        add("corpus", (l.strip(), {}))
    for h in HAND:
        add("hand", (h, {}))
    q = tier == "quick"
    for _ in range(70 if q else 1200):
        add("random", random_case(rng, rng.choice([10, 30, 60, 120]), rng.choice([0, 3, 8])))
    for _ in range(2 if q else 40):
        add("random-long", random_case(rng, 400, 25))
    for _ in range(10 if q else 150):
        add("deep-split", deep_split_case(rng, rng.choice([12, 40, 100, 159])))
    for _ in range(12 if q else 100):
        add("cluster", cluster_case(rng))
    for _ in range(16 if q else 150):
        add("boundary", boundary_case(rng))
    for _ in range(6 if q else 40):
        add("deleted-node", deleted_node_case(rng, False))
    for _ in range(4 if q else 30):
        add("dgram-deleted-node", deleted_node_case(rng, True))
    for n in ([65, 33, 100] if q else [33, 34, 63, 64, 65, 66, 67, 96, 97, 98, 100, 127, 128]):
        add("peer-coverage", coverage_case(rng, n))
    for _ in range(25 if q else 300):
        add("bad-node", bad_node_case(rng))
    for _ in range(20 if q else 200):
        add("token", token_case(rng))
    for _ in range(24 if q else 200):
        add("reannounce", reannounce_case(rng, False))
    for _ in range(16 if q else 120):
        add("dgram-reannounce", reannounce_case(rng, True))
    for n in ([40, 130] if q else [33, 40, 64, 65, 100, 128, 129, 130, 200]):
        add("many-peers", many_peers_case(rng, n))
    # datagram level
    for _ in range(45 if q else 500):
        add("dgram-random", random_case(rng, rng.choice([10, 30, 60]), rng.choice([0, 4, 8]), loop=True))
    for _ in range(18 if q else 200):
        add("dgram-flow", dgram_flow_case(rng))
    for _ in range(2 if q else 10):
        add("dgram-absent", dgram_absent_case(rng))
    for _ in range(30 if q else 400):
        add("tx", tx_case(rng))
    for _ in range(40 if q else 500):
        add("search", search_case(rng))
    for _ in range(2 if q else 10):
        add("dgram-ports", dgram_ports_case(rng))
    for n in ([40] if q else [33, 64, 130]):
        add("dgram-many-peers", dgram_many_peers_case(rng, n))
    if not q:
        for l in exhaustive_cases():
            add("exhaustive-len4", (l, {}))
    stats["cases"] = len(cases)
    return cases, stats
