"""C08 case generators (seeded) + python reference helpers for the oracle.

Case lines (see harness/c08.cc):
  T <u|o> <tree>   torrent object as a C07 value tree; u/o = flag_unordered of b["info"]
  B <hex>          bencoded bytes (top-level dictionary always ordered; only "info" may be unordered)
  U <hex>          magnet URI
Python trees as in gen/c07.py: int | bytes | list | ('M', [(key, value), ...])."""
import base64
import glob
import itertools
import os
import random

from gen import c07 as G7

I64MAX = 2**63 - 1
PL_MAX = 512 << 20


def M(d):
    return ("M", [(k.encode() if isinstance(k, str) else k, v) for k, v in d.items()])


def mget(t, k):
    k = k.encode() if isinstance(k, str) else k
    r = None
    for kk, v in t[1]:
        if kk == k:
            r = v
    return r


def mset(t, k, v):
    k = k.encode() if isinstance(k, str) else k
    ents = [(kk, vv) for kk, vv in t[1] if kk != k]
    ents.append((k, v))
    return ("M", ents)


def mdel(t, k):
    k = k.encode() if isinstance(k, str) else k
    return ("M", [(kk, vv) for kk, vv in t[1] if kk != k])


def is_map(t):
    return isinstance(t, tuple)


def wf_tree(t):
    """is t a well-formed python tree (a second mutation applied to an already mutated tree can
    produce junk such as a sliced tuple; such results are discarded)"""
    if isinstance(t, bool):
        return False
    if isinstance(t, int):
        return -2**63 <= t <= I64MAX
    if isinstance(t, bytes):
        return True
    if isinstance(t, list):
        return all(wf_tree(x) for x in t)
    return (isinstance(t, tuple) and len(t) == 2 and t[0] == "M" and isinstance(t[1], list) and
            all(isinstance(e, tuple) and len(e) == 2 and isinstance(e[0], bytes) and wf_tree(e[1]) for e in t[1]))


GOOD_COMPS = [b"a", b"b", b"c", b"dir", b"sub", b"file.txt", b"x y", b"...", b".a", b"a.", b"\xc3\xa9", b"\xff\xfe", b"-", b"~", b"a\\b", b"A"]
BAD_COMPS = [b"", b".", b"..", b"a/b", b"/", b"/etc", b"../x", b"a\x00", b"\x00", b"..\x00", b"a/", b"/a", b"a//b", b"./", b".."[:1] + b"/"]
WRONG_TYPES = [0, 7, -1, b"", b"str", [], [b"a"], ("M", []), ("M", [(b"k", 1)])]
PIECE_LENGTHS_OK = [1025, 2048, 16384, 32768, 1 << 20, PL_MAX]
PIECE_LENGTHS_EDGE = [0, 1, -1, 1023, 1024, 1025, 1026, PL_MAX - 1, PL_MAX, PL_MAX + 1, 2**31, 2**32, 2**32 + 2048, I64MAX, -2**63]


def ceil_div(a, b):
    return (a + b - 1) // b


def valid_torrent(rng, small=True):
    pl = rng.choice(PIECE_LENGTHS_OK if not small else PIECE_LENGTHS_OK[:4])
    name = rng.choice(GOOD_COMPS + [b"torrent", b"My Torrent"])
    info = {"name": name, "piece length": pl}
    sizes_pool = [0, 1, 2, pl - 1, pl, pl + 1, 2 * pl, 3 * pl + 7, 1000]
    if rng.random() < 0.6:
        n = rng.choice([1, 1, 2, 2, 3, 4, 6])
        files, used = [], set()
        for i in range(n):
            depth = rng.choice([1, 1, 2, 2, 3])
            while True:
                comps = [rng.choice(GOOD_COMPS) for _ in range(depth - 1)] + [rng.choice(GOOD_COMPS) + (b"%d" % i)]
                if tuple(comps) not in used:
                    used.add(tuple(comps))
                    break
            f = {"length": rng.choice(sizes_pool), "path": list(comps)}
            if rng.random() < 0.15:
                f["attr"] = rng.choice([b"p", b"x", b"hp", b""])
            files.append(M(f))
        total = sum(mget(f, "length") for f in files)
        if total == 0:
            files[0] = mset(files[0], "length", 5)
            total = 5
        info["files"] = files
    else:
        total = rng.choice([s for s in sizes_pool if s > 0])
        info["length"] = total
    info["pieces"] = bytes([rng.randrange(256)]) * (20 * ceil_div(total, pl))
    if rng.random() < 0.2:
        info["private"] = rng.choice([0, 1, 1, 2])
    top = {"info": M(info)}
    r = rng.random()
    if r < 0.4:
        top["announce"] = b"http://tracker.example/announce"
    elif r < 0.6:
        top["announce-list"] = [[b"http://a/announce", b"udp://b:1/announce"], [b" http://c/announce "]]
        top["announce"] = b"http://a/announce"
    if rng.random() < 0.2:
        top["creation date"] = rng.choice([0, 1700000000, -1])
    return M(top)


def info_total_pl(t):
    info = mget(t, "info")
    pl = mget(info, "piece length")
    if mget(info, "files") is not None:
        total = sum(mget(f, "length") for f in mget(info, "files"))
    else:
        total = mget(info, "length")
    return info, total, pl


def wrap64_lengths(rng):
    target = rng.choice([2**63, 2**63 + 1, 2**64 - 2, 2**64 - 1, 2**64, 2**64 + 1, 2**64 + 20000, 2**64 + 2048, 2**64 + 4097, 2**64 + 2**20])
    n = 2 if target <= 2 * I64MAX and rng.random() < 0.6 else 3
    if n == 2:
        a = rng.choice([I64MAX, I64MAX - 1, target // 2, 2**62 + 5])
        a = max(target - I64MAX, min(a, I64MAX))
        lens = [a, target - a]
    else:
        a = rng.choice([I64MAX, I64MAX - 7, 2**62])
        b = min(I64MAX, target - a - rng.choice([0, 1, 20002 if target - a - 20002 > 0 else 0]))
        b = max(b, target - a - I64MAX)
        lens = [a, b, target - a - b]
    if any(x < 0 or x > I64MAX for x in lens):
        lens = [I64MAX, I64MAX, target - 2 * I64MAX] if target >= 2 * I64MAX else [I64MAX, target - I64MAX]
    rng.shuffle(lens)
    return lens, target


def wrap64_torrent(rng, lens=None, target=None, pl=None):
    if lens is None:
        lens, target = wrap64_lengths(rng)
    pl = pl or rng.choice([1025, 2048, 16384, 1 << 20, PL_MAX])
    wrapped = target % 2**64
    # the piece count a wrapping loader computes: ((wrapped + pl - 1) mod 2^64) / pl, if it fits
    cnt = ((wrapped + pl - 1) % 2**64) // pl
    pieces = b"\x44" * (20 * cnt) if cnt <= 300 else (rng.choice([b"", b"\x44" * 20]) if rng else b"")
    files = [M({"length": l, "path": [b"w%d" % i]}) for i, l in enumerate(lens)]
    return M({"info": M({"name": b"wrap", "piece length": pl, "pieces": pieces, "files": files})}), wrapped


# ---------------------------------------------------------------- mutations

def mutate(rng, t, stats):
    """one structural mutation of a valid torrent; returns (tree, unordered flag)"""
    info = mget(t, "info")
    files = mget(info, "files")
    kinds = ["wrong_type_info_key", "missing_info_key", "wrong_type_top", "length_edge", "piece_length_edge", "piece_length_wrap", "sum_wrap64",
             "pieces_len", "name_bad", "unordered", "dup_key", "meta_flag", "huge_wrap", "announce_bad"]
    if files is not None:
        kinds += ["path_bad", "path_bad", "path_dup", "path_prefix", "path_prefix_sibling", "path_prefix_sibling", "file_wrong_type", "file_missing", "sum_overflow", "files_shape", "both_length_files"]
    kind = rng.choice(kinds)
    stats["mut:" + kind] = stats.get("mut:" + kind, 0) + 1
    unordered = False

    def put_info(i):
        return mset(t, "info", i)

    if kind == "wrong_type_info_key":
        k = rng.choice([kk for kk, _ in info[1]] + [b"private", b"meta_download"])
        return put_info(mset(info, k, rng.choice(WRONG_TYPES))), False
    if kind == "missing_info_key":
        k = rng.choice([kk for kk, _ in info[1]])
        return put_info(mdel(info, k)), False
    if kind == "wrong_type_top":
        k = rng.choice([b"info", b"announce", b"announce-list", b"creation date", b"magnet-uri"])
        if rng.random() < 0.15:
            return rng.choice(WRONG_TYPES), False
        return mset(t, k, rng.choice(WRONG_TYPES + [[[b"http://x/a"], 5], [[5]], [b"notalist", [b"http://x/a"]]])), False
    if kind == "length_edge":
        v = rng.choice([0, -1, 1, I64MAX, I64MAX - 1, -2**63, 2**32, 2**31])
        if files is not None:
            i = rng.randrange(len(files))
            fs = list(files)
            fs[i] = mset(fs[i], "length", v)
            return put_info(mset(info, "files", fs)), False
        return put_info(mset(info, "length", v)), False
    if kind == "piece_length_edge":
        return put_info(mset(info, "piece length", rng.choice(PIECE_LENGTHS_EDGE))), False
    if kind == "sum_wrap64":
        # multi-file lengths (each a valid int64) whose TRUE sum is 2^63 .. 2^64+k, with 'pieces'
        # sized for the total WRAPPED modulo 2^64 (what a loader summing in uint64 would see)
        out_t, _ = wrap64_torrent(rng)
        return out_t, False
    if kind == "piece_length_wrap":
        # a declared piece length that is n modulo 2^32 for an acceptable n, with 'pieces' sized for
        # the geometry of n: a loader that range-checks a TRUNCATED value accepts it
        n = rng.choice([1025, 2048, 16384, 1 << 20, PL_MAX])
        declared = rng.choice([n + 2**32, n + 2 * 2**32, n + 5 * 2**32, n - 2**32, n - 3 * 2**32, n + 2**63 - 2**32 if n + 2**63 - 2**32 <= I64MAX else n + 2**32])
        _, total, _ = info_total_pl(t)
        i2 = mset(mset(info, "piece length", declared), "pieces", bytes([rng.randrange(256)]) * (20 * min(ceil_div(max(total, 1), n), 300)))
        return put_info(i2), False
    if kind == "pieces_len":
        p = mget(info, "pieces")
        if not isinstance(p, bytes):
            raise TypeError("pieces already mutated")
        d = rng.choice([-20, -1, 1, 19, 20, 21, 40, -len(p)])
        q = p + b"\x55" * d if d > 0 else p[:max(0, len(p) + d)]
        return put_info(mset(info, "pieces", q)), False
    if kind == "name_bad":
        return put_info(mset(info, "name", rng.choice(BAD_COMPS))), False
    if kind == "unordered":
        return t, True
    if kind == "dup_key":
        k, v = rng.choice(info[1])
        ents = list(info[1])
        ents.insert(rng.randrange(len(ents) + 1), (k, rng.choice(WRONG_TYPES + [v])))
        return put_info(("M", ents)), False
    if kind == "meta_flag":
        i2 = mset(info, "meta_download", rng.choice([1, 0, 2, -1]))
        r = rng.random()
        if r < 0.4:
            i2 = mdel(mdel(i2, "length"), "files")
        if r < 0.7:
            i2 = mset(i2, "pieces", b"\x77" * rng.choice([20, 20, 19, 21, 0, 40]))
        return put_info(i2), False
    if kind == "huge_wrap":
        # C08-a territory: total around k * 2^32 * piece_length
        pl = rng.choice([1025, 2048, 1 << 20, PL_MAX])
        k = rng.choice([1, 1, 2, 3])
        total = k * 2**32 * pl + rng.choice([-pl, -1, 0, 1, pl, pl + 1, 5 * pl])
        total = min(total, I64MAX)
        want = ceil_div(total, pl) % 2**32
        npieces = rng.choice([want, want, want + 1, max(0, want - 1), 0])
        i2 = mset(mdel(mdel(info, "files"), "length"), "piece length", pl)
        if rng.random() < 0.5:
            i2 = mset(i2, "length", total)
        else:
            a = rng.randrange(0, total + 1)
            i2 = mset(i2, "files", [M({"length": a, "path": [b"p0"]}), M({"length": total - a, "path": [b"p1"]})])
        i2 = mset(i2, "pieces", b"\x33" * (20 * min(npieces, 300)))
        return put_info(i2), False
    if kind == "announce_bad":
        v = rng.choice([5, [], [[]], [[5]], [5], [b"x"], [[b"http://x/a"], b"y"], ("M", []), b"", b"ftp://x", [[b"http://x/a", ("M", [])]]])
        k = rng.choice([b"announce", b"announce-list"])
        return mset(t, k, v), False
    # multi-file only
    fs = list(files)
    i = rng.randrange(len(fs))
    if kind == "path_bad":
        if not isinstance(mget(fs[i], "path"), list):
            raise TypeError("path already mutated")
        p = list(mget(fs[i], "path"))
        bad = rng.choice(BAD_COMPS + [5, [], ("M", [])])
        r = rng.random()
        if r < 0.6:
            p[rng.randrange(len(p))] = bad
        elif r < 0.8:
            p.insert(rng.randrange(len(p) + 1), bad)
        else:
            p = rng.choice([[], [bad], [b"..", b"..", b"x"], [b"a", b"..", b"..", b"..", b"etc", b"passwd"]])
        fs[i] = mset(fs[i], "path", p)
    elif kind == "path_dup":
        j = rng.randrange(len(fs))
        fs.insert(rng.randrange(len(fs) + 1), mset(fs[j], "length", rng.choice([0, 1, 5])))
    elif kind == "path_prefix":
        if not isinstance(mget(fs[i], "path"), list):
            raise TypeError("path already mutated")
        p = list(mget(fs[i], "path"))
        r = rng.random()
        if r < 0.5:
            q = p + [rng.choice(GOOD_COMPS)]
        elif r < 0.8 and len(p) > 1:
            q = p[:-1]
        else:
            q = p[:1] + [rng.choice(GOOD_COMPS), rng.choice(GOOD_COMPS)]
        fs.insert(rng.randrange(len(fs) + 1), M({"length": rng.choice([0, 3]), "path": q}))
    elif kind == "path_prefix_sibling":
        # a file P, a file below it P/x, and a SIBLING whose name is P followed by a byte below '/'
        # (0x2f): in any order that compares '/'-joined strings instead of component lists the
        # sibling sorts between the colliding pair. The pair is kept non-adjacent in file order
        # (adjacent ones are also caught by verify_file_list).
        if not isinstance(mget(fs[i], "path"), list) or not mget(fs[i], "path"):
            raise TypeError("path already mutated")
        p = list(mget(fs[i], "path"))
        sib_suffix = rng.choice([b"-b", b" b", b".txt", b"!", b"+1", b"-", b" ", b".", b"\x01", b"#", b",", b"-b/"[:2]])
        sib = p[:-1] + [p[-1] + sib_suffix]
        below = p + [rng.choice(GOOD_COMPS)] + ([rng.choice(GOOD_COMPS)] if rng.random() < 0.3 else [])
        extra = [M({"length": rng.choice([0, 1, 7]), "path": sib}), M({"length": rng.choice([0, 1, 7]), "path": below})]
        if rng.random() < 0.3:
            extra.append(M({"length": 1, "path": p[:-1] + [p[-1] + rng.choice([b"0", b"a", b"~"])]}))   # a sibling sorting AFTER
        order = rng.choice(["after", "around", "front", "shuffle"])
        if order == "after":
            fs = fs[:i + 1] + extra + fs[i + 1:]
        elif order == "around":
            fs = fs[:i] + [extra[1]] + fs[i + 1:] + [extra[0], fs[i]] + extra[2:]
        elif order == "front":
            fs = [extra[1], extra[0]] + fs + extra[2:]
        else:
            fs = fs + extra
            rng.shuffle(fs)
    elif kind == "file_wrong_type":
        if rng.random() < 0.3:
            fs[i] = rng.choice(WRONG_TYPES)
        else:
            fs[i] = mset(fs[i], rng.choice(["length", "path", "attr"]), rng.choice(WRONG_TYPES))
    elif kind == "file_missing":
        fs[i] = mdel(fs[i], rng.choice(["length", "path"]))
    elif kind == "sum_overflow":
        a = rng.choice([I64MAX, I64MAX - 1, 2**62, 2**62 + 1])
        b = rng.choice([I64MAX - a, I64MAX - a + 1, 1, 0, 2**62])
        fs = [M({"length": a, "path": [b"o0"]}), M({"length": b, "path": [b"o1"]})] + fs[:1]
    elif kind == "files_shape":
        return put_info(mset(info, "files", rng.choice([[], 5, b"", ("M", []), [[]], [5]]))), False
    elif kind == "both_length_files":
        return put_info(mset(info, "length", rng.choice([5, 0, -1, b"x"]))), False
    return put_info(mset(info, "files", fs)), False


# ---------------------------------------------------------------- magnet URIs

B32 = "ABCDEFGHIJKLMNOPQRSTUVWXYZ234567"


def b32(h, rng):
    s = base64.b32encode(h).decode()
    r = rng.random()
    if r < 0.3:
        s = s.lower()
    elif r < 0.5:
        s = "".join(c.lower() if rng.random() < 0.5 else c for c in s)
    return s.encode()


def pct(bs, rng, every=False):
    out = b""
    for c in bs:
        if every or rng.random() < 0.5 or c in b"%&=":
            out += (b"%%%02x" if rng.random() < 0.5 else b"%%%02X") % c
        else:
            out += bytes([c])
    return out


def xt_value(rng, stats):
    h = bytes(rng.randrange(256) for _ in range(20))
    if rng.random() < 0.2:
        h = rng.choice([b"\x00" * 20, b"\xff" * 20, b"&" * 20, b"%" * 20, b"A" * 20, b"2" * 20])
    kind = rng.choice(["b32", "b32", "b32_len", "b32_badchar", "hex", "hex", "hex_len", "hex_bad", "raw", "raw", "raw_len", "bad_escape", "no_urn", "hexlike_b32", "empty"])
    stats["xt:" + kind] = stats.get("xt:" + kind, 0) + 1
    urn = b"urn:btih:"
    if kind == "b32":
        return urn + b32(h, rng)
    if kind == "b32_len":
        s = b32(h, rng)
        d = rng.choice([-1, 1, 2, 8, -8, -31])
        return urn + (s + bytes(rng.choice(B32.encode()) for _ in range(d)) if d > 0 else s[:d])
    if kind == "b32_badchar":
        s = bytearray(b32(h, rng))
        s[rng.randrange(32)] = rng.choice(b"0189=%+/ \x00\xff@[`{")
        return urn + bytes(s)
    if kind == "hex":
        s = h.hex()
        return urn + (s.upper() if rng.random() < 0.4 else s).encode()
    if kind == "hex_len":
        s = h.hex().encode()
        d = rng.choice([-1, 1, 2, -2])
        return urn + (s + b"a" * d if d > 0 else s[:d])
    if kind == "hex_bad":
        s = bytearray(h.hex().encode())
        s[rng.randrange(40)] = rng.choice(b"gGxz :@`/")
        return urn + bytes(s)
    if kind == "raw":
        return urn + pct(h, rng, every=rng.random() < 0.5)
    if kind == "raw_len":
        hh = h[:rng.choice([0, 1, 19])] if rng.random() < 0.5 else h + b"z" * rng.choice([1, 2, 19, 21])
        return urn + pct(hh, rng, every=True)
    if kind == "bad_escape":
        s = pct(h[:19], rng, every=True)
        return urn + s + rng.choice([b"%", b"%4", b"%G0", b"%0G", b"%%41", b"% 1", b"%\x0041", b"%4&", b"%-1"])
    if kind == "no_urn":
        return rng.choice([b"", b"urn:btih", b"urn:sha1:", b"URN:BTIH:", b"urn:btih", b"u"]) + b32(h, rng)
    if kind == "hexlike_b32":
        # 40 hex digits that are all base32 characters, and 32-character hex-only prefixes
        return urn + bytes(rng.choice(b"abcdef234567ABCDEF") for _ in range(rng.choice([40, 32, 33, 39])))
    return urn


FOREIGN_TOPICS = [b"urn:btmh:1220" + b"ab" * 32, b"urn:sha1:" + b"A" * 32, b"urn:ed2k:" + b"0" * 32, b"urn:bt", b"urn:btih", b"",
                  b"urn:tree:tiger:" + b"Z" * 39, b"urn:btmh:%41%", b"URN:BTIH:" + b"A" * 32]


def magnet_uri(rng, stats):
    prefix = b"magnet:?" if rng.random() < 0.9 else rng.choice([b"magnet:", b"Magnet:?", b"", b"magnet:?" [:rng.randrange(8)], b"magnet:?&", b"http://x/?"])
    parts = []
    n = rng.choice([1, 1, 2, 2, 3, 4])
    for _ in range(n):
        r = rng.random()
        if r < 0.08:
            # an xt topic from another namespace (hybrid v2 links carry urn:btmh:): the property
            # leaves open whether the link is rejected or the topic skipped
            stats["xt:foreign_topic"] = stats.get("xt:foreign_topic", 0) + 1
            parts.append(b"xt=" + rng.choice(FOREIGN_TOPICS))
        elif r < 0.55:
            parts.append(b"xt=" + xt_value(rng, stats))
        elif r < 0.8:
            url = rng.choice([b"http://tracker.example:80/announce", b"udp://t:1", b"", b"x", b"http://a/b?c=d&e"])
            parts.append(b"tr=" + (pct(url, rng) if rng.random() < 0.8 else url + rng.choice([b"%", b"%2", b"%zz"])))
        elif r < 0.9:
            parts.append(rng.choice([b"dn=", b"x="]) + pct(bytes(rng.randrange(256) for _ in range(rng.randrange(6))), rng))
        else:
            parts.append(rng.choice([b"", b"xt", b"=", b"=&", b"xt=", b"tr", b"XT=urn:btih:" + b"A" * 32, b"xt=urn:btih:" + b"A" * 32 + b"&", b"xt=urn:btih:" + b"a" * 31 + b"b="]))
    rng.shuffle(parts)
    return prefix + b"&".join(parts)


def ref_magnet_hash(uri):
    """Independent reference: what hash should a magnet URI denote (last valid xt), or None when
    no xt parameter carries a well-formed base32 / hex / url-encoded 20-byte hash. Only used by
    the oracle for ACCEPTED inputs: the accepted hash must be one a reasonable reading yields."""
    if not uri.startswith(b"magnet:?"):
        return set()
    out = set()
    for part in uri[8:].split(b"&"):
        if not part.startswith(b"xt=urn:btih:"):
            continue
        v = part[12:]
        try:
            if len(v) == 32:
                out.add(base64.b32decode(v.decode("ascii").upper()))
        except Exception:
            pass
        # url decoding
        dec, i, ok = b"", 0, True
        while i < len(v):
            if v[i:i + 1] == b"%":
                try:
                    dec += bytes([int(v[i + 1:i + 3].decode("ascii"), 16)])
                    if len(v[i + 1:i + 3]) != 2:
                        ok = False
                except Exception:
                    ok = False
                    break
                i += 3
            else:
                dec += v[i:i + 1]
                i += 1
        if ok and len(dec) == 20:
            out.add(dec)
        if ok and len(dec) == 40:
            try:
                out.add(bytes.fromhex(dec.decode("ascii")))
            except Exception:
                pass
    return out


# ---------------------------------------------------------------- bencoded cases

def enc_raw(t, shuffle_info=None):
    """bencode WITHOUT normalising: keys in the given order (so that unordered / duplicate keys
    reach the decoder). Top-level keys are sorted; inside 'info' the order is as given."""
    if isinstance(t, int):
        return b"i%de" % t
    if isinstance(t, bytes):
        return b"%d:" % len(t) + t
    if isinstance(t, list):
        return b"l" + b"".join(enc_raw(x) for x in t) + b"e"
    return b"d" + b"".join(enc_raw(k) + enc_raw(v) for k, v in t[1]) + b"e"


def _swap_adjacent(rng, m):
    ents = list(m[1])
    if len(ents) < 2:
        return None
    i = rng.randrange(len(ents) - 1)
    ents[i], ents[i + 1] = ents[i + 1], ents[i]
    return ("M", ents)


UNORDERED_DICT = ("M", [(b"b", 1), (b"a", 2)])


def bencoded_case(rng, t, stats):
    """bencode with the key order under control. Every dictionary is first sorted; then ONE (or
    two) dictionaries are disturbed: inside info (its own keys, a duplicate key, a file entry, a
    nested extra dictionary) => the real decoder flags info unordered => rejected; outside info
    (top-level keys, an extra top-level dictionary or list of dictionaries) => info stays
    ordered => must still load."""
    if not is_map(t):
        return G7.ref_encode(G7.normalize(t))
    top = G7.normalize(t)
    info = mget(top, "info")
    if not is_map(info):
        return G7.ref_encode(top)
    kinds = ["ordered", "ordered", "unordered_info", "dup_info_key", "unordered_top", "unordered_outside_dict",
             "unordered_outside_list", "unordered_nested_in_info", "unordered_in_and_out", "empty_key_first"]
    files = mget(info, "files")
    if isinstance(files, list) and files and all(is_map(f) for f in files):
        kinds += ["unordered_file_entry", "unordered_file_entry"]
    kind = rng.choice(kinds)

    def outside(tp):
        r = rng.random()
        if r < 0.4:
            return mset(tp, b"zextra", UNORDERED_DICT)
        if r < 0.7:
            return mset(tp, b"zextra", [1, [UNORDERED_DICT], b"x"])
        sw = _swap_adjacent(rng, G7.normalize(mset(tp, b"zz", 1)))
        return sw

    if kind == "unordered_info":
        sw = _swap_adjacent(rng, info)
        if sw is None:
            kind = "ordered"
        else:
            top = mset_keep(top, b"info", sw)
    elif kind == "dup_info_key":
        ents = list(info[1])
        if not ents:
            kind = "ordered"
        else:
            k, v = rng.choice(ents)
            ents.insert(rng.randrange(len(ents) + 1), (k, v))
            top = mset_keep(top, b"info", ("M", ents))
    elif kind == "unordered_top":
        top = _swap_adjacent(rng, G7.normalize(mset(top, b"zz", 1)))
    elif kind == "unordered_outside_dict":
        top = G7.normalize(mset(top, b"zextra", 0))
        top = mset_keep(top, b"zextra", UNORDERED_DICT)
    elif kind == "unordered_outside_list":
        top = G7.normalize(mset(top, b"zextra", 0))
        top = mset_keep(top, b"zextra", [1, [UNORDERED_DICT], b"x"])
    elif kind == "unordered_nested_in_info":
        i2 = G7.normalize(mset(info, b"zextra", 0))
        i2 = mset_keep(i2, b"zextra", rng.choice([UNORDERED_DICT, [[UNORDERED_DICT]], ("M", [(b"k", UNORDERED_DICT)])]))
        top = mset_keep(top, b"info", i2)
    elif kind == "unordered_file_entry":
        fs = list(files)
        i = rng.randrange(len(fs))
        sw = _swap_adjacent(rng, fs[i])
        if sw is None:
            kind = "ordered"
        else:
            fs[i] = sw
            top = mset_keep(top, b"info", mset_keep(info, b"files", fs))
    elif kind == "unordered_in_and_out":
        sw = _swap_adjacent(rng, info)
        if sw is not None:
            top = mset_keep(top, b"info", sw)
        top2 = G7.normalize(mset(top, b"zextra", 0))
        top = mset_keep(mset_keep(top2, b"info", mget(top, "info")), b"zextra", UNORDERED_DICT)
    elif kind == "empty_key_first":
        # a first key of length zero does not count as unordered; a second one does
        where = rng.choice(["top1", "top2", "info1", "info2"])
        n = 1 if where.endswith("1") else 2
        if where.startswith("top"):
            top = ("M", [(b"", 7)] * n + list(top[1]))
        else:
            top = mset_keep(top, b"info", ("M", [(b"", 7)] * n + list(info[1])))
        kind = "empty_key_" + where
    stats["benc:" + kind] = stats.get("benc:" + kind, 0) + 1
    return enc_raw(top)


def ref_info_unordered(data):
    """Independent reference for B cases: is the (last) top-level "info" dictionary unordered
    anywhere inside (own keys not strictly increasing after the first, or any dictionary nested in
    it)? None if data is not a bencoded dictionary with an info dictionary."""
    pos = 0

    def val():
        nonlocal pos
        c = data[pos:pos + 1]
        if c == b"i":
            e = data.index(b"e", pos)
            pos = e + 1
            return ("i", False)
        if c == b"l":
            pos += 1
            fl = False
            while data[pos:pos + 1] != b"e":
                _, f = val()
                fl = fl or f
            pos += 1
            return ("l", fl)
        if c == b"d":
            pos += 1
            fl, prev, n, infof = False, b"", 0, None
            while data[pos:pos + 1] != b"e":
                k = string()
                if n > 0 and k <= prev:
                    fl = True
                kind, f = val()
                fl = fl or f
                if k == b"info":
                    infof = f if kind == "d" else None
                prev, n = k, n + 1
            pos += 1
            return ("d", fl) if infof is None else ("d", fl, infof)
        return ("s", False) if string() is not None else None

    def string():
        nonlocal pos
        c = data.index(b":", pos)
        n = int(data[pos:c])
        pos = c + 1 + n
        return data[c + 1:c + 1 + n]

    try:
        if data[:1] != b"d":
            return None
        r = val()
        return r[2] if len(r) == 3 else None
    except Exception:
        return None


def mset_keep(t, k, v):
    """replace the value of key k in place (keeps the key order)"""
    return ("M", [(kk, (v if kk == k else vv)) for kk, vv in t[1]])


# ---------------------------------------------------------------- hand list + exhaustive scope

def hand_cases():
    out = []

    def single(length, pl, pieces, name=b"x", **kw):
        d = {"name": name, "piece length": pl, "pieces": pieces, "length": length}
        d.update(kw)
        return M({"info": M(d)})

    def multi(files, pl=2048, name=b"t", pieces=None):
        total = sum(f[0] for f in files if isinstance(f[0], int))
        if pieces is None:
            pieces = b"\x11" * (20 * min(ceil_div(max(total, 0), pl), 300))
        return M({"info": M({"name": name, "piece length": pl, "pieces": pieces,
                             "files": [M({"length": l, "path": p}) for l, p in files]})})

    T = lambda t, u=False: "T %s %s" % ("u" if u else "o", G7.tree_line(t))
    out.append(T(single(100, 2048, b"\x11" * 20)))
    out.append(T(single(100, 2048, b"\x11" * 20), True))
    out.append(T(single(0, 2048, b"")))
    out.append(T(single(-1, 2048, b"")))
    out.append(T(single(2048, 2048, b"\x11" * 20)))
    out.append(T(single(2049, 2048, b"\x11" * 20)))
    out.append(T(single(2049, 2048, b"\x11" * 40)))
    # C08-a: uint32 truncation of the piece count
    out.append(T(single(2**32 * 2048, 2048, b"")))
    out.append(T(single(2**32 * 2048 + 1, 2048, b"\x11" * 20)))
    out.append(T(single(I64MAX, PL_MAX, b"")))
    out.append(T(single(I64MAX, 1025, b"\x11" * 20 * 200)))
    # C08-b: surplus / ragged hashes
    out.append(T(single(100, 2048, b"\x11" * 60)))
    out.append(T(single(100, 2048, b"\x11" * 21)))
    out.append(T(single(100, 2048, b"\x11" * 19)))
    for pl in PIECE_LENGTHS_EDGE:
        out.append(T(single(5000, pl, b"\x11" * 100)))
    for nm in BAD_COMPS + GOOD_COMPS:
        out.append(T(single(10, 2048, b"\x11" * 20, name=nm)))
        out.append(T(multi([(10, [b"f"])], name=nm)))
    for c in BAD_COMPS:
        out.append(T(multi([(10, [c])])))
        out.append(T(multi([(10, [b"a", c])])))
        out.append(T(multi([(10, [c, b"a"])])))
        out.append(T(multi([(5, [b"ok"]), (5, [b"d", c, b"e"])])))
    out.append(T(multi([(1, [b"a"]), (1, [b"a"])])))
    out.append(T(multi([(1, [b"a"]), (1, [b"a", b"b"])])))
    out.append(T(multi([(1, [b"a", b"b"]), (1, [b"a"])])))
    out.append(T(multi([(1, [b"a", b"b"]), (1, [b"z"]), (1, [b"a"])])))
    out.append(T(multi([(1, [b"a", b"b"]), (1, [b"a-"]), (1, [b"a"])])))       # 'a-' sorts between as strings
    out.append(T(multi([(1, [b"a", b"b"]), (1, [b"a", b"b", b"c"])])))
    # file/directory collision with a sibling that sorts between them as '/'-joined strings
    for sib in [b"a-b", b"a b", b"a.txt", b"a!", b"a+1", b"a-", b"a.", b"a\x01"]:
        out.append(T(multi([(1, [b"a"]), (1, [sib]), (1, [b"a", b"c"])])))
        out.append(T(multi([(1, [b"a", b"c"]), (1, [sib]), (1, [b"a"])])))
        out.append(T(multi([(1, [b"d", b"a"]), (1, [b"z"]), (1, [b"d", sib]), (1, [b"d", b"a", b"c", b"e"])])))
        out.append(T(multi([(1, [b"a"]), (1, [sib]), (1, [b"a0"])])))          # no collision: must load
    # hostile names of MULTI-file torrents (root directory = <root>/<name>)
    for nm in [b"../escaped", b"..", b".", b"", b"a/b", b"/abs", b"a\x00b", b"../../x", b"x/../../y"]:
        out.append(T(multi([(1, [b"a"]), (2, [b"b", b"c"])], name=nm)))
    # multi-file length vectors whose true sum wraps 64 bits, 'pieces' sized for the WRAPPED total
    for lens, pl in [([I64MAX, I64MAX, 20002], 16384), ([I64MAX, I64MAX], 2048), ([I64MAX, I64MAX], PL_MAX), ([I64MAX, 1], 2048),
                     ([2**62, 2**62, 2**62, 2**62], 2048), ([I64MAX, I64MAX, 2], 1025), ([I64MAX, I64MAX, 3], 2048),
                     ([I64MAX, I64MAX, 2 + 2048], 2048), ([I64MAX, 2**62, 2**62 + 4097 + 1], 2048), ([I64MAX, I64MAX, 1], 2048),
                     ([I64MAX, 2**63 - 2**40, 2**40 + 1 + 5000], 32768), ([1, I64MAX], 2048), ([I64MAX, 0, I64MAX, 0, 2 + 100], 2048)]:
        tt, _ = wrap64_torrent(None, lens=list(lens), target=sum(lens), pl=pl)
        out.append(T(tt))
    # declared piece length congruent to an acceptable one modulo 2^32 (e.g. 4294983680 = 2^32 + 16384,
    # -4294934528 = 32768 - 2^32), 'pieces' sized for the truncated geometry
    for n in (1025, 16384, 32768, PL_MAX):
        for declared in (n + 2**32, n - 2**32, n + 7 * 2**32, n - 2 * 2**32):
            out.append(T(single(5000, declared, b"\x11" * (20 * ceil_div(5000, n)))))
            out.append(T(multi([(3000, [b"a"]), (2000, [b"b"])], pl=declared, pieces=b"\x11" * (20 * ceil_div(5000, n)))))
    # piece-count boundary: ceil = 2^32 but floor = 2^32 - 1
    for pl in (2048, 1025, PL_MAX):
        for total in ((2**32 - 1) * pl + 1, 2**32 * pl - 1, 2**32 * pl - pl + 1, (2**32 - 1) * pl):
            if total <= I64MAX:
                out.append(T(single(total, pl, b"")))
                out.append(T(multi([(total - 5, [b"a"]), (5, [b"b"])], pl=pl, pieces=b"")))
    out.append(T(multi([(1, [b"a", b"b"]), (1, [b"a", b"c"]), (1, [b"b"])])))
    out.append(T(multi([(0, [b"a"]), (0, [b"b"])])))
    out.append(T(multi([(0, [b"a"]), (1, [b"b"])])))
    out.append(T(multi([(I64MAX, [b"a"]), (1, [b"b"])])))
    out.append(T(multi([(I64MAX, [b"a"]), (0, [b"b"])], pieces=b"")))
    out.append(T(multi([(2**62, [b"a"]), (2**62, [b"b"])], pieces=b"")))
    out.append(T(multi([(2**62, [b"a"]), (2**62 - 1, [b"b"])], pl=PL_MAX, pieces=b"")))
    out.append(T(multi([(2**32 * 2048 - 5, [b"a"]), (5, [b"b"])], pieces=b"")))
    out.append(T(multi([(-1, [b"a"])])))
    out.append(T(multi([])))
    out.append(T(M({"info": M({"name": b"m", "pieces": b"\x01" * 20, "meta_download": 1})})))
    out.append(T(M({"info": M({"name": b"../m", "pieces": b"\x01" * 20, "meta_download": 1})})))
    out.append(T(M({"info": M({"name": b"m", "pieces": b"\x01" * 20, "meta_download": 1, "length": 5})})))
    out.append(T(M({"info": M({"name": b"m", "pieces": b"\x01" * 21, "meta_download": 1})})))
    out.append(T(M({"info": M({"name": b"m", "pieces": b"\x01" * 20, "meta_download": 0, "piece length": 2048, "length": 1})})))
    out.append(T(M({"magnet-uri": b"magnet:?xt=urn:btih:" + b"A" * 32, "info": 5, "announce": 5, "announce-list": 7})))
    out.append(T(M({"magnet-uri": b"magnet:?xt=urn:btih:" + b"A" * 32 + b"&tr=http%3a%2f%2fx", "info": 5, "announce": 5, "announce-list": [[5]]})))
    out.append(T(M({"magnet-uri": b"magnet:?xt=urn:btih:" + b"A" * 32 + b"&tr=http%3a%2f%2fx", "announce": b"", "announce-list": b""})))
    out.append(T(M({"magnet-uri": 5})))
    out.append(T(M({})))
    out.append(T(5))
    for u in [b"magnet:?xt=urn:btih:" + b"A" * 32, b"magnet:?xt=urn:btih:" + b"a" * 31 + b"b", b"magnet:?xt=urn:btih:" + b"7" * 32,
              b"magnet:?xt=urn:btih:" + b"A" * 33, b"magnet:?xt=urn:btih:" + b"A" * 31, b"magnet:?xt=urn:btih:" + b"A" * 34,
              b"magnet:?xt=urn:btih:" + b"0123456789abcdef0123456789ABCDEF01234567", b"magnet:?xt=urn:btih:" + b"ab" * 20,
              b"magnet:?xt=urn:btih:" + b"%41" * 20, b"magnet:?xt=urn:btih:" + b"B" * 20, b"magnet:?xt=urn:btih:" + b"%26" * 20,
              b"magnet:?xt=urn:btih:" + b"A" * 32 + b"&xt=urn:btih:" + b"B" * 10 + b"!", b"magnet:?xt=urn:btih:" + b"B" * 10 + b"!&xt=urn:btih:" + b"A" * 32,
              b"magnet:?xt=urn:btih:" + b"A" * 32 + b"&tr=http%3A%2F%2Fx%2Fannounce&tr=udp://y", b"magnet:?", b"magnet:", b"", b"magnet:?xt", b"magnet:?xt=",
              b"magnet:?xt=urn:btih:", b"magnet:?xt=urn:btih:&", b"magnet:?tr=x", b"magnet:?xt=urn:btih:" + b"A" * 32 + b"&", b"magnet:?xt=urn:btih:" + b"A" * 32 + b"&&",
              b"magnet:?&xt=urn:btih:" + b"A" * 32, b"magnet:?xt=urn:btih:" + b"A" * 19 + b"%", b"magnet:?xt=urn:btih:" + b"A" * 19 + b"%4", b"magnet:?xt=urn:btih:" + b"A" * 19 + b"%4g",
              b"magnet:?xt=urn:btih:" + b"\x00" * 20, b"magnet:?xt=urn:btih:" + b"\xff" * 20,
              # dn / tr with every escape class, before and after the hash
              b"magnet:?dn=%00&xt=urn:btih:" + b"B" * 32, b"magnet:?dn=..%2F..%2Fetc%2Fpasswd&xt=urn:btih:" + b"B" * 32,
              b"magnet:?xt=urn:btih:" + b"B" * 32 + b"&dn=%2e%2e%2f&tr=%00&tr=%2F&tr=http%3A%2F%2Ft%2Fa%26b%3Dc",
              b"magnet:?xt=urn:btih:" + b"B" * 32 + b"&tr=%", b"magnet:?xt=urn:btih:" + b"B" * 32 + b"&tr=%4",
              b"magnet:?xt=urn:btih:" + b"B" * 32 + b"&dn=%zz", b"magnet:?xt=urn:btih:" + b"B" * 32 + b"&dn=%4%41",
              b"magnet:?xt=urn:btih:" + b"B" * 32 + b"&dn", b"magnet:?xt=urn:btih:" + b"B" * 32 + b"&=x&==&x==y",
              # several xt: base32 then hex then raw; the last valid one wins; a later broken one poisons
              b"magnet:?xt=urn:btih:" + b"B" * 32 + b"&xt=urn:btih:" + b"cd" * 20 + b"&xt=urn:btih:" + b"%45" * 20,
              b"magnet:?xt=urn:btih:" + b"%45" * 20 + b"&xt=urn:btih:" + b"B" * 32,
              b"magnet:?xt=urn:btih:" + b"B" * 32 + b"&xt=urn:btih:" + b"cd" * 19 + b"c",
              b"magnet:?xt=urn:btih:" + b"B" * 32 + b"&xt=urn:btih:" + b"B" * 20 + b"%2",
              b"magnet:?xt=urn:btih:" + b"B" * 32 + b"&xt=urn:sha1:" + b"B" * 32,
              # foreign xt topics next to a valid info hash, before / after / alone, with a broken escape
              b"magnet:?xt=urn:btih:" + b"B" * 32 + b"&xt=urn:btmh:1220" + b"ab" * 32,
              b"magnet:?xt=urn:btmh:1220" + b"ab" * 32 + b"&xt=urn:btih:" + b"B" * 32,
              b"magnet:?xt=urn:sha1:" + b"A" * 32, b"magnet:?xt=urn:btmh:1220" + b"ab" * 32,
              b"magnet:?xt=urn:btih:" + b"B" * 32 + b"&xt=urn:sha1:%4", b"magnet:?xt=urn:btih:" + b"B" * 32 + b"&xt=",
              b"magnet:?xt=urn:btih:" + b"B" * 32 + b"&xt=urn:btih", b"magnet:?xt=urn:sha1:x&xt=urn:btih:" + b"cd" * 20 + b"&tr=udp://t:1",
              # '%' right after the urn, escapes that decode to hex digits (%61%62.. x20 = 40 hex chars? no: 20 bytes)
              b"magnet:?xt=urn:btih:" + b"%61%62" * 10, b"magnet:?xt=urn:btih:" + b"%61%62" * 20,
              b"magnet:?xt=urn:btih:" + b"ab" * 19 + b"a%62", b"magnet:?xt=urn:btih:" + b"%00" * 19 + b"%01"]:
        out.append("U " + G7.hx(u))
    return out


UTF8_SAMPLES = [
    b"\xc3\xa9", b"e\xcc\x81",                       # e-acute precomposed / combining (distinct byte strings)
    b"\xe2\x82\xac", b"\xf0\x9f\x98\x80", b"\xef\xbb\xbfbom",   # 3- and 4-byte sequences, BOM
    b"\xc0\x80", b"\xc0\xaf", b"\xe0\x80\xaf", b"\xc0\xae\xc0\xae",   # overlong NUL, overlong '/', overlong '..'
    b"\xed\xa0\x80", b"\xf4\x90\x80\x80",          # surrogate, beyond U+10FFFF
    b"\xe2\x82", b"\x80", b"\xbf\xbf", b"\xfe", b"\xff", b"\xf8\x88\x80\x80\x80",   # truncated / stray continuation / invalid lead
    b"\xe2\x80\xae" + b"txt.exe", b"\xe2\x81\x84", b"\xef\xbc\x8f", b"\xe2\x88\x95",   # RLO, fraction slash, fullwidth solidus, division slash
    b"\xef\xbc\x8e\xef\xbc\x8e", b"\xe2\x80\xa4\xe2\x80\xa4",   # fullwidth / one-dot-leader look-alikes of '..'
    b"a\\..\\b", b"..\\x", b"C:", b"con", b"a\rb", b"a\nb", b"a\tb", b" ", b"  ", b"-rf", b"~", b"$HOME", b"`id`", b"%2e%2e", b"%2f",
]


def byte_sweep(tier):
    """every byte value 0x01..0xff (0x00 is in BAD_COMPS) as a whole path component, as the
    torrent name of a multi-file and of a single-file torrent; in the thorough tier also inside
    a component and as a directory; plus UTF-8 valid / invalid / look-alike sequences. The
    constructor reads no 'name.utf-8' / 'path.utf-8' keys (they are ignored like any other key):
    a few cases carry them with hostile values to pin that down."""
    out = []

    def multi(name, paths, extra=None):
        d = {"name": name, "piece length": 2048, "pieces": b"\x11" * 20,
             "files": [M({"length": 1 if i == 0 else 0, "path": list(p)}) for i, p in enumerate(paths)]}
        if extra:
            d.update(extra)
        return "T o " + G7.tree_line(M({"info": M(d)}))

    def single(name, extra=None):
        d = {"name": name, "piece length": 2048, "pieces": b"\x11" * 20, "length": 5}
        if extra:
            d.update(extra)
        return "T o " + G7.tree_line(M({"info": M(d)}))

    for v in range(1, 256):
        c = bytes([v])
        out.append(multi(b"t", [[c], [b"d", c]]))
        out.append(multi(c, [[b"f"]]))
        out.append(single(c))
        if tier != "quick":
            out.append(multi(b"t", [[b"x" + c + b"y"], [c + b"dir", b"f"], [b"z", c + c]]))
            out.append(multi(b"n" + c, [[b"f" + c]]))
            out.append(single(c + b"."))
            out.append(single(b"." + c))
    for u in UTF8_SAMPLES:
        out.append(multi(b"t", [[u], [b"d", u, b"f"]]))
        out.append(multi(u, [[b"f"]]))
        out.append(single(u))
    # both normalisation forms together: distinct byte strings, both must exist afterwards
    out.append(multi(b"t", [[b"\xc3\xa9"], [b"e\xcc\x81"], [b"E"], [b"e"]]))
    # *.utf-8 keys are not read
    out.append(multi(b"t", [[b"a"]], {"name.utf-8": b"../../evil"}))
    out.append(single(b"t", {"name.utf-8": b"/etc/passwd"}))
    out.append("T o " + G7.tree_line(M({"info": M({"name": b"t", "name.utf-8": 5, "piece length": 2048, "pieces": b"\x11" * 20,
                                                    "files": [M({"length": 1, "path": [b"a"], "path.utf-8": [b"..", b"..", b"evil"]})]})})))
    return out


def exhaustive_paths():
    """every 'files' list of 1..2 entries whose paths have 1..2 components over a 7-letter
    alphabet of good and hostile components"""
    alpha = [b"a", b"b", b".", b"..", b"", b"a/b", b"a\x00"]
    paths = [[x] for x in alpha] + [[x, y] for x in alpha for y in alpha]
    out = []
    for p in paths:
        out.append([p])
    for p in paths:
        for q in paths:
            out.append([p, q])
    cases = []
    for fl in out:
        info = M({"name": b"t", "piece length": 2048, "pieces": b"\x11" * 20,
                  "files": [M({"length": 1, "path": list(p)}) for p in fl]})
        cases.append("T o " + G7.tree_line(M({"info": info})))
    return cases


def gen(seed, tier):
    rng = random.Random(seed * 7919 + 8)
    stats = {}
    cases = []
    corpus = sorted(glob.glob(os.path.join(os.path.dirname(os.path.dirname(os.path.abspath(__file__))), "corpus", "C08", "*.case")))
    for f in corpus:
        for l in open(f):
            l = l.rstrip("\n")
            if l and not l.startswith("#"):
                cases.append(l)
    stats["corpus"] = len(cases)
    h = hand_cases()
    cases += h
    stats["hand"] = len(h)
    n_valid, n_mut, n_mag, n_benc = (400, 2500, 2500, 500) if tier == "quick" else (3000, 30000, 30000, 6000)
    for _ in range(n_valid):
        cases.append("T o " + G7.tree_line(valid_torrent(rng, small=rng.random() < 0.8)))
    stats["valid"] = n_valid
    for _ in range(n_mut):
        t = valid_torrent(rng)
        u = False
        for _ in range(rng.choice([1, 1, 1, 2])):
            if not (is_map(t) and is_map(mget(t, "info") if mget(t, "info") is not None else 0)):
                break
            try:
                t2, u2 = mutate(rng, t, stats)
            except (IndexError, TypeError, AttributeError, ValueError):
                break       # a second mutation that does not apply to the already mutated tree
            if not wf_tree(t2):
                break
            t = t2
            u = u or u2
        cases.append("T %s %s" % ("u" if u else "o", G7.tree_line(t)))
    stats["mutated"] = n_mut
    for _ in range(n_mag):
        cases.append("U " + G7.hx(magnet_uri(rng, stats)))
    stats["magnet"] = n_mag
    for _ in range(n_benc):
        t = valid_torrent(rng)
        if rng.random() < 0.5 and is_map(mget(t, "info")):
            t2, _ = mutate(rng, t, stats)
            if wf_tree(t2):
                t = t2
            if not is_map(t):
                t = M({"info": t})
        cases.append("B " + G7.hx(bencoded_case(rng, t, stats)))
    stats["bencoded"] = n_benc
    bs = byte_sweep(tier)
    cases += bs
    stats["byte_sweep"] = len(bs)
    ex = exhaustive_paths()
    if tier == "quick":
        ex = [c for i, c in enumerate(ex) if i % 4 == seed % 4 or i < 56]
    cases += ex
    stats["exhaustive_paths"] = len(ex)
    # dedupe, keep order
    seen, out = set(), []
    for c in cases:
        if c not in seen:
            seen.add(c)
            out.append(c)
    stats["total_distinct"] = len(out)
    return out, stats
