"""C15 constants, re-read on every run (see gen/params.py).

ROBUSTNESS rule 3: the values come from the COMPILED code — a tiny probe program that prints the
constexpr members is compiled against the tree under test (LTV_REPO) — so a refactor of how a constant
is written (type, initialiser expression, moved declaration) does not break params_ok_now.  The anchored
regexes are kept only as a fallback / cross-check for the case that the probe cannot be built."""
import os
import re
import subprocess
import tempfile

_PROBE = {
    "dht_bucket_num_nodes": ("dht/dht_bucket.h", "torrent::DhtBucket::num_nodes"),
    "dht_max_failed_replies": ("dht/dht_node.h", "torrent::DhtNode::max_failed_replies"),
    "dht_size_token": ("dht/dht_router.h", "torrent::DhtRouter::size_token"),
    "dht_timeout_update": ("dht/dht_router.h", "torrent::DhtRouter::timeout_update"),
    "dht_timeout_remove_node": ("dht/dht_router.h", "torrent::DhtRouter::timeout_remove_node"),
    "dht_timeout_peer_announce": ("dht/dht_router.h", "torrent::DhtRouter::timeout_peer_announce"),
    "dht_tracker_max_peers": ("dht/dht_tracker.h", "torrent::DhtTracker::max_peers"),
    "dht_tracker_max_size": ("dht/dht_tracker.h", "torrent::DhtTracker::max_size"),
    "dht_hash_string_size": ("torrent/hash_string.h", "torrent::HashString::size_data"),
}
_cache = {}


def _compile_run(repo, names):
    src = ['#include "config.h"', "#include <cstdio>"]
    for h in sorted({_PROBE[n][0] for n in names}):
        src.append('#include "%s"' % h)
    src.append("int main() {")
    for n in names:
        src.append('  printf("%s=%%llu\\n", (unsigned long long)%s);' % (n, _PROBE[n][1]))
    src.append("  return 0; }")
    with tempfile.TemporaryDirectory(prefix="ltv-c15-probe-") as d:
        cc = os.path.join(d, "p.cc")
        open(cc, "w").write("\n".join(src))
        r = subprocess.run(["g++", "-std=c++20", "-DHAVE_CONFIG_H", "-DLT_VERIF", "-I" + repo, "-I" + repo + "/src",
                            "-I" + repo + "/src/torrent", "-fno-access-control", "-O0", cc, "-o", os.path.join(d, "p")],
                           stdout=subprocess.PIPE, stderr=subprocess.STDOUT, timeout=120)
        if r.returncode != 0:
            return None
        o = subprocess.run([os.path.join(d, "p")], stdout=subprocess.PIPE, timeout=20).stdout.decode()
    return {k: int(v) for k, v in (l.split("=") for l in o.split("\n") if "=" in l)}


def _disk_key(repo):
    import hashlib
    h = hashlib.sha1(repr(sorted(_PROBE.items())).encode())
    h.update(_BEHAVIOUR_SRC.encode())
    for rel in sorted({"src/" + v[0] for v in _PROBE.values()} | {"config.h", "src/dht/dht_bucket.cc"}):
        try:
            h.update(open(os.path.join(repo, rel), "rb").read())
        except OSError:
            h.update(b"?")
    return os.path.join(os.path.dirname(os.path.dirname(os.path.abspath(__file__))), "build", "params-c15-%s.json" % h.hexdigest()[:16])


def _probe():
    repo = os.environ.get("LTV_REPO", "/repo")
    if repo not in _cache:
        import json
        key = _disk_key(repo)      # the probe result only depends on these headers: keep it across runs
        try:
            _cache[repo] = json.load(open(key))
            return _cache[repo]
        except (OSError, ValueError):
            pass
        try:
            vals = _compile_run(repo, list(_PROBE))
            beh = _behaviour(repo)
            if vals is None:        # one member renamed/removed: salvage the others one by one
                vals = {}
                for n in _PROBE:
                    v = _compile_run(repo, [n])
                    if v:
                        vals.update(v)
            vals.update(beh)
        except Exception:
            vals = {}
        _cache[repo] = vals
        if len(vals) == len(_PROBE) + 1:
            try:
                os.makedirs(os.path.dirname(key), exist_ok=True)
                json.dump(vals, open(key + ".%d.tmp" % os.getpid(), "w"))
                os.replace(key + ".%d.tmp" % os.getpid(), key)
            except OSError:
                pass
    return _cache[repo]


_BEHAVIOUR_SRC = r'''
#include "config.h"
#include <cstdio>
#include <chrono>
#include "dht/dht_bucket.cc"
namespace torrent::this_thread { std::chrono::seconds cached_seconds() { return std::chrono::seconds(1000); } }
int main() {
  // does a node turning bad in one bucket empty the reply cache of the OTHER buckets of the chain?
  torrent::HashString a, b;
  a.clear(); b.clear(0xff);
  torrent::DhtBucket p(a, b), c(a, b);
  p.m_child = &c; c.m_parent = &p;
  p.m_fullCacheLength = 5; c.m_fullCacheLength = 5;
  c.node_now_bad(false);
  printf("dht_cache_chain_invalidate=%d\n", p.m_fullCacheLength == 0 && c.m_fullCacheLength == 0 ? 1 : 0);
  return 0;
}
'''


def _behaviour(repo):
    """behavioural probe (ROBUSTNESS rule 3: 'fix present' flags are decided by running the code):
    dht_bucket.cc is compiled into a tiny program; symbols it never reaches stay unresolved"""
    with tempfile.TemporaryDirectory(prefix="ltv-c15-probe-") as d:
        cc = os.path.join(d, "q.cc")
        open(cc, "w").write(_BEHAVIOUR_SRC)
        r = subprocess.run(["g++", "-std=c++20", "-DHAVE_CONFIG_H", "-DLT_VERIF", "-I" + repo, "-I" + repo + "/src",
                            "-I" + repo + "/src/torrent", "-fno-access-control", "-O0", "-no-pie", cc, "-o", os.path.join(d, "q"),
                            "-Wl,--unresolved-symbols=ignore-all"], stdout=subprocess.PIPE, stderr=subprocess.STDOUT, timeout=120)
        if r.returncode != 0:
            return {}
        o = subprocess.run([os.path.join(d, "q")], stdout=subprocess.PIPE, timeout=20).stdout.decode()
    return {k: int(v) for k, v in (l.split("=") for l in o.split("\n") if "=" in l)}


def _prod(s):
    s = s.strip()
    if not re.fullmatch(r"\d+(\s*\*\s*\d+)*", s):
        raise ValueError(s)
    v = 1
    for t in s.split("*"):
        v *= int(t)
    return v


def _entry(name, rel, rx):
    """value from the compiled probe; the regex on the source text is only the fallback"""
    def conv(m):
        v = _probe().get(name)
        if v is not None:
            return v
        mm = re.search(rx, m.string, flags=re.S)
        if not mm:
            raise ValueError(name)
        return _prod(mm.group(1))
    return (name, rel, r"", "N", conv)


def _active_age(m):
    # DhtNode::update(): m_recently_active = age() < 15 * 60;  (an expression inside an inline function,
    # not a named constant; cannot be probed without running the node code)
    for rx in (r"m_recently_active = age\(\) < ([\d \*]+);", r"age\(\)\s*<\s*([\d \*]+)\s*;"):
        mm = re.search(rx, m.string)
        if mm:
            return _prod(mm.group(1))
    raise ValueError("dht_node_active_age")


def _chain_inval(m):
    v = _probe().get("dht_cache_chain_invalidate")
    if v is not None:
        return v
    return 1 if "invalidate_caches" in m.string else 0      # fallback only: source text


ENTRIES = [
    ("dht_cache_chain_invalidate", "src/dht/dht_bucket.cc", r"", "N", _chain_inval),
    _entry("dht_bucket_num_nodes", "src/dht/dht_bucket.h", r"num_nodes\s*=\s*([\d \*]+);"),
    _entry("dht_max_failed_replies", "src/dht/dht_node.h", r"max_failed_replies\s*=\s*([\d \*]+);"),
    ("dht_node_active_age", "src/dht/dht_node.h", r"", "N", _active_age),
    _entry("dht_size_token", "src/dht/dht_router.h", r"size_token\s*=\s*([\d \*]+);"),
    _entry("dht_timeout_update", "src/dht/dht_router.h", r"timeout_update\s*=\s*([\d \*]+);"),
    _entry("dht_timeout_remove_node", "src/dht/dht_router.h", r"timeout_remove_node\s*=\s*([\d \*]+);"),
    _entry("dht_timeout_peer_announce", "src/dht/dht_router.h", r"timeout_peer_announce\s*=\s*([\d \*]+);"),
    _entry("dht_tracker_max_peers", "src/dht/dht_tracker.h", r"max_peers\s*=\s*([\d \*]+);"),
    _entry("dht_tracker_max_size", "src/dht/dht_tracker.h", r"max_size\s*=\s*([\d \*]+);"),
    _entry("dht_hash_string_size", "src/torrent/hash_string.h", r"size_data\s*=\s*([\d \*]+);"),
]
