"""C15 constants re-extracted from /repo on every run (see gen/params.py)."""
import re


def _prod(m):
    """'4 * 60 * 60' -> 14400 (only products of decimal literals are accepted)."""
    s = m.group(1).strip()
    if not re.fullmatch(r"\d+(\s*\*\s*\d+)*", s):
        raise ValueError(s)
    v = 1
    for t in s.split("*"):
        v *= int(t)
    return v


ENTRIES = [
    ("dht_bucket_num_nodes", "src/dht/dht_bucket.h", r"static constexpr unsigned int num_nodes = (\d+);", "N"),
    ("dht_max_failed_replies", "src/dht/dht_node.h", r"static constexpr unsigned int max_failed_replies = (\d+);", "N"),
    ("dht_node_active_age", "src/dht/dht_node.h", r"m_recently_active = age\(\) < ([\d \*]+);", "N", _prod),
    ("dht_size_token", "src/dht/dht_router.h", r"static constexpr unsigned int size_token = (\d+);", "N"),
    ("dht_timeout_update", "src/dht/dht_router.h", r"timeout_update\s*=\s*([\d \*]+);", "N", _prod),
    ("dht_timeout_remove_node", "src/dht/dht_router.h", r"timeout_remove_node\s*=\s*([\d \*]+);", "N", _prod),
    ("dht_timeout_peer_announce", "src/dht/dht_router.h", r"timeout_peer_announce\s*=\s*([\d \*]+);", "N", _prod),
    ("dht_tracker_max_peers", "src/dht/dht_tracker.h", r"static constexpr unsigned int max_peers = (\d+);", "N"),
    ("dht_tracker_max_size", "src/dht/dht_tracker.h", r"static constexpr unsigned int max_size = (\d+);", "N"),
    ("dht_hash_string_size", "src/torrent/hash_string.h", r"size_data\s*=\s*(\d+)", "N"),
]
