"""C08 constants re-extracted from /repo on every run (see gen/params.py)."""
ENTRIES = [
    ("c08_piece_length_min", "src/download/download_constructor.cc",
     r"if \(piece_length <= \((\d+ << \d+)\)", "N"),
    ("c08_piece_length_max", "src/download/download_constructor.cc",
     r"\|\| piece_length > \((\d+ << \d+)\)\)", "N"),
    ("c08_hash_size", "src/torrent/hash_string.h", r"size_data\s*=\s*(\d+)", "N"),
]
