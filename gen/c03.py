"""C03 generators: hostile peer streams for the read side of PeerConnection<type>.

EXACT cases (model-compared): grammar-generated sessions (mostly valid messages with HAVE markers so
that a framing slip shows in the digest) + one single-field mutation + truncations + raw random bytes,
each delivered under >= 4 segmentations (whole, byte-wise, recv-chunk k, message boundaries +-1,
random cuts).  FREE cases (safety only): reactive PIECE answers to the library's own requests.
Every random choice comes from random.Random(seed)."""
import glob
import os
import random
import re
import struct

NP = 8
PLEN = 16384
LAST = 5000
ROLES = ["leech", "leechdone", "seed", "iseed", "meta"]


def be32(v):
    return struct.pack(">I", v & 0xFFFFFFFF)


def msg(mid, body=b""):
    return be32(1 + len(body)) + bytes([mid]) + body


def piece_size(i):
    return LAST if i == NP - 1 else PLEN


class M:
    """one generated message: raw bytes + a tag (for statistics)"""
    def __init__(self, raw, tag, ext=False, extclose=False):
        self.raw, self.tag, self.ext, self.extclose = raw, tag, ext, extclose


def gen_ext(rng, state):
    kind = rng.random()
    if kind < 0.25:
        pay = b"d1:md11:ut_metadatai%de6:ut_pexi%dee1:pi%de4:reqqi%dee" % (rng.randrange(0, 5), rng.randrange(0, 3), rng.randrange(0, 70000), rng.randrange(0, 3000))
        return M(msg(20, b"\x00" + pay), "ext-hs", True)
    if kind < 0.33:
        pay = b"d13:metadata_sizei%dee" % rng.choice([1, 12345, 1 << 27])
        return M(msg(20, b"\x00" + pay), "ext-hs-badsize", True, True)
    if kind < 0.45 and not state.get("mdreq"):
        state["mdreq"] = True
        pay = b"d8:msg_typei0e5:piecei%dee" % rng.choice([0, 1, 7, -1, 1 << 40])
        return M(msg(20, b"\x02" + pay), "ext-mdreq", True)
    if kind < 0.55:
        pay = b"d8:msg_typei%de5:piecei%dee" % (rng.choice([1, 2, 3]), rng.randrange(0, 4)) + bytes(rng.randrange(256) for _ in range(rng.randrange(0, 40)))
        return M(msg(20, b"\x02" + pay), "ext-mddata", True)
    if kind < 0.65:
        pay = b"d5:added%d:" % 12 + bytes(rng.randrange(256) for _ in range(12)) + b"e"
        return M(msg(20, b"\x01" + pay), "ext-pex", True)
    n = rng.choice([0, 1, 2, 7, 30, 200, 600])
    pay = bytes(rng.choice(b"dlie0123456789:-xyz\x00\xff") for _ in range(n))
    return M(msg(20, bytes([rng.randrange(0, 3)]) + pay), "ext-garbage", True)


def gen_valid(rng, role, state):
    r = rng.random()
    if r < 0.06:
        return M(be32(0), "ka")
    if r < 0.12:
        return M(msg(0), "choke")
    if r < 0.18:
        return M(msg(1), "unchoke")
    if r < 0.28:
        return M(msg(2), "interested")
    if r < 0.34:
        return M(msg(3), "notinterested")
    if r < 0.52:
        return M(msg(4, be32(rng.randrange(NP))), "have")
    if r < 0.72:
        i = rng.randrange(NP)
        ln = rng.choice([1, 1000, 16384, piece_size(i), 1 << 14])
        off = rng.choice([0, 0, 1024, max(0, piece_size(i) - ln)])
        return M(msg(6, be32(i) + be32(off) + be32(ln)), "request")
    if r < 0.78:
        i = rng.randrange(NP)
        return M(msg(8, be32(i) + be32(rng.choice([0, 1024])) + be32(rng.choice([1000, 16384]))), "cancel")
    if r < 0.82:
        return M(msg(9, struct.pack(">H", rng.randrange(65536))), "port")
    if r < 0.90 and role == "meta":
        n = rng.choice([0, 1, 2, 7, 100, 506, 507, 508, 600])
        return M(msg(5, bytes(rng.randrange(256) for _ in range(n))), "bitfield")
    if r < 0.90 and role == "leech":
        n = rng.choice([0, 1, 50, 300, 499, 600, 3000])
        return M(msg(7, be32(rng.randrange(NP)) + be32(rng.choice([0, 16384 - n if n else 0])) + bytes(rng.randrange(256) for _ in range(n))), "piece-unrequested")
    return gen_ext(rng, state)


MUTATIONS = ["len+1", "len-1", "len0", "len2^20", "len2^20+1", "len2^31", "lenmax", "id10-19", "id21+", "id5",
             "have=np", "have=max", "req-len-2^17", "req-len-2^17+1", "req-len-0", "req-index-np", "req-off-big",
             "piece", "piece-short", "piece-zero", "piece-len8", "ext-2^15", "ext-2^15+1", "ext-type3", "ext-type255",
             "ext-len1", "ext-len2", "truncate", "none", "none"]


def mutate(rng, role, msgs, which):
    """returns (msgs', tag). Single-field mutation at / insertion after a random position."""
    k = rng.randrange(len(msgs)) if msgs else 0
    if which.startswith("len") or which.startswith("id"):
        # the close verdict of an extension message is derived from its generated content: keep those intact
        ok = [i for i, m in enumerate(msgs) if not (m.ext and (m.extclose or role == "meta" or m.tag in ("ext-hs", "ext-mdreq")))]
        if not ok:
            return msgs, "none"
        k = rng.choice(ok)

    def repl_len(v):
        m = msgs[k]
        msgs[k] = M(be32(v) + m.raw[4:], m.tag + "|" + which, m.ext, m.extclose)

    if which in ("none",) or not msgs:
        return msgs, "none"
    cur = struct.unpack(">I", msgs[k].raw[:4])[0]
    if which == "len+1": repl_len(cur + 1)
    elif which == "len-1": repl_len(cur - 1)
    elif which == "len0": repl_len(0)
    elif which == "len2^20": repl_len(1 << 20)
    elif which == "len2^20+1": repl_len((1 << 20) + 1)
    elif which == "len2^31": repl_len(1 << 31)
    elif which == "lenmax": repl_len(0xFFFFFFFF)
    elif which in ("id10-19", "id21+", "id5"):
        m = msgs[k]
        if len(m.raw) >= 5:
            nid = rng.randrange(10, 20) if which == "id10-19" else (rng.randrange(21, 256) if which == "id21+" else 5)
            msgs[k] = M(m.raw[:4] + bytes([nid]) + m.raw[5:], m.tag + "|" + which, False, False)
    else:
        ins = None
        if which == "have=np": ins = M(msg(4, be32(NP)), which)
        elif which == "have=max": ins = M(msg(4, be32(0xFFFFFFFF)), which)
        elif which == "req-len-2^17": ins = M(msg(6, be32(0) + be32(0) + be32(1 << 17)), which)
        elif which == "req-len-2^17+1": ins = M(msg(6, be32(0) + be32(0) + be32((1 << 17) + 1)), which)
        elif which == "req-len-0": ins = M(msg(6, be32(1) + be32(0) + be32(0)), which)
        elif which == "req-index-np": ins = M(msg(6, be32(NP) + be32(0) + be32(1000)), which)
        elif which == "req-off-big": ins = M(msg(6, be32(1) + be32(0xFFFFFFF0) + be32(1000)), which)
        elif which == "piece": ins = M(msg(7, be32(1) + be32(0) + bytes(100)), which)
        elif which == "piece-short": ins = M(be32(rng.randrange(1, 9)) + bytes([7]) + bytes(8), which)
        elif which == "piece-zero": ins = M(msg(7, be32(2) + be32(0)), which)
        elif which == "piece-len8": ins = M(be32(8) + bytes([7]) + bytes(7), which)
        elif which == "ext-2^15": ins = M(msg(20, bytes([rng.randrange(3)]) + bytes(rng.randrange(256) for _ in range(1 << 15))), which, True)
        elif which == "ext-2^15+1": ins = M(be32((1 << 15) + 3) + bytes([20, 1]) + bytes(20), which)
        # (ext=True: where the implementation's policy accepts unknown types the message completes and counts)
        elif which == "ext-type3": ins = M(msg(20, b"\x03" + b"de"), which, True)
        elif which == "ext-type255": ins = M(msg(20, b"\xff" + b"de"), which, True)
        elif which == "ext-len1": ins = M(be32(1) + bytes([20]), which)
        elif which == "ext-len2": ins = M(be32(2) + bytes([20, rng.randrange(3)]), which, True)
        elif which == "truncate":
            raw = b"".join(m.raw for m in msgs)
            cut = rng.randrange(len(raw) + 1)
            # keep the complete messages (with their extension verdict flags), then the cut-off piece
            kept, pos = [], 0
            for m in msgs:
                if pos + len(m.raw) <= cut:
                    kept.append(m)
                    pos += len(m.raw)
                else:
                    break
            if pos < cut:
                kept.append(M(raw[pos:cut], "truncated"))
            return kept, which
        if ins is not None:
            msgs.insert(k + 1, ins)
    return msgs, which


def segmentations(rng, n, bounds):
    """>= 4 partitions of n bytes: whole, byte-wise (or fine random cuts when long), recv chunk caps, message
    boundaries +-1, random cuts."""
    def fmt(cap, lens):
        return "k%d:%s" % (cap, ",".join(str(x) for x in lens))

    def from_cuts(cuts):
        cuts = sorted(set(c for c in cuts if 0 < c < n))
        pts = [0] + cuts + [n]
        return [pts[i + 1] - pts[i] for i in range(len(pts) - 1)]
    out = [fmt(0, [n] if n else [])]
    if n == 0:
        return out
    if n <= 400:
        out.append(fmt(0, [1] * n))
    else:
        out.append(fmt(0, from_cuts([rng.randrange(1, max(2, n)) for _ in range(200)])))
    out.append(fmt(rng.choice([1, 2, 3, 5, 12, 13, 17, 100]) if n <= 3000 else rng.choice([13, 100, 511]), [n]))
    out.append(fmt(0, from_cuts([b + d for b in bounds for d in (-1, 1)])))
    out.append(fmt(rng.choice([0, 0, 4, 16]), from_cuts([rng.randrange(1, max(2, n)) for _ in range(rng.randrange(1, 8))])))
    out.append(fmt(0, from_cuts(bounds)))
    return out


def make_case(rng, role, msgs, bits="-", pre=0, ho=b"", nseg=None, enc=0, segs_override=None, eof=0, xr="-"):
    stream = b"".join(m.raw for m in msgs)
    bounds, p = [], 0
    for m in msgs:
        p += len(m.raw)
        bounds.append(p)
    if role == "meta":
        # PeerConnectionMetadata drops the peer after any extension message while ut_metadata is not advertised;
        # the first metadata_size fixes the size, a different / out-of-range one is a communication_error
        bits, pre = "-", 0
        supported, msize, v = False, None, []
        for m in msgs:
            if not m.ext:
                continue
            close = False
            if m.tag == "ext-hs":
                supported = True
            elif m.tag == "ext-hs-badsize":
                val = int(re.search(rb"metadata_sizei(\d+)e", m.raw).group(1))
                if val == 0 or val > (1 << 26) or (msize is not None and val != msize):
                    close = True
                elif msize is None:
                    msize = val
            v.append("1" if (close or not supported) else "0")
        xv = "".join(v) or "-"
    else:
        xv = "".join("1" if m.extclose else "0" for m in msgs if m.ext) or "-"
    if ho:
        stream = stream[len(ho):]
        bounds = [b - len(ho) for b in bounds]
    segs = segmentations(rng, len(stream), bounds)
    if nseg:
        segs = segs[:nseg]
    if segs_override is not None:
        segs = segs_override(len(stream))
    if role == "meta":
        enc = 0     # MSE towards a metadata download is not driven (the negotiation is C06's subject)
    return "role=%s np=%d bits=%s pre=%d cu=1 xv=%s xr=%s ho=%s enc=%d eof=%d stream=%s segs=%s" % (
        role, 1 if role == "meta" else NP, bits, pre, xv, xr, ho.hex() or "-", enc, eof, stream.hex() or "-", "/".join(segs))


def two_cuts(step):
    """whole + one split at every step-th offset"""
    def f(n):
        return ["k0:%d" % n] + ["k0:%d,%d" % (c, n - c) for c in range(1, n, step)]
    return f


def hand_cases(rng, tier="quick"):
    out = []
    # (red-team seeds) extension messages with length prefix 0..3 followed by further bytes, every role, plain and encrypted
    for role in ROLES:
        for ln in (1, 2, 3):
            for enc in (0, 1):
                body = bytes([20]) + bytes([0, 0x64, 0x65][:max(0, ln - 1)])
                ms = [M(msg(4, be32(0)), "have"), M(be32(ln) + body, "ext-len%d" % ln, ln >= 2), M(msg(4, be32(1)), "have"), M(msg(2), "int")]
                out.append(make_case(rng, role, ms, enc=enc))
        out.append(make_case(rng, role, [M(be32(1) + bytes([20]), "ext-len1")]))           # nothing follows: waits
        out.append(make_case(rng, role, [M(be32(1) + bytes([20, 0xff]), "ext-len1+1")]))   # one more byte
    # unrequested PIECE payloads on an ENCRYPTED leech connection, split at every offset: the discarded bytes must
    # still advance the RC4 keystream
    for n, step in ((200, 1), (600, 1 if tier != "quick" else 5), (0, 1), (1, 1), (499, 7), (3000, 97)):
        ms = [M(msg(2), "int"), M(msg(7, be32(1) + be32(0) + bytes((7 * i) & 255 for i in range(n))), "piece-unrequested"),
              M(msg(4, be32(3)), "have"), M(msg(4, be32(6)), "have"), M(msg(1), "unchoke")]
        out.append(make_case(rng, "leech", ms, enc=1, segs_override=two_cuts(step)))
        out.append(make_case(rng, "leech", ms, enc=0, segs_override=two_cuts(max(step, 11))))
    # extension payloads split at every offset, encrypted
    for role in ("seed", "leech"):
        ms = [M(msg(20, b"\x00d1:md11:ut_metadatai2ee1:pi6881ee"), "ext-hs", True), M(msg(4, be32(2)), "have"),
              M(msg(20, b"\x01" + bytes(range(90))), "ext-garbage", True), M(msg(2), "int")]
        out.append(make_case(rng, role, ms, enc=1, segs_override=two_cuts(1)))
    # extension messages that need a reply while the previous reply is still pending (the write side is held):
    # the second request waits, everything behind it waits; `w` = the write side becomes ready
    hs = M(msg(20, b"\x00d1:md11:ut_metadatai2eee"), "ext-hs", True)
    rq = lambda p: M(msg(20, b"\x02d8:msg_typei0e5:piecei%dee" % p), "ext-mdreq", True)
    for role in ("leech", "leechdone", "seed", "iseed"):
        for k, (body, xr) in enumerate([
                ([hs, rq(0), M(msg(4, be32(1)), "have"), rq(0), M(msg(4, be32(2)), "have"), rq(7), M(msg(2), "int")], "0111"),
                ([hs, rq(0), rq(1), rq(0), M(msg(4, be32(3)), "have")], "0111"),
                ([hs, M(msg(2), "int"), rq(0), M(msg(20, b"\x01" + bytes(30)), "ext-garbage", True), rq(5), M(msg(4, be32(4)), "have"), M(be32(0), "ka")], "0101"),
                ([rq(0), rq(0), M(msg(4, be32(5)), "have")], "00"),            # ut_metadata not advertised: no reply, no wait
        ]):
            raw = b"".join(m.raw for m in body)
            n = len(raw)
            bounds, p = [], 0
            for m in body:
                p += len(m.raw)
                bounds.append(p)

            def segsf(_n, bounds=bounds, n=n):
                def lens(cuts):
                    pts = [0] + sorted(set(c for c in cuts if 0 < c < n)) + [n]
                    return [pts[i + 1] - pts[i] for i in range(len(pts) - 1)]
                out = []
                out.append("k0:%d,w" % n)                                            # everything, then one write
                out.append("k0:" + ",".join(str(x) for x in lens(bounds)) + ",w")   # message by message, then one write
                out.append("k0:" + ",".join("%d,w" % x for x in lens(bounds)))       # a write after every message
                out.append("k0:" + ",".join(["1"] * n) + ",w")                      # byte-wise
                out.append("k3:%d,w" % n)
                mid = bounds[len(bounds) // 2]
                out.append("k0:%d,w,%d,w" % (mid, n - mid))
                out.append("k0:%d" % n)                                              # no write at all: stays waiting
                return out
            for enc in (0, 1):
                out.append(make_case(rng, role, body, enc=enc, xr=xr, segs_override=segsf))
    # the same with the first requests handed over by the handshake (push_unread + the one event_read of
    # receive_succeeded): run_b's `pre` path of machine_write_events.  An INTERESTED leads (the handshake itself
    # parses a leading bitfield / extension / port message); behind it: both requests complete (the second waits
    # after the hand-over) / the second incomplete / a HAVE behind them cut / only the extension handshake
    for role in ("leech", "seed"):
        body = [M(msg(2), "int"), hs, rq(0), rq(1), M(msg(4, be32(3)), "have"), rq(0), M(msg(1), "unchoke")]
        for ho in (msg(2) + hs.raw + rq(0).raw + rq(1).raw, msg(2) + hs.raw + rq(0).raw + rq(1).raw[:9],
                   msg(2) + hs.raw + rq(0).raw + rq(1).raw + msg(4, be32(3))[:6], msg(2) + hs.raw):
            def segsf2(n):
                return ["k0:%d,w" % n, "k0:w,%d,w" % n, "k0:" + ",".join(["1"] * n) + ",w",
                        "k0:%d,w,%d,w" % (n // 2, n - n // 2), "k3:%d,w" % n]
            for enc in (0, 1):
                out.append(make_case(rng, role, body, enc=enc, xr="0111", ho=ho, segs_override=segsf2))
    # remote close in the middle of every kind of message / payload, every role
    for role in ROLES:
        whole = [M(msg(2), "int"), M(msg(4, be32(0)), "have"), M(msg(6, be32(0) + be32(0) + be32(1000)), "req"),
                 M(msg(20, b"\x00d1:md11:ut_metadatai2eee"), "ext-hs", True)]
        if role == "leech":
            whole.append(M(msg(7, be32(1) + be32(0) + bytes(300)), "piece-unrequested"))
        if role == "meta":
            whole.append(M(msg(5, bytes(40)), "bitfield"))
        whole.append(M(msg(9, b"\x1a\xe1"), "port"))
        raw = b"".join(m.raw for m in whole)
        for cut in sorted(set([0, 1, 4, 5, 6, 9, 13, 14, 20, 31, 40, 41, 60, len(raw) - 1, len(raw)] + [rng.randrange(len(raw)) for _ in range(4)])):
            kept, pos = [], 0
            for m in whole:
                if pos + len(m.raw) <= cut:
                    kept.append(m)
                    pos += len(m.raw)
                else:
                    break
            if pos < cut:
                kept.append(M(raw[pos:cut], "truncated"))
            out.append(make_case(rng, role, kept, eof=1, nseg=3, enc=1 if cut % 2 else 0))
    # REQUESTs for piece indexes at and beyond the piece count, unchoked, writer released afterwards
    for role in ("seed", "leechdone", "iseed", "leech"):
        for idx in (NP, NP + 1, 255, 1 << 16, 1 << 31, 0xFFFFFFFF):
            for enc in (0, 1):
                ms = [M(msg(6, be32(idx) + be32(0) + be32(1000)), "req-index-big"), M(msg(4, be32(1)), "have")]
                out.append(make_case(rng, role, ms, pre=1, enc=enc, nseg=3))
                ms2 = [M(msg(6, be32(0) + be32(0) + be32(1000)), "req"), M(msg(6, be32(idx) + be32(16) + be32(16384)), "req-index-big")]
                out.append(make_case(rng, role, ms2, pre=1, enc=enc, nseg=2))
    # REQUESTs whose begin+length wraps around 2^32 (and plain out-of-range ones) on upload-capable roles, unchoked, and
    # the writer is released afterwards (D2): must close that connection only
    for role in ("seed", "leechdone", "iseed", "leech"):
        for off, ln in ((0xFFFFFFF0, 0x4000), (0xFFFFC000, 0x4000), (0xFFFFFFFF, 1), (0xFFFFFFFF, 0x20000), (16384, 1), (16383, 2), (0x80000000, 0x80000000)):
            for enc in (0, 1):
                ms = [M(msg(6, be32(0) + be32(0) + be32(1000)), "req"), M(msg(6, be32(1) + be32(off) + be32(ln)), "req-wrap"), M(msg(4, be32(1)), "have")]
                out.append(make_case(rng, role, ms, pre=1, enc=enc, nseg=3))
    for role in ROLES:
        # every message kind once, with markers
        ms = [M(be32(0), "ka"), M(msg(2), "int"), M(msg(4, be32(3)), "have"), M(msg(6, be32(0) + be32(0) + be32(1000)), "req"),
              M(msg(8, be32(0) + be32(0) + be32(1000)), "can"), M(msg(9, b"\x1a\xe1"), "port"), M(msg(1), "unchoke"), M(msg(0), "choke"),
              M(msg(20, b"\x00d1:md11:ut_metadatai2eee"), "ext-hs", True), M(msg(4, be32(6)), "have"), M(msg(3), "notint"), M(msg(2), "int")]
        out.append(make_case(rng, role, ms, pre=1))
        out.append(make_case(rng, role, ms, pre=0))
        # bitfield completed by a HAVE: seed / done close, leech / initial seed dequeue
        if role != "meta":
            out.append(make_case(rng, role, [M(msg(2), "int"), M(msg(4, be32(7)), "have"), M(msg(2), "int"), M(msg(4, be32(0)), "have")], bits="11111110"))
        else:
            hs = M(msg(20, b"\x00d1:md11:ut_metadatai2eee"), "ext-hs", True)
            for n in (0, 1, 2, 300, 502, 503, 504, 700):
                out.append(make_case(rng, role, [M(msg(5, bytes(n)), "bitfield"), M(msg(2), "int"), hs, M(msg(5, bytes(3)), "bitfield"), M(be32(0xffffffff) + b"\x00", "badlen")]))
        # CHOKE with a lying length: the rest is parsed as messages (static-length messages are not verified)
        out.append(make_case(rng, role, [M(be32(100) + bytes([0]), "choke-len100"), M(msg(4, be32(1)), "have")]))
        # PIECE in every role
        out.append(make_case(rng, role, [M(msg(7, be32(1) + be32(0) + bytes(range(200))), "piece"), M(msg(4, be32(2)), "have")]))
        # handover: the first 5 bytes after the handshake are a complete message that nothing follows
        out.append(make_case(rng, role, [M(msg(2), "int")], ho=msg(2)))
        out.append(make_case(rng, role, [M(msg(2), "int"), M(be32(0), "ka")], ho=msg(2)))
        out.append(make_case(rng, role, [M(msg(2), "int")], ho=msg(2), enc=1))
        out.append(make_case(rng, role, [M(msg(2), "int"), M(msg(4, be32(1)), "have"), M(msg(1), "unchoke")], ho=msg(2), enc=1))
        out.append(make_case(rng, role, [M(msg(4, be32(2)), "have"), M(msg(2), "int")], ho=msg(4, be32(2))[:5]))
    # request queue limit 2048 (+-1), unchoked
    reqs = [M(msg(6, be32(i % NP) + be32((i // NP) * 16) + be32(16)), "req") for i in range(2050)]
    out.append(make_case(rng, "seed", reqs, pre=1, nseg=3))
    out.append(make_case(rng, "leech", [M(msg(7, be32(1) + be32(0) + bytes(16384)), "piece16k"), M(msg(4, be32(2)), "have")]))
    return out


def free_cases(rng, n):
    out = []
    ext_hs = msg(20, b"\x00d1:md11:ut_metadatai2eee").hex()
    mdreq = lambda p: msg(20, b"\x02d8:msg_typei0e5:piecei%dee" % p).hex()
    for v in range(n):
        r = rng.random()
        if r < 0.55:
            ops = ["U", "S"]
            for _ in range(rng.randrange(1, 4)):
                ops += ["A%d" % rng.choice([0, 0, 1, 2, 3, 4, 5, 5, 6]), "S"]
                if rng.random() < 0.3:
                    ops += ["B" + rng.choice([msg(0), msg(1), msg(4, be32(rng.randrange(4))), be32(0)]).hex(), "S"]
        elif r < 0.75:
            # several ut_metadata requests back to back: the second one is held until the reply is written
            ops = ["B" + ext_hs + mdreq(0) + mdreq(0) + mdreq(5) + msg(2).hex() + mdreq(-1), "S", "U", "S", "A0", "S"]
        elif r < 0.9:
            ops = ["U", "S", "B" + msg(0).hex() + msg(1).hex(), "S", "A%d" % rng.choice([0, 5]), "S", "T31", "A0", "S", "T125", "S"]
        else:
            ops = ["B" + bytes(rng.randrange(256) for _ in range(rng.randrange(1, 80))).hex(), "S", "U", "S", "A0"]
        out.append("mode=free v=%d ops=%s" % (v, ",".join(ops)))
    # endgame takeover by a second peer in the middle of a block (two connections on the same block)
    for k, (a, b, c) in enumerate([(4000, 8000, 4000), (1, 2, 1), (100, 16000, 300), (0, 600, 600), (5000, 5000, 100),
                                   (499, 500, 15000), (8000, 4000, 1000), (13, 16384, 0)]):
        out.append("mode=free v=%d ops=G%d:%d:%d,S" % (1000 + k, a, b, c))
    # three peers on one block, the leader's connection goes away in the middle of its PIECE, the followers (at
    # different compared positions) go on, in both orders
    for k, (a, b, c) in enumerate([(6000, 2000, 4000), (6000, 4000, 2000), (16000, 1, 15999), (500, 100, 300), (9000, 9000, 100),
                                   (3000, 0, 2999), (12000, 600, 11000)]):
        for order in (0, 1):
            out.append("mode=free v=%d ops=H%d:%d:%d:%d" % (2000 + 2 * k + order, a, b, c, order))
    # upload side: served, choked, pause, unchoked again, request for the same / another piece; plain and encrypted
    for role in ("seed", "leechdone", "iseed", "leech"):
        for enc in (0, 1):
            for (i, j, pause) in ((0, 0, 11), (0, 0, 3), (0, 1, 11), (4, 4, 31), (7, 7, 11)):
                out.append("mode=freeup role=%s enc=%d piece=%d pause=%d again=%d" % (role, enc, i, pause, j))
    return out


def gen(seed, tier):
    rng = random.Random(seed)
    stats = {"corpus": 0, "hand": 0, "grammar": 0, "raw": 0, "free": 0, "by_role": {}, "by_mutation": {}, "stream_len": {}}
    cases = []
    here = os.path.dirname(os.path.dirname(os.path.abspath(__file__)))
    for f in sorted(glob.glob(os.path.join(here, "corpus", "C03", "*.case"))):
        for line in open(f):
            line = line.strip()
            if line and not line.startswith("#"):
                cases.append(line)
                stats["corpus"] += 1
    hc = hand_cases(rng, tier)
    stats["hand"] = len(hc)
    cases += hc
    n_grammar = 260 if tier == "quick" else 1500
    n_raw = 60 if tier == "quick" else 400
    n_free = 40 if tier == "quick" else 200
    for k in range(n_grammar):
        role = ROLES[k % 5]
        state = {}
        msgs = [gen_valid(rng, role, state) for _ in range(rng.randrange(1, 14))]
        which = rng.choice(MUTATIONS) if k >= len(MUTATIONS) * 2 else MUTATIONS[k % len(MUTATIONS)]
        msgs, tag = mutate(rng, role, msgs, which)
        # marker after the mutation point so that a framing slip becomes visible
        msgs.append(M(msg(4, be32(rng.randrange(NP))), "have-marker"))
        bits = "-" if rng.random() < 0.7 else "".join(rng.choice("01") for _ in range(NP - 1)) + "0"
        pre = 1 if rng.random() < 0.5 else 0
        enc = 1 if (k % 3 == 1) else 0
        eof = 1 if (k % 7 == 3) else 0      # remote close after the last byte (with `truncate`: at any byte)
        cases.append(make_case(rng, role, msgs, bits=bits, pre=pre, enc=enc, eof=eof))
        stats["remote_close"] = stats.get("remote_close", 0) + eof
        stats["grammar"] += 1
        stats["encrypted"] = stats.get("encrypted", 0) + (1 if enc and role != "meta" else 0)
        stats["by_role"][role] = stats["by_role"].get(role, 0) + 1
        stats["by_mutation"][tag] = stats["by_mutation"].get(tag, 0) + 1
        ln = sum(len(m.raw) for m in msgs)
        b = "<64" if ln < 64 else "<512" if ln < 512 else "<4096" if ln < 4096 else ">=4096"
        stats["stream_len"][b] = stats["stream_len"].get(b, 0) + 1
    for k in range(n_raw):
        role = ROLES[k % 5]
        n = rng.randrange(0, 64)
        raw = bytes(rng.randrange(256) for _ in range(n))
        if rng.random() < 0.6 and n >= 5:
            # plausible length prefix and id so that the body is reached
            raw = be32(rng.choice([1, 5, 13, 3, 9, 2, 100])) + bytes([rng.choice([0, 1, 2, 3, 4, 6, 7, 8, 9, 20])]) + raw[5:]
        cases.append(make_case(rng, role, [M(raw, "raw")], pre=rng.randrange(2), enc=1 if k % 4 == 2 else 0))
        stats["raw"] += 1
    fc = free_cases(rng, n_free)
    stats["free"] = len(fc)
    cases += fc
    return cases, stats
