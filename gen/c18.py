"""C18 case generator. Case: '<main cmds> / <disk cmds> / <schedule digits 0|1>'; cmds P:<chunk>:<torrent> R:<torrent> D.
Hand list of racy programs x hand schedules, seeded random programs x seeded bursty schedules (with a
round-robin tail), and ALL interleavings of small programs (enumerated by the extracted model)."""
import glob, os, random

HERE = os.path.dirname(os.path.abspath(__file__))

EXHAUSTIVE_QUICK = [
    "P:0:0 R:0 D / D",               # push then remove racing the disk thread (lost wake-up window)
    "P:0:0 D / D D",                 # plain delivery
    "P:0:0 P:1:1 R:0 D / D",
]
EXHAUSTIVE_THOROUGH = [
    "P:0:0 P:1:0 R:0 D / D D",
    "P:0:0 D P:1:0 R:0 D / D D",
    "P:0:0 P:1:1 R:1 D R:0 / D D",
    "P:0:0 R:0 P:1:0 R:0 D / D D",
]
def deep(n, tor=0):
    """n pieces pushed in one burst (main thread runs ahead of the disk thread)"""
    return " ".join("P:%d:%d" % (k, tor) for k in range(n))


# DownloadWrapper side (harness/c18dw.cc): hash_check on a real Download, then hash_stop / close with pieces pending
DW_CASES = [
    "40 2048 c s", "40 2048 c w1 s", "40 2048 c w3 s x", "40 2048 c x", "40 2048 c w1 x",
    "100 1100 c w2 s o c s x", "100 1100 c s o c t3 x", "8 4096 c s", "8 4096 c t2 s x", "300 1100 c w5 s", "300 1100 c t1 s x",
    "40 2048 c t50 w40 t50 s x",
]

HAND = [
    # deep queue: more pieces pending on the disk thread than any per-callback batch (70 > 64): one perform() callback was
    # queued by the first push only, every piece must still be hashed and answered (second torrent's piece queued behind them too)
    (deep(70) + " D D D / LOOP", ["0" * 72 + "1" * 450 + "0" * 320 + "01" * 60]),
    (deep(66) + " P:66:1 D D / LOOP", ["0" * 69 + "1" * 440 + "0" * 320 + "01" * 60, "0" * 40 + "1" * 100 + "0" * 29 + "1" * 400 + "0" * 320 + "01" * 60]),
    # a result consumed by remove() leaves a stale work() callback; a later piece of another torrent must still be answered
    ("P:0:0 R:0 D P:1:1 D D / D D", ["000" + "1" * 8 + "0" * 9 + "1" * 8 + "0" * 12 + "01" * 20, "000" + "1" * 8 + "0" * 2 + "01" * 40]),
    ("P:0:0 R:0 D P:1:1 D D / LOOP", ["000" + "1" * 8 + "0" * 9 + "1" * 10 + "0" * 12 + "01" * 20]),
    # second push decides should_interrupt while the disk thread drains the queue
    ("P:0:0 P:1:1 D D / D D", ["000" + "1" * 8 + "0" * 12 + "01" * 20, "000" + "111" + "0" + "1" * 6 + "0" * 8 + "01" * 20]),
    # the disk thread runs its event loop (process_callbacks forever)
    ("P:0:0 R:0 D / LOOP", ["000" + "1111" + "0" * 6 + "1" * 10 + "0" * 10, "0001111" + "01" * 20, "01" * 40]),
    ("P:0:0 P:1:0 D R:0 P:2:1 D R:1 D / LOOP", ["01" * 80, "0011" * 40, "000111" * 25]),
    # the three blocking points of the main thread with the looping disk thread (coq/C18/ProofsG.v examples; theorem
    # hashing_handoff_no_deadlock): hq_wait with the flag clear; remove's probe / work()'s pop while chunk_done holds
    # m_done_chunks_lock - main is tried while blocked (logged "0:-"), then 1..4 disk steps, then main again
    ("P:0:0 R:0 D / LOOP", ["00011100" + "00" + d + "0" * 8 + "01" * 20 for d in ("1", "11", "111", "1111")]),
    ("P:0:0 R:0 D / LOOP", ["00011110" + "00" + d + "0" * 8 + "01" * 20 for d in ("1", "11", "111")]),
    ("P:0:0 D D / LOOP", ["0001111100" + "00" + d + "0" * 8 + "01" * 20 for d in ("1", "11", "111")]),
    (deep(5) + " R:0 D D / LOOP", ["0" * 7 + "111" + "00" * 2 + "0" + "1" + "00" + "1" + "00" + "1" + "00" + "1" + "00" + "01" * 60,
                                   "0" * 7 + "1111" + "000" + "1" + "0" + "1" + "00" + "1111" + "00" + "01" * 60]),
    (deep(3) + " D P:3:1 R:1 R:0 D D / LOOP", ["0" * 5 + "11111" + "000" + "1" + "000" + "1111" + "000" + "01" * 80,
                                               "0" * 5 + "1" * 9 + "0000" + "1" + "0000" + "1" + "000" + "01" * 80]),
    ("P:0:0 R:0 D / D", ["000" + "1111" + "0" * 6 + "1" * 10 + "0" * 10, "0001111" + "01" * 20, "000" + "1" * 20 + "0" * 20]),
    ("P:0:1 P:1:1 D R:1 D / D D", ["000" + "1" * 12 + "0" * 12 + "1" * 8 + "0" * 8, "01" * 40]),
    ("P:0:0 P:1:0 P:2:1 R:0 D D / D D D", ["01" * 60, "0011" * 30, "000111" * 20, "0" * 9 + "1" * 30 + "0" * 30]),
    ("P:0:0 D P:1:0 D R:0 D / D D D D", ["01" * 60, "0" * 3 + "1" * 7 + "0" * 8 + "1" * 20 + "0" * 20]),
]


def rand_program(r):
    nch = r.choice([1, 2, 3, 4])
    ntor = r.choice([1, 2])
    main, pushed = [], 0
    for _ in range(r.choice([3, 4, 6, 8])):
        x = r.random()
        if x < 0.45 and pushed < nch:
            main.append("P:%d:%d" % (pushed, r.randrange(ntor)))
            pushed += 1
        elif x < 0.7:
            main.append("R:%d" % r.randrange(ntor))
        else:
            main.append("D")
    main.append("D")
    disk = ["LOOP"] if r.random() < 0.35 else ["D"] * r.choice([1, 2, 3, 4])
    return " ".join(main) + " / " + " ".join(disk)


def rand_schedule(r, length):
    s = []
    while len(s) < length:
        s += [str(r.randrange(2))] * r.choice([1, 1, 2, 3, 5, 8])
    return "".join(s[:length]) + "01" * 50


def corpus():
    out = []
    for f in sorted(glob.glob(os.path.join(HERE, "..", "corpus", "C18", "*.case"))):
        for l in open(f):
            l = l.strip()
            if l and not l.startswith("#"):
                out.append(l)
    return out


def gen(seed, tier):
    r = random.Random(seed)
    cases = corpus()
    stats = {"corpus": len(cases)}
    for prog, scheds in HAND:
        cases += [prog + " / " + s for s in scheds]
    stats["hand"] = len(cases) - stats["corpus"]
    nprog, nsched = (300, 10) if tier == "quick" else (1000, 12)
    for _ in range(nprog):
        p = rand_program(r)
        for _ in range(nsched):
            cases.append(p + " / " + rand_schedule(r, r.choice([8, 20, 35, 60])))
    stats["random_programs"] = nprog
    stats["random_cases"] = nprog * nsched
    enum = [(p, 15000) for p in EXHAUSTIVE_QUICK]
    if tier != "quick":
        enum += [(p, 20000) for p in EXHAUSTIVE_THOROUGH]
    return cases, stats, enum
