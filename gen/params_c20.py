"""Constants of the extension protocol (C20) re-extracted from /repo on every run."""
ENTRIES = [
    ("c20_metadata_piece_shift", "src/protocol/extensions.h", r"metadata_piece_shift\s*=\s*(\d+)\s*;", "N"),
    ("c20_max_pex_list", "src/torrent/download_info.h", r"max_size_pex_list\(\)\s*\{\s*return (\d+);", "N"),
    ("c20_max_size_pex", "src/torrent/download_info.h", r"m_max_size_pex\{(\d+)\}", "N"),
    ("c20_ext_length_limit", "src/protocol/extensions.cc", r"length > (\(1 << \d+\))\)\s*throw communication_error\(\"Received invalid extension", "N"),
    ("c20_read_timeout_s", "src/protocol/peer_connection_leech.cc", r"m_time_last_read > (\d+)s", "N"),
    ("c20_reject_buf_extra", "src/protocol/extensions.cc", r"build_bencode\(sizeof\(size_t\) \+ (\d+), \"d8:msg_typei2e5:piecei%zuee\"", "N"),
    ("c20_pex_tick_every", "src/download/download_wrapper.cc", r"// Every 2 minutes\.\s*if \(ticks % (\d+) == 0\)", "N"),
]
