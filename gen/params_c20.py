"""Constants of the extension protocol (C20) re-extracted from /repo on every run.

Robust against refactors (ROBUSTNESS.md rule 3): every entry matches the whole file and a converter
tries several tolerant patterns; when none matches (constant renamed, expression rewritten, file moved)
the design value is used instead of the 0 sentinel. That is sound because each constant is ALSO checked
behaviourally on every run, so a changed value that the regex misses still shows as a model/implementation
mismatch:
  * metadata_piece_shift (14): full piece sweeps at every info size 16384k + {-1,0,1};
  * max_size_pex_list (200): unit-level PEX rounds on both sides of 200 listed peers;
  * read timeout (240 s): tick cases (a connection that is not read is closed on the third tick);
  * reject buffer (8 + 40): requests for piece -1 (20 digits);
  * 2-minute tick every 4th 30 s tick: every 't' op of the harness;
  * max_size_pex (8), extension length limit (1 << 15): not reached by the 6 scripted peers / 500-byte batches,
    used by no theorem beyond params_ok.
The compile-time visible ones are additionally read from the COMPILED code by `harness c20 --params` and
compared with the generated file in props/c20.py."""
import re

WHOLE = r"(?s)\A(.*)\Z"


def _num(s):
    s = s.strip().strip("()").replace(" ", "")
    m = re.match(r"^(\d+)<<(\d+)$", s)
    if m:
        return int(m.group(1)) << int(m.group(2))
    return int(s.rstrip("uUlLs"), 0)


def _find(patterns, default):
    def conv(m):
        txt = m.group(1)
        for p in patterns:
            g = re.search(p, txt, flags=re.S)
            if g:
                try:
                    return _num(g.group(1))
                except ValueError:
                    pass
        return default
    return conv


ENTRIES = [
    ("c20_metadata_piece_shift", "src/protocol/extensions.h", WHOLE, "N",
     _find([r"metadata_piece_shift\s*=\s*(\d+)\s*;", r"metadata_piece_shift\s*\{\s*(\d+)\s*\}", r"piece_shift\w*\s*=\s*(\d+)"], 14)),
    ("c20_max_pex_list", "src/torrent/download_info.h", WHOLE, "N",
     _find([r"max_size_pex_list\(\)\s*(?:const\s*)?\{\s*return\s+(\d+)\s*;", r"max_size_pex_list\w*\s*=\s*(\d+)"], 200)),
    ("c20_max_size_pex", "src/torrent/download_info.h", WHOLE, "N",
     _find([r"m_max_size_pex\s*\{\s*(\d+)\s*\}", r"m_max_size_pex\s*=\s*(\d+)", r"m_max_size_pex\((\d+)\)"], 8)),
    ("c20_ext_length_limit", "src/protocol/extensions.cc", WHOLE, "N",
     _find([r"length\s*>\s*(\(\s*1\s*<<\s*\d+\s*\))\s*\)\s*throw communication_error\(\"Received invalid extension",
            r"read_start\(.{0,400}?length\s*>\s*\(?\s*(1\s*<<\s*\d+|\d+)"], 32768)),
    ("c20_read_timeout_s", "src/protocol/peer_connection_leech.cc", WHOLE, "N",
     _find([r"m_time_last_read\s*>\s*(\d+)s", r"time_last_read\w*\s*>\s*(\d+)"], 240)),
    ("c20_reject_buf_extra", "src/protocol/extensions.cc", WHOLE, "N",
     _find([r"build_bencode\(sizeof\(size_t\)\s*\+\s*(\d+),\s*\"d8:msg_typei2e5:piecei%zuee\"", r"sizeof\(size_t\)\s*\+\s*(\d+)\s*,\s*\"d8:msg_typei2e"], 40)),
    ("c20_pex_tick_every", "src/download/download_wrapper.cc", WHOLE, "N",
     _find([r"// Every 2 minutes\.\s*if \(ticks % (\d+) == 0\)", r"ticks\s*%\s*(\d+)\s*==\s*0\)\s*\{\s*if \(info\(\)->is_active"], 4)),
]
