"""C11 constants/tables. The values that enter params_ok_now are PROBED from the compiled code
(harness/c11.cc --params -> coq/C11/ParamsProbe.v, written by props/c11.py), so that a refactor
of the source text cannot break the obligation. ENTRIES (regex on the source, feeding
coq/C11/ParamsGen.v) is therefore empty; CROSSCHECK keeps the old anchored regexes as an optional
cross-check: a regex that matches and disagrees with the probe is noted in the evidence, a regex
that does not match is ignored."""
import re

_TAB = r"choke_queue::m_heuristics_list\[HEURISTICS_MAX_SIZE\] = \{(.*?)\n\};"
_ROW = r"\{\s*&\w+,\s*&\w+,\s*\{([\d,\s]+)\},\s*\{([\d,\s]+)\}\s*\}"


def _row(i, which):
    def conv(m):
        rows = re.findall(_ROW, m.group(1))
        nums = [int(x) for x in rows[i][which].replace(" ", "").split(",") if x]
        return "[" + "; ".join(str(n) for n in nums) + "]%N"
    return conv


def _nrows(m):
    return len(re.findall(_ROW, m.group(1)))


F = "src/torrent/download/choke_queue.cc"
CROSSCHECK = [("c11_heur_rows", F, _TAB, "N", _nrows)]
for i in range(4):
    CROSSCHECK.append(("c11_choke_w%d" % i, F, _TAB, "list N", _row(i, 0)))
    CROSSCHECK.append(("c11_unchoke_w%d" % i, F, _TAB, "list N", _row(i, 1)))
CROSSCHECK += [
    ("c11_order_base", "src/torrent/download/choke_queue.h", r"order_base = \((1 << \d+)\);", "N"),
    ("c11_order_max_size", "src/torrent/download/choke_queue.h", r"order_max_size = (\d+);", "N"),
    ("c11_requeue_guard_s", F, r"set_queued\(PeerConnectionBase\* pc, choke_status\* base\).*?time_last_choke\(\) \+ (\d+)s < this_thread::cached_time\(\)", "N"),
    ("c11_requeue_guard_unsnub_s", F, r"set_not_snubbed\(PeerConnectionBase\* pc, choke_status\* base\).*?time_last_choke\(\) \+ (\d+)s < this_thread::cached_time\(\)", "N"),
    ("c11_global_max_cap", "src/torrent/download/resource_manager.cc", r"set_max_upload_unchoked\(unsigned int m\) \{\s*if \(m > \((1 << \d+)\)\)", "N"),
    ("c11_balance_cap", F, r"std::min\(m_maxUnchoked, uint32_t\{1\} << (\d+)\)", "N"),
]

ENTRIES = []
