"""Constants of the teardown ledger (C16) re-extracted from /repo on every run into coq/C16/ParamsGen.v."""
import re


def _sum(m):
    s = m.group(1)
    if not re.match(r"^[\d\s+]+$", s):
        raise ValueError(s)
    return sum(int(x) for x in s.split("+"))


def _hs(m):
    # handshake_size = part1_size + part2_size  with both given as sums of literals in the same header
    return _sum(re.match(r"(.*)", m.group(1))) + _sum(re.match(r"(.*)", m.group(2)))


ENTRIES = [
    ("c16_hs_part1", "src/protocol/handshake.h", r"static constexpr uint32_t part1_size\s*=\s*([\d\s+]+);", "N", _sum),
    ("c16_hs_size", "src/protocol/handshake.h",
     r"static constexpr uint32_t part1_size\s*=\s*([\d\s+]+);.*?static constexpr uint32_t part2_size\s*=\s*([\d\s+]+);", "N", _hs),
    ("c16_piece_hdr", "src/protocol/protocol_base.h", r"sizeof_piece\s*=\s*(\d+);", "N"),
    ("c16_max_size_pex", "src/torrent/download_info.h", r"m_max_size_pex\{(\d+)\}", "Z"),
]
