"""C14 constants re-extracted from the repository on every run (see gen/params.py).

Robust against refactors (ROBUSTNESS.md rule 3): every entry matches the whole file and a converter looks for
the constant with several tolerant patterns; when none matches (function renamed, file moved, expression
rewritten) the documented protocol / design value is used instead of the 0 sentinel.  That is sound here
because every one of these constants is also checked behaviourally on every run:
  * udp_*_size (BEP 15: 8 / 16 / 20): the exhaustive U grid (length 0..24 x action x transaction id x source)
    compares the implementation with the model built from these values;
  * interval clamps / defaults: every H / H2 / U case prints the resulting intervals;
  * buffer sizes 512 / 2048: U-big and DH-big cases sit on both sides of them;
  * the compile-time visible ones are additionally read from the COMPILED code by `harness c14 --params`
    and compared with the generated file in props/c14.py."""
import re

WHOLE = r"(?s)\A(.*)\Z"


def _mul(s):
    s = re.sub(r"[^0-9*]", "", s.replace("min", "*60").replace("h", "*3600"))
    v = 1
    for part in s.split("*"):
        if part:
            v *= int(part)
    return v


def _after(names, patterns, default, window=1500):
    """first pattern (one group) found within `window` characters after any of `names`"""
    def conv(m):
        txt = m.group(1)
        for name in names:
            for mm in re.finditer(re.escape(name), txt):
                seg = txt[mm.end():mm.end() + window]
                for p in patterns:
                    g = re.search(p, seg, flags=re.S)
                    if g:
                        try:
                            return _mul(g.group(1))
                        except ValueError:
                            pass
        return default
    return conv


_SIZE = [r"size_end\(\)\s*<\s*(\d+)", r"size\w*\(\)\s*<\s*(\d+)", r"<\s*(\d+)\s*\)"]
_CONST = [r"\A\s*=\s*([0-9][0-9s *']*);", r"\A\s*\{\s*([0-9][0-9s *']*)\s*\}", r"\A\s*\(\s*([0-9][0-9s *']*)\s*\)"]
_TS = "src/torrent/tracker/tracker_state.h"
_UDP = "src/tracker/tracker_udp.cc"


def _const(name, default):
    return _after([name], _CONST, default, window=60)


ENTRIES = [
    ("udp_buffer_size", "src/tracker/udp_router.h", WHOLE, "N", _after(["buffer_type"], [r"ProtocolBuffer<\s*(\d+)\s*>"], 512, 200)),
    ("udp_header_size", _UDP, WHOLE, "N", _after(["TrackerUdp::process_header("], _SIZE, 8)),
    ("udp_connect_size", _UDP, WHOLE, "N", _after(["TrackerUdp::process_connect("], _SIZE, 16, 2500)),
    ("udp_announce_size", _UDP, WHOLE, "N", _after(["TrackerUdp::process_announce("], _SIZE, 20, 2500)),
    ("udp_router_peek_size", "src/tracker/udp_router.cc", WHOLE, "N", _after(["UdpRouter::peek_transaction_id("], _SIZE, 8)),
    ("dht_datagram_buffer", "src/dht/dht_server.cc", WHOLE, "N",
     _after(["DhtServer::event_read("], [r"char\s+buffer\[(\d+)\]", r"buffer\[(\d+)\]", r"array<\s*char\s*,\s*(\d+)\s*>"], 2048, 3000)),
    ("available_list_default_max", "src/download/available_list.h", WHOLE, "N", _after(["m_maxSize", "m_max_size"], _CONST, 1000, 60)),
    ("default_min_interval", _TS, WHOLE, "Z", _const("default_min_interval", 600)),
    ("min_min_interval", _TS, WHOLE, "Z", _const(" min_min_interval", 300)),
    ("max_min_interval", _TS, WHOLE, "Z", _const(" max_min_interval", 4 * 3600)),
    ("default_normal_interval", _TS, WHOLE, "Z", _const("default_normal_interval", 1800)),
    ("min_normal_interval", _TS, WHOLE, "Z", _const(" min_normal_interval", 600)),
    ("max_normal_interval", _TS, WHOLE, "Z", _const(" max_normal_interval", 8 * 3600)),
]
