"""C14 constants re-extracted from /repo on every run (see gen/params.py)."""
import re

def _secs(m):
    s = m.group(1).replace("s", "").strip()
    v = 1
    for part in s.split("*"):
        v *= int(part.strip())
    return v

_TS = "src/torrent/tracker/tracker_state.h"
_UDP = "src/tracker/tracker_udp.cc"
ENTRIES = [
    ("udp_buffer_size", "src/tracker/udp_router.h", r"using buffer_type\s*=\s*ProtocolBuffer<(\d+)>;", "N"),
    ("udp_header_size", _UDP, r"TrackerUdp::process_header\(.*?if \(buffer\.size_end\(\) < (\d+)\)", "N"),
    ("udp_connect_size", _UDP, r"TrackerUdp::process_connect\(.*?if \(buffer\.size_end\(\) < (\d+)\)", "N"),
    ("udp_announce_size", _UDP, r"TrackerUdp::process_announce\(.*?if \(buffer\.size_end\(\) < (\d+)\)", "N"),
    ("udp_router_peek_size", "src/tracker/udp_router.cc", r"UdpRouter::peek_transaction_id\(.*?if \(buffer\.size_end\(\) < (\d+)\)", "N"),
    ("dht_datagram_buffer", "src/dht/dht_server.cc", r"DhtServer::event_read\(\).*?char buffer\[(\d+)\];", "N"),
    ("available_list_default_max", "src/download/available_list.h", r"m_maxSize\{(\d+)\}", "N"),
    ("default_min_interval", _TS, r"default_min_interval\s*=\s*([0-9s *]+);", "Z", _secs),
    ("min_min_interval", _TS, r"\bmin_min_interval\s*=\s*([0-9s *]+);", "Z", _secs),
    ("max_min_interval", _TS, r"\bmax_min_interval\s*=\s*([0-9s *]+);", "Z", _secs),
    ("default_normal_interval", _TS, r"default_normal_interval\s*=\s*([0-9s *]+);", "Z", _secs),
    ("min_normal_interval", _TS, r"\bmin_normal_interval\s*=\s*([0-9s *]+);", "Z", _secs),
    ("max_normal_interval", _TS, r"\bmax_normal_interval\s*=\s*([0-9s *]+);", "Z", _secs),
]
