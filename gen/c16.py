"""C16 case generator: fault enumeration over scripted sessions.
A case is  sc=<scenario> k=<cut offset in the scripted peers' byte streams> f=<fault> tgt=<peer>.
The byte layout of every scenario (N and the item boundaries) is asked from the harness itself
(`sc=<name> info=1`), so the generator cannot drift from the scripts in harness/c16.cc."""
import os
import random

SCENARIOS = ["hin", "hout", "seed", "leech", "dis", "pex", "multi", "mblk", "hs3", "full", "fullx", "hfail", "thrd", "thru", "snub", "snub2", "sockfull", "ddis", "ddis2", "ddisl"]
SEEDING = {"hin", "seed", "pex", "hs3", "full", "fullx", "hfail", "thru", "snub", "snub2", "sockfull", "ddis", "ddis2"}
PEER_FAULTS = "XRH"          # remote close / reset / half close of one peer
GLOBAL_FAULTS = "TSCDM"      # timeout, local stop / close / remove, every peer at once
CORPUS = os.path.join(os.path.dirname(os.path.dirname(os.path.abspath(__file__))), "corpus", "C16")


def parse_layout(line):
    kv = dict(t.split("=", 1) for t in line.split())
    bounds = []
    for b in kv["bounds"].split(","):
        off, rest = b.split(":", 1)
        kind, peer = rest.rsplit("@", 1)
        bounds.append((int(off), kind, int(peer)))
    return dict(N=int(kv["N"]), peers=int(kv["peers"]), bounds=bounds)


def interesting_offsets(lay):
    """every handshake threshold and every message boundary +-1, PIECE header / mismatch thresholds"""
    N = lay["N"]
    ks = {0, N}
    for off, kind, _ in lay["bounds"]:
        rel = [-1, 0, 1]
        if kind in ("hs", "hsa"):
            rel += [19, 20, 21, 47, 48, 49, 59, 67]
        elif kind in ("pc", "pp", "bad"):
            rel += list(range(2, 15)) + [23, 24, 25]   # block boundary + 0..12 bytes of the next header
        else:
            rel += [3, 4, 5]
        for r in rel:
            if 0 <= off + r <= N:
                ks.add(off + r)
    return ks


def corpus_cases():
    out = []
    if os.path.isdir(CORPUS):
        for f in sorted(os.listdir(CORPUS)):
            if f.endswith(".case"):
                for l in open(os.path.join(CORPUS, f)):
                    l = l.strip()
                    if l and not l.startswith("#"):
                        out.append(l)
    return out


def gen(seed, tier, layouts):
    rnd = random.Random(seed)
    cases = corpus_cases()
    stats = {"corpus": len(cases), "per_scenario": {}, "faults": {}, "offset_kind": {"boundary": 0, "stride": 0, "every": 0}}
    shutdown = []
    for sc in SCENARIOS:
        lay = layouts[sc]
        N, np_ = lay["N"], lay["peers"]
        bnd = interesting_offsets(lay)
        if tier == "thorough":
            ks = set(range(0, N + 1))
            stats["offset_kind"]["every"] += N + 1 - len(bnd)
        else:
            stride = max(1, N // 16)
            start = rnd.randrange(stride)
            ks = set(range(start, N + 1, stride)) | bnd
            stats["offset_kind"]["stride"] += len(ks - bnd)
        stats["offset_kind"]["boundary"] += len(bnd)
        n0 = len(cases)
        for k in sorted(ks):
            # all faults at the interesting offsets; elsewhere (stride / every offset) the reduced set
            full = k in bnd or (tier == "thorough" and k % 7 == 0) or (tier != "thorough" and k % 3 == 0)
            faults = []
            local_only = sc in ("thrd", "thru")   # out of quota the library does not poll the socket: only local teardown
            big = N > 20000 and not full     # long scripts (16 KiB blocks): off the boundaries only close + stop
            for f in PEER_FAULTS:
                if (f == "H" and not full) or (big and f != "X") or local_only:
                    continue
                for t in range(np_):
                    faults.append((f, t))
            for f in GLOBAL_FAULTS:
                if f == "M" and np_ == 1 and not full:
                    continue
                if f == "T" and (not full or (tier != "thorough" and k % 2 and k not in (0, N))):
                    continue            # the 500 s timeout is the slowest fault: every second offset in the quick tier
                if big and (f != "S" or k % 2):
                    continue
                if local_only and f not in "SCD":
                    continue
                faults.append((f, 0))
            for f, t in faults:
                cases.append("sc=%s k=%d f=%s tgt=%d" % (sc, k, f, t))
                stats["faults"][f] = stats["faults"].get(f, 0) + 1
        # fault point "the last block of a piece has just been read, the main thread has not drained its callbacks":
        # local stop / close / remove (and a remote close) exactly at the end of every PIECE message
        ends = [off for (off, kind, _) in lay["bounds"][1:] + [(N, "", 0)]]
        kinds = [kind for (_, kind, _) in lay["bounds"]]
        for idx, kind in enumerate(kinds):
            if kind in ("pc", "pr", "bad"):
                for f in ("SCD" if sc in ("thrd", "thru") else "SCDX"):
                    cases.append("sc=%s k=%d f=%s tgt=0 nw=1" % (sc, ends[idx], f))
                    stats["faults"]["nw"] = stats["faults"].get("nw", 0) + 1
        stats["per_scenario"][sc] = {"N": N, "offsets": len(ks), "cases": len(cases) - n0}
        # library shutdown with the session live: a few offsets per scenario, one process each
        pick = sorted(bnd)
        rnd.shuffle(pick)
        for k in sorted(pick[: (10 if tier == "thorough" else 3)]):
            shutdown.append("sc=%s k=%d f=Q tgt=0" % (sc, k))
    stats["shutdown_cases"] = len(shutdown)
    return cases, shutdown, stats
