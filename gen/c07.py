"""C07 case generators + python reference oracle (independent of both model and implementation).

Case lines:  'D <hex>'  decode with every reader;  'E <tree>'  encode then decode.
tree ::= I <dec> | S <hex|-> | L <n> tree*n | M <n> (<hex|-> tree)*n
Python trees: int | bytes | list | dict-as-list-of-pairs ('M', [(k, v), ...])."""
import itertools
import os
import random

INT64_MIN, INT64_MAX = -2**63, 2**63 - 1


def hx(b):
    return b.hex() if b else "-"


def tree_line(t):
    if isinstance(t, int):
        return "I %d" % t
    if isinstance(t, bytes):
        return "S " + hx(t)
    if isinstance(t, list):
        return " ".join(["L %d" % len(t)] + [tree_line(x) for x in t])
    kind, ents = t
    return " ".join(["M %d" % len(ents)] + [hx(k) + " " + tree_line(v) for k, v in ents])


def normalize(t):
    """What the Object built by the harness holds: std::map semantics (sorted, last wins)."""
    if isinstance(t, (int, bytes)):
        return t
    if isinstance(t, list):
        return [normalize(x) for x in t]
    d = {}
    for k, v in t[1]:
        d[k] = normalize(v)
    return ("M", sorted(d.items()))


def ref_encode(t):
    """Independent canonical bencode encoder (of a normalised tree)."""
    if isinstance(t, int):
        return b"i%de" % t
    if isinstance(t, bytes):
        return b"%d:" % len(t) + t
    if isinstance(t, list):
        return b"l" + b"".join(ref_encode(x) for x in t) + b"e"
    return b"d" + b"".join(ref_encode(k) + ref_encode(v) for k, v in t[1]) + b"e"


class NoParse(Exception):
    pass


def ref_decode(s, pos=0, depth=0, liberal_istream=False, in_key=False):
    """Liberal reference reader: what a byte string DENOTES. Leading zeros allowed, keys in any
    order (last duplicate wins). '-0', '+', whitespace, empty digit strings are NOT bencode,
    unless liberal_istream (used only to classify the known istream finding). Returns
    (tree, newpos)."""
    if depth > 2000:
        raise NoParse
    if pos >= len(s):
        raise NoParse
    c = s[pos:pos + 1]

    def number(p, signed):
        q = p
        if liberal_istream:
            while q < len(s) and s[q] in b" \t\n\v\f\r":
                q += 1
        neg = False
        if q < len(s) and s[q:q + 1] == b"-" and (signed or liberal_istream):
            neg = True
            q += 1
        elif liberal_istream and q < len(s) and s[q:q + 1] == b"+":
            q += 1
        d0 = q
        while q < len(s) and 48 <= s[q] <= 57:
            q += 1
        if q == d0:
            raise NoParse
        v = int(s[d0:q])
        if neg:
            if not liberal_istream and s[d0] == 48:
                raise NoParse  # -0, -0123
            v = -v
        return v, q

    if c == b"i":
        v, q = number(pos + 1, True)
        if s[q:q + 1] != b"e":
            raise NoParse
        return v, q + 1
    if c == b"l":
        out = []
        q = pos + 1
        while True:
            if q >= len(s):
                raise NoParse
            if s[q:q + 1] == b"e":
                return out, q + 1
            v, q = ref_decode(s, q, depth + 1, liberal_istream)
            out.append(v)
    if c == b"d":
        d = {}
        q = pos + 1
        while True:
            if q >= len(s):
                raise NoParse
            if s[q:q + 1] == b"e":
                return ("M", sorted(d.items())), q + 1
            if not liberal_istream and not (48 <= s[q] <= 57):
                raise NoParse
            k, q = ref_string(s, q, number, liberal_istream)
            v, q = ref_decode(s, q, depth + 1, liberal_istream)
            d[k] = v
    if 48 <= s[pos] <= 57:
        return ref_string(s, pos, number, liberal_istream)
    raise NoParse


def ref_string(s, pos, number, liberal):
    n, q = number(pos, False)
    if liberal and n < 0:
        n = n % 2**32
    if s[q:q + 1] != b":":
        raise NoParse
    if q + 1 + n > len(s):
        raise NoParse
    return s[q + 1:q + 1 + n], q + 1 + n


def parse_result_tree(toks, i=0):
    k = toks[i]
    if k == "I":
        return int(toks[i + 1]), i + 2
    if k == "S":
        return (bytes.fromhex(toks[i + 1]) if toks[i + 1] != "-" else b""), i + 2
    if k == "L":
        n = int(toks[i + 1])
        i += 2
        out = []
        for _ in range(n):
            v, i = parse_result_tree(toks, i)
            out.append(v)
        return out, i
    if k == "M":
        n = int(toks[i + 1])
        i += 2
        out = []
        for _ in range(n):
            key = bytes.fromhex(toks[i]) if toks[i] != "-" else b""
            v, i = parse_result_tree(toks, i + 1)
            out.append((key, v))
        return ("M", out), i
    raise ValueError(k)


# ------------------------------------------------------------------ generators

def rand_bytes(r, n):
    return bytes(r.choice((0, 0xff, 0x3a, 0x65, 0x30, r.randrange(256), r.randrange(97, 123))) for _ in range(n))


def rand_int(r):
    return r.choice((0, 1, -1, 9, 10, -10, INT64_MAX, INT64_MIN, INT64_MAX - 1, INT64_MIN + 1,
                     10**18, -10**18, 922337203685477580, r.randrange(-1000, 1000), r.randrange(INT64_MIN, INT64_MAX)))


def rand_key(r):
    base = r.choice((b"", b"a", b"ab", b"a\x00", b"b", b"\xff", b"info", b"piece length"))
    return base + rand_bytes(r, r.choice((0, 0, 0, 1, 2)))


def rand_tree(r, depth):
    k = r.random()
    if depth <= 0 or k < 0.3:
        return rand_int(r) if r.random() < 0.5 else rand_bytes(r, r.choice((0, 1, 2, 3, 9, 10, 11, 99, 100, 101, r.randrange(0, 40))))
    if k < 0.65:
        return [rand_tree(r, depth - 1) for _ in range(r.choice((0, 1, 2, 3, 5)))]
    n = r.choice((0, 1, 2, 3, 4))
    ents = [(rand_key(r), rand_tree(r, depth - 1)) for _ in range(n)]
    if r.random() < 0.8:  # mostly unique sorted keys; the rest exercises normalisation
        ents = sorted(dict(ents).items())
    return ("M", ents)


def nest(kind, depth, leaf):
    t = leaf
    for _ in range(depth):
        t = [t] if kind == "l" else ("M", [(b"k", t)])
    return t


def raw_nest(open_, n, leaf=b"i1e"):
    return open_ * n + leaf + b"e" * n


def mutations(r, enc):
    out = []
    n = len(enc)
    if n == 0:
        return out
    for _ in range(6):
        b = bytearray(enc)
        m = r.randrange(7)
        p = r.randrange(n)
        if m == 0:
            b[p] = r.choice(b"ilde:-0123456789 +\x00\xff")
        elif m == 1:
            del b[p]
        elif m == 2:
            b.insert(p, r.choice(b"ilde:-09 +"))
        elif m == 3:  # blow up a digit run
            b[p:p] = b"9" * r.choice((1, 9, 10, 17, 18, 19, 20, 21))
        elif m == 4:
            b[p:p] = r.choice((b"4294967296", b"4294967297", b"2147483648", b"2147483647", b"33554432", b"33554433",
                               b"18446744073709551616", b"9223372036854775808", b"-9223372036854775809", b"-0", b"00"))
        elif m == 5:
            q = r.randrange(n)
            b[p], b[q] = b[q], b[p]
        else:
            b = b[:p] + b"e" + b[p:]
        out.append(bytes(b))
    return out


HAND = [
    b"", b"i", b"ie", b"i-e", b"i-0e", b"i0e", b"i00e", b"i-1e", b"i+1e", b"i 1e", b"i1", b"i1x", b"i--1e",
    b"i9223372036854775807e", b"i9223372036854775808e", b"i-9223372036854775808e", b"i-9223372036854775809e",
    b"i99999999999999999999e", b"i18446744073709551616e", b"i009223372036854775807e",
    b"0:", b"1:", b"1:a", b"2:a", b"01:a", b"-0:", b":", b"4294967297:ab", b"4294967296:", b"4294967295:", b"2147483648:a",
    b"2147483647:a", b"33554432:a", b"33554433:a", b"00000000000000000002:ab", b"42949672960:",
    b"le", b"de", b"l", b"d", b"lle", b"dde", b"d1:ae", b"d1:a", b"d1:ai1e", b"d1:ai1ee", b"di1ei2ee", b"d1:b0:1:a0:e", b"d1:a0:1:a0:e",
    b"d0:0:e", b"d0:0:0:0:e", b"d -0:i1ee", b"d 1:ai1ee", b"d+1:ai1ee", b"d-1:ai1ee", b"d1:ai 5ee", b"d1:ai-0ee", b"l e", b"li1e", b"li1eei2e",
    b"d1:ad1:bi1e1:ai2eee", b"ld1:b0:1:a0:ee", b"e", b"x", b"\x00", b"\xff", b"1e", b"i1e2:ab",
]


def gen(seed, tier):
    r = random.Random(seed)
    cases = []
    stats = {"hand": 0, "E_random_tree": 0, "E_depth": 0, "D_prefix": 0, "D_mutation": 0, "D_random": 0,
             "D_depth": 0, "D_exhaustive": 0, "corpus": 0}
    cdir = os.path.join(os.path.dirname(os.path.dirname(os.path.abspath(__file__))), "corpus", "C07")
    if os.path.isdir(cdir):
        for f in sorted(os.listdir(cdir)):
            for l in open(os.path.join(cdir, f)):
                l = l.strip()
                if l and not l.startswith("#"):
                    cases.append(l)
                    stats["corpus"] += 1
    for h in HAND:
        cases.append("D " + hx(h))
        stats["hand"] += 1
    # depth boundaries: decoders 1024, skip stack 128
    for d in (1, 126, 127, 128, 129, 1021, 1022, 1023, 1024, 1025):
        for kind in "ld":
            if tier == "quick" and d > 129 and kind == "d" and d not in (1023, 1024):
                continue
            cases.append("E " + tree_line(nest(kind, d, 7)))
            stats["E_depth"] += 1
            cases.append("D " + hx(raw_nest(b"l" if kind == "l" else b"d1:k", d)))
            stats["D_depth"] += 1
    cases.append("D " + hx(b"l" * 5000))
    cases.append("D " + hx(b"d1:k" * 3000))
    cases.append("D " + hx(b"l" * 3000 + b"e" * 3000))
    stats["D_depth"] += 3
    # far beyond any depth limit, through dictionaries and mixed containers: a decoder that loses its depth count
    # on some path (e.g. resets it at every dictionary level) runs out of stack here instead of rejecting
    # (the real decoders need 1-2 KB of stack per level in the instrumented build: 12000 levels exceed the 8 MB stack)
    cases.append("D " + hx(b"d1:k" * 12000))
    cases.append("D " + hx(b"ld1:k" * 7000))
    cases.append("D " + hx(b"d1:kl" * 7000))
    stats["D_depth"] += 3
    # long strings: the stream reader reads in 64 KiB chunks, the writers flush every 1024 bytes
    for n in (1023, 1024, 1025, 2049, 65535, 65536, 65537, 131072, 131073, 200001):
        body = bytes((i * 7 + (i >> 8) * 13 + n) & 0xff for i in range(n))
        cases.append("E " + tree_line(body))
        cases.append("E " + tree_line(("M", [(b"k", [body, 5]), (body[:70000] if n > 70000 else body, b"v")])))
        stats["E_long_string"] = stats.get("E_long_string", 0) + 2
    ntrees = 400 if tier == "quick" else 4000
    for _ in range(ntrees):
        t = rand_tree(r, r.choice((1, 2, 3, 4, 6)))
        cases.append("E " + tree_line(t))
        stats["E_random_tree"] += 1
        enc = ref_encode(normalize(t))
        if len(enc) <= 64 or r.random() < 0.2:
            # every prefix (truncation at every byte), with one trailing-garbage variant
            for i in range(len(enc)):
                cases.append("D " + hx(enc[:i]))
                stats["D_prefix"] += 1
            cases.append("D " + hx(enc + b"i1e"))
            stats["D_prefix"] += 1
        for m in mutations(r, enc):
            cases.append("D " + hx(m))
            stats["D_mutation"] += 1
    # buffered writer (coq/C07/WriteBuf.v): B <K|B> <cap> <tree>. Capacities sit on the case splits of the
    # code and of the proofs: 0, 1, the encoding length -1 / exact / +1 (object_write_to_buffer overflow and the
    # "filled exactly by _c_char" path), every capacity up to the length for small trees (every flush
    # position inside digits / string bodies / between tokens), and the library's own 1024.
    rb = random.Random(seed * 7919 + 17)
    small = [0, 5, -7, INT64_MIN, b"", b"a", b"abc", [], ("M", []), [0], [[]], [b""], [5, b"ab"], [[], []],
             ("M", [(b"a", 0)]), ("M", [(b"", b"")]), ("M", [(b"k", [1, b"xy"]), (b"l", ("M", []))]),
             [10, b"0123456789", ("M", [(b"ab", -1)])]]
    for t in small:
        n = len(ref_encode(normalize(t)))
        for cap in range(0, n + 3):
            for k in "KB":
                cases.append("B %s %d %s" % (k, cap, tree_line(t)))
                stats["B_small_all_caps"] = stats.get("B_small_all_caps", 0) + 1
    for _ in range(150 if tier == "quick" else 500):   # model cost is O(|enc| * cap) per case (unary nat, list append)
        t = rand_tree(rb, rb.choice((1, 2, 3, 4)))
        n = len(ref_encode(normalize(t)))
        caps = {1, 2, 3, max(0, n - 2), max(0, n - 1), n, n + 1, 1024, rb.randrange(1, n + 2), rb.randrange(1, 20)}
        for cap in sorted(caps):
            for k in "KB":
                cases.append("B %s %d %s" % (k, cap, tree_line(t)))
                stats["B_random"] = stats.get("B_random", 0) + 1
    for n in (1023, 1024, 1025, 2049, 5000):
        body = bytes((i * 11 + n) & 0xff for i in range(n))
        t = ("M", [(b"k", [body, 5]), (body[:300], b"v")])
        ln = len(ref_encode(normalize(t)))
        for cap in (1, 7, 1023, 1024, 1025, ln - 1, ln):
            for k in "KB":
                cases.append("B %s %d %s" % (k, cap, tree_line(t)))
                stats["B_long"] = stats.get("B_long", 0) + 1
    alpha = b"ilde-019: +a"
    for _ in range(600 if tier == "quick" else 6000):
        n = r.randrange(1, 14)
        cases.append("D " + hx(bytes(r.choice(alpha) for _ in range(n))))
        stats["D_random"] += 1
    # exhaustive small scope over the structural alphabet
    ex_alpha = b"ilde-019:a"
    ex_len = 4 if tier == "quick" else 6
    for n in range(1, ex_len + 1):
        for tup in itertools.product(ex_alpha, repeat=n):
            cases.append("D " + hx(bytes(tup)))
            stats["D_exhaustive"] += 1
    stats["exhaustive_scope"] = "all strings of length <= %d over %r" % (ex_len, ex_alpha.decode())
    return cases, stats
