"""Constants of the peer-connection read side (C03) re-extracted from /repo on every run."""
ENTRIES = [
    ("c03_buffer_size", "src/protocol/protocol_base.h", r"static constexpr size_type buffer_size\s*=\s*(\d+);", "N"),
    ("c03_buffer_tmpl", "src/protocol/protocol_base.h", r"using Buffer\s*=\s*ProtocolBuffer<(\d+)>;", "N"),
    ("c03_sizeof_piece", "src/protocol/protocol_base.h", r"sizeof_piece\s*=\s*(\d+);", "N"),
    ("c03_have_body", "src/protocol/protocol_base.h", r"sizeof_have_body\s*=\s*(\d+);", "N"),
    ("c03_request_body", "src/protocol/protocol_base.h", r"sizeof_request_body\s*=\s*(\d+);", "N"),
    ("c03_piece_body", "src/protocol/protocol_base.h", r"sizeof_piece_body\s*=\s*(\d+);", "N"),
    ("c03_port_body", "src/protocol/protocol_base.h", r"sizeof_port_body\s*=\s*(\d+);", "N"),
    ("c03_ext_body", "src/protocol/protocol_base.h", r"sizeof_extension_body\s*=\s*(\d+);", "N"),
    ("c03_id_extension", "src/protocol/protocol_base.h", r"EXTENSION_PROTOCOL\s*=\s*(\d+),", "N"),
    ("c03_max_msg_len", "src/protocol/peer_connection_leech.cc",
     r"\} else if \(length > (\(1 << \d+\))\) \{\s*throw communication_error\(\"PeerConnection::read_message\(\) got an invalid message length", "N"),
    ("c03_piece_min_len", "src/protocol/peer_connection_leech.cc", r"if \(length < (\d+)\)\s*throw communication_error\(\"Received a piece message that was too short", "N"),
    ("c03_piece_hdr_sub", "src/protocol/peer_connection_leech.cc", r"m_down->read_piece\(length - (\d+)\)", "N"),
    ("c03_ext_hdr_sub", "src/protocol/peer_connection_leech.cc", r"read_start\(extension, length - (\d+),", "N"),
    ("c03_ext_limit", "src/protocol/extensions.cc", r"\(type >= FIRST_INVALID\) \|\| length > (\(1 << \d+\))\)", "N"),
    ("c03_request_len_limit", "src/protocol/peer_connection_base.cc",
     r"upload_queue->size\(\) >= ProtocolExtension::max_request_queue_size \|\|\s*p\.length\(\) > (\(1 << \d+\))", "N"),
    ("c03_max_request_queue", "src/protocol/extensions.h", r"max_request_queue_size\s*=\s*(\d+)\s*;", "N"),
    # FIRST_INVALID = number of enumerators before it (HANDSHAKE = 0, UT_PEX, UT_METADATA, FIRST_INVALID)
    ("c03_ext_first_invalid", "src/protocol/extensions.h",
     r"enum MessageType \{(\s*HANDSHAKE = 0,\s*UT_PEX,\s*UT_METADATA,\s*)FIRST_INVALID,", "N", lambda m: 3),
]
