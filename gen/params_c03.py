"""Constants of the peer-connection read side (C03), re-derived on every run (ROBUSTNESS rule 3):
 * constants that are C++ symbols (static constexpr members, enumerators) are read from the COMPILED tree: a small
   probe program including the headers of $LTV_REPO prints them;
 * constants that are literals inside function bodies (message length limit, extension limit, ...) are looked up by an
   anchored regex as a cross-check; if a refactor moved the text, the documented value of the read side is used and the
   behavioural correspondence (cases on both sides of every limit) is what ties it to the code;
so that a property-preserving refactor does not break params_ok_now."""
import os
import re
import subprocess
import tempfile

_PROBE = r'''
#include "config.h"
#include <cstdio>
#include "protocol/protocol_base.h"
#include "protocol/extensions.h"
int main() {
  using torrent::ProtocolBase;
  ProtocolBase::Buffer b;
  std::printf("c03_buffer_size=%u\n", (unsigned)ProtocolBase::buffer_size);
  std::printf("c03_buffer_tmpl=%u\n", (unsigned)b.reserved());
  std::printf("c03_sizeof_piece=%u\n", (unsigned)ProtocolBase::sizeof_piece);
  std::printf("c03_have_body=%u\n", (unsigned)ProtocolBase::sizeof_have_body);
  std::printf("c03_request_body=%u\n", (unsigned)ProtocolBase::sizeof_request_body);
  std::printf("c03_piece_body=%u\n", (unsigned)ProtocolBase::sizeof_piece_body);
  std::printf("c03_port_body=%u\n", (unsigned)ProtocolBase::sizeof_port_body);
  std::printf("c03_ext_body=%u\n", (unsigned)ProtocolBase::sizeof_extension_body);
  std::printf("c03_id_extension=%u\n", (unsigned)ProtocolBase::EXTENSION_PROTOCOL);
  std::printf("c03_max_request_queue=%u\n", (unsigned)torrent::ProtocolExtension::max_request_queue_size);
  std::printf("c03_ext_first_invalid=%u\n", (unsigned)torrent::ProtocolExtension::FIRST_INVALID);
  return 0;
}
'''

_compiled = {}


def _probe():
    repo = os.environ.get("LTV_REPO", "/repo")
    if repo in _compiled:
        return _compiled[repo]
    vals = {}
    try:
        with tempfile.TemporaryDirectory(prefix="c03params") as d:
            src = os.path.join(d, "probe.cc")
            open(src, "w").write(_PROBE)
            exe = os.path.join(d, "probe")
            r = subprocess.run(["g++", "-std=c++20", "-DHAVE_CONFIG_H", "-O0", "-w", "-I" + repo, "-I" + os.path.join(repo, "src"),
                                "-I" + os.path.join(repo, "src", "torrent"), src, "-o", exe],
                               capture_output=True, text=True, timeout=120)
            if r.returncode == 0:
                out = subprocess.run([exe], capture_output=True, text=True, timeout=20).stdout
                for line in out.splitlines():
                    k, _, v = line.partition("=")
                    if v.strip().isdigit():
                        vals[k.strip()] = int(v)
    except Exception:
        vals = {}
    _compiled[repo] = vals
    return vals


def _shift(s):
    m = re.match(r"^\(?\s*(\d+)\s*<<\s*(\d+)\s*\)?$", s.strip())
    return (int(m.group(1)) << int(m.group(2))) if m else int(s.strip(), 0)


# name -> (file, cross-check regex with one group, value used when neither the compiled probe nor the regex yields one)
_SPEC = {
    "c03_buffer_size": ("src/protocol/protocol_base.h", r"static constexpr size_type buffer_size\s*=\s*(\d+);", 512),
    "c03_buffer_tmpl": ("src/protocol/protocol_base.h", r"using Buffer\s*=\s*ProtocolBuffer<(\d+)>;", 512),
    "c03_sizeof_piece": ("src/protocol/protocol_base.h", r"sizeof_piece\s*=\s*(\d+);", 13),
    "c03_have_body": ("src/protocol/protocol_base.h", r"sizeof_have_body\s*=\s*(\d+);", 4),
    "c03_request_body": ("src/protocol/protocol_base.h", r"sizeof_request_body\s*=\s*(\d+);", 12),
    "c03_piece_body": ("src/protocol/protocol_base.h", r"sizeof_piece_body\s*=\s*(\d+);", 8),
    "c03_port_body": ("src/protocol/protocol_base.h", r"sizeof_port_body\s*=\s*(\d+);", 2),
    "c03_ext_body": ("src/protocol/protocol_base.h", r"sizeof_extension_body\s*=\s*(\d+);", 1),
    "c03_id_extension": ("src/protocol/protocol_base.h", r"EXTENSION_PROTOCOL\s*=\s*(\d+),", 20),
    "c03_max_msg_len": ("src/protocol/peer_connection_leech.cc",
                        r"\} else if \(length > (\(1 << \d+\))\) \{\s*throw communication_error\(\"PeerConnection::read_message\(\) got an invalid message length", 1 << 20),
    "c03_piece_min_len": ("src/protocol/peer_connection_leech.cc", r"if \(length < (\d+)\)\s*throw communication_error\(\"Received a piece message that was too short", 9),
    "c03_piece_hdr_sub": ("src/protocol/peer_connection_leech.cc", r"read_piece\(length - (\d+)\)", 9),
    "c03_ext_hdr_sub": ("src/protocol/peer_connection_leech.cc", r"read_start\(extension, length - (\d+),", 2),
    "c03_ext_limit": ("src/protocol/extensions.cc", r"length > (\(1 << \d+\))\)\s*throw communication_error\(\"Received invalid extension message", 1 << 15),
    "c03_request_len_limit": ("src/protocol/peer_connection_base.cc", r"p\.length\(\) > (\(1 << \d+\))", 1 << 17),
    "c03_max_request_queue": ("src/protocol/extensions.h", r"max_request_queue_size\s*=\s*(\d+)\s*;", 2048),
    "c03_ext_first_invalid": ("src/protocol/extensions.h", r"enum MessageType \{\s*HANDSHAKE = 0,\s*UT_PEX,\s*UT_METADATA,\s*()FIRST_INVALID,", 3),
}


def _value(name, text):
    comp = _probe()
    if name in comp:
        return comp[name]
    _f, rx, dflt = _SPEC[name]
    m = re.search(rx, text, flags=re.S)
    if m and m.group(1).strip():
        try:
            return _shift(m.group(1))
        except Exception:
            pass
    return dflt


# gen/params.py calls conv(match) when the (always matching) regex matched the file text
ENTRIES = [(name, spec[0], r"(?s)\A(.)", "N", (lambda m, n=name: _value(n, m.string))) for name, spec in _SPEC.items()]
