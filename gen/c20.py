"""C20 case generator + python property oracle (evaluated on the IMPLEMENTATION's output).

Case line:  pre=<hex> pad=<n> seed=<n> suf=<hex> minp=<n> priv=<0|1> | op op ...
  info dictionary = unhex(pre) ++ pad bytes (content_byte(seed, i)) ++ unhex(suf); |info| is chosen
  exactly (16384k + {-1,0,1}, tiny, random) through the length of the dummy key "x_pad".
Ops (harness/c20.cc): c<i> connect, d<i> peer closes, t 2-minute tick,
  b<i>:<item>/<item>..  one segment of extended messages: H<x..,m..,p..,s..> handshake,
  M<extid>.<msgtype>.<piece> (M2.0.p = ut_metadata request for piece p).
Normal form the harness/model need: a peer index connects at most once, b/d only after c, no d on a
peer that may be out of the read set (a batch with two or more ut_metadata requests), batch < 500 bytes."""
import glob
import hashlib
import os
import random
import re

PS = 16384
NPEERS = 6


def content_byte(seed, g):
    x = (g + 1000003 * seed) & 0xffffffff
    return (((x * 2654435761) & 0xffffffff) >> 24) ^ (x & 0xff)


_pad_cache = {}


def pad_bytes(seed, n):
    k = (seed, n)
    if k not in _pad_cache:
        if len(_pad_cache) > 64:
            _pad_cache.clear()
        _pad_cache[k] = bytes(content_byte(seed, i) for i in range(n))
    return _pad_cache[k]


def info_parts(size, priv, tag):
    """(prefix, padlen, suffix) of an info dictionary of exactly `size` bytes; None if impossible"""
    name = b"c20_" + tag.encode()
    body = b"d6:lengthi40000e4:name%d:%s12:piece lengthi16384e6:pieces60:" % (len(name), name) + bytes(60)
    if priv:
        body += b"7:privatei1e"
    base = len(body) + len(b"5:x_pad") + 1  # + final 'e'
    # base + len(str(n)) + 1 + n == size
    for d in range(1, 8):
        n = size - base - 1 - d
        if n >= 0 and len(str(n)) == d:
            return body + b"5:x_pad%d:" % n, n, b"e"
    return None


MIN_SIZE = 200


def head(size, priv, seed, minp, tag="t"):
    p = info_parts(size, priv, tag)
    if p is None:
        p = info_parts(size + 1, priv, tag)
    pre, n, suf = p
    return "pre=%s pad=%d seed=%d suf=%s minp=%d priv=%d" % (pre.hex(), n, seed, suf.hex(), minp, 1 if priv else 0)


def parse_head(h):
    kv = dict(t.split("=", 1) for t in h.split())
    info = bytes.fromhex(kv["pre"]) + pad_bytes(int(kv["seed"]), int(kv["pad"])) + bytes.fromhex(kv["suf"])
    return info, kv["priv"] == "1", int(kv["minp"])


def case(size, priv, seed, minp, ops, tag="t", notick=False):
    return head(size, priv, seed, minp, tag) + (" notick=1" if notick else "") + " | " + " ".join(ops)


ID_VALUES = ["0", "1", "2", "3", "7", "255", "256", "257", "511", "-1", "2147483648", "9223372036854775807"]
PORT_VALUES = ["0", "1", "258", "513", "6881", "65535", "65536", "65537", "-1", "7000", "7001"]


def rand_hs(r, size, allow_bad_size=False):
    f = []
    c = r.random()
    if c < 0.75:
        f.append("m" + (r.choice(ID_VALUES) if r.random() < 0.5 else str(r.randrange(1, 9))))
    if r.random() < 0.6:
        f.append("x" + (r.choice(ID_VALUES) if r.random() < 0.4 else str(r.randrange(1, 9))))
    if r.random() < 0.6:
        f.append("p" + (r.choice(PORT_VALUES) if r.random() < 0.5 else str(r.randrange(1, 65536))))
    if r.random() < 0.15:
        f.append("s" + str(size))
    elif allow_bad_size and r.random() < 0.05:
        f.append("s" + r.choice([str(size + 1), "0", "-1", str(size - 1)]))
    r.shuffle(f)
    return "H" + ",".join(f)


def rand_piece(r, size):
    n = (size + PS - 1) // PS
    c = r.random()
    if c < 0.6:
        return str(r.randrange(0, n))
    if c < 0.8:
        return str(r.choice([n - 1, n, n + 1]))
    if c < 0.9:
        # indices congruent to a valid piece modulo 2^32 (a 32-bit piece variable would serve them)
        k = r.randrange(0, n)
        return str(r.choice([(1 << 32) + k, (1 << 33) + k, -(1 << 32) + k, -((1 << 32) - k), (1 << 32)]))
    return r.choice(["-1", "4294967296", "9223372036854775807", "-9223372036854775808", "10000000000000000000"[:19], "999999"])


class Gen:
    """keeps the normal form while a random op list is built"""

    def __init__(self, r, size):
        self.r, self.size = r, size
        self.used, self.conn, self.deaf = set(), set(), set()
        self.ops = []

    def connect(self, i=None):
        free = [k for k in range(NPEERS) if k not in self.used]
        if not free:
            return False
        if i is None or i in self.used:
            i = self.r.choice(free)
        self.used.add(i)
        self.conn.add(i)
        # a third of the connections run over an MSE-negotiated RC4 stream (same model: plaintext semantics)
        self.ops.append(("e%d" if self.r.random() < 0.33 else "c%d") % i)
        return True

    def batch(self, i, items):
        if i not in self.used:
            return
        nreq = sum(1 for it in items if it.startswith("M2.0."))
        if nreq >= 2:
            self.deaf.add(i)
        s = "b%d:%s" % (i, "/".join(items))
        if sum(60 + len(it) for it in items) >= 480:
            return
        self.ops.append(s)

    def close(self, i):
        if i in self.conn and i not in self.deaf:
            self.conn.discard(i)
            self.ops.append("d%d" % i)

    def tick(self):
        self.ops.append("t")

    def client_pex(self, on):
        self.ops.append("P1" if on else "P0")

    def block(self, i, b):
        if i in self.used:
            # partial writes: small steps only for small metadata (each step is a real pump round in the harness)
            steps = [1, 3, 7, 64] if self.size <= 400 else [997, 4096, 16384]
            un = "inf" if self.r.random() < 0.6 else "drip%d" % self.r.choice(steps)
            self.ops.append("w%d:%s" % (i, "0" if b else un))


def gen_provider_sweep(r, size, priv):
    g = Gen(r, size)
    g.connect(0)
    idv = r.choice(["3", "1", "2", "255", "7"])
    g.batch(0, ["Hm" + idv + (",x1" if r.random() < 0.5 else "")])
    n = (size + PS - 1) // PS
    order = list(range(0, n + 2))
    if r.random() < 0.5:
        r.shuffle(order)
    for p in order:
        g.batch(0, ["M2.0.%d" % p])
    for _ in range(r.randrange(0, 4)):
        g.batch(0, ["M2.0." + rand_piece(r, size)])
    return g.ops


def gen_burst(r, size, priv):
    g = Gen(r, size)
    g.connect(0)
    if r.random() < 0.8:
        g.batch(0, [rand_hs(r, size)])
    for _ in range(r.randrange(1, 4)):
        k = r.choice([1, 1, 2, 2, 3, 5, 7])
        items = []
        for _ in range(k):
            c = r.random()
            if c < 0.7:
                items.append("M2.0." + rand_piece(r, size))
            elif c < 0.85:
                items.append(rand_hs(r, size))
            else:
                items.append("M%d.%s.%s" % (r.choice([0, 1, 2, 2]), r.choice(["0", "1", "2", "3", "-1"]), rand_piece(r, size)))
        g.batch(0, items)
    if r.random() < 0.5:
        for _ in range(r.randrange(1, 5)):
            g.tick()
    return g.ops


def gen_ids(r, size, priv):
    g = Gen(r, size)
    np = r.randrange(1, 3)
    for i in range(np):
        g.connect(i)
    for _ in range(r.randrange(2, 8)):
        i = r.randrange(np)
        c = r.random()
        if c < 0.45:
            g.batch(i, [rand_hs(r, size, allow_bad_size=True)])
        elif c < 0.8:
            g.batch(i, ["M2.0." + rand_piece(r, size)])
        elif c < 0.9:
            g.batch(i, ["M2.0." + rand_piece(r, size), rand_hs(r, size)])
        else:
            g.tick()
    return g.ops


def gen_pex(r, size, priv):
    g = Gen(r, size)
    for _ in range(r.randrange(4, 16)):
        c = r.random()
        if c < 0.3:
            if g.connect():
                i = g.ops[-1][1]
                if r.random() < 0.85:
                    f = ["x" + (str(r.randrange(1, 6)) if r.random() < 0.85 else r.choice(["0", "256", "257"]))]
                    if r.random() < 0.75:
                        f.append("p" + (r.choice(PORT_VALUES) if r.random() < 0.4 else str(r.randrange(1, 65536))))
                    if r.random() < 0.7:
                        f.append("m" + str(r.randrange(1, 5)))
                    g.batch(int(i), ["H" + ",".join(f)])
        elif c < 0.6:
            g.tick()
        elif c < 0.65:
            g.client_pex(r.random() < 0.7)
        elif c < 0.8 and g.conn:
            g.close(r.choice(sorted(g.conn)))
        elif c < 0.92 and g.used:
            i = r.choice(sorted(g.used))
            g.batch(i, [rand_hs(r, size)])
        elif g.used:
            i = r.choice(sorted(g.used))
            g.batch(i, ["M2.0." + rand_piece(r, size)] * r.choice([1, 1, 2]))
    g.tick()
    if r.random() < 0.5:
        g.tick()
    return g.ops


def gen_budget(r, size, priv):
    """blocked writes (send budget 0 / unlimited) around requests, handshakes and ticks"""
    g = Gen(r, size)
    np_ = r.choice([1, 1, 2])
    for i in range(np_):
        g.connect(i)
        f = ["m" + str(r.choice([1, 2, 3, 3, 7]))]
        if r.random() < 0.7:
            f.append("x" + r.choice(["0", "1", "2", "256"]))
        if r.random() < 0.6:
            f.append("p" + str(r.randrange(1, 65536)))
        g.batch(i, ["H" + ",".join(f)])
    if r.random() < 0.3:
        g.tick()
    blocked = set()
    sent = {i: 0 for i in range(np_)}
    for _ in range(r.randrange(3, 12)):
        i = r.randrange(np_)
        c = r.random()
        if c < 0.2:
            g.block(i, True)
            blocked.add(i)
        elif c < 0.4:
            g.block(i, False)
            blocked.discard(i)
        elif c < 0.8:
            k = r.choice([1, 1, 1, 2, 3])
            if sent[i] + k > 8:
                continue
            sent[i] += k
            items = []
            for _ in range(k):
                items.append("M2.0." + rand_piece(r, size) if r.random() < 0.85 else rand_hs(r, size))
            g.batch(i, items)
        elif c < 0.95:
            g.tick()
            sent = {j: 0 for j in sent}
        else:
            g.batch(i, [rand_hs(r, size)])
    for i in sorted(blocked):
        g.block(i, False)
    if r.random() < 0.6:
        g.tick()
    return g.ops


def gen_unit(r, big):
    """unit-level do_peer_exchange rounds with more than 200 listed peers (the capped branch)"""
    ops, live = [], set()
    n0 = r.choice([150, 199, 200, 201, 205, 230, 260])
    ops.append("A0-%d:%d" % (n0 - 1, r.choice([1, 1000, 6000])))
    live |= set(range(n0))
    ops.append("x")
    nxt = 300
    for _ in range(r.randrange(2, 6 if not big else 10)):
        c = r.random()
        if c < 0.45 and live:
            lo = r.choice(sorted(live))
            hi = lo + r.randrange(0, 40)
            ops.append("R%d-%d" % (lo, hi))
            live -= set(range(lo, hi + 1))
        elif c < 0.9:
            k = r.randrange(1, 60)
            base = r.choice([0, 1, 1000, 6000]) if r.random() < 0.2 else r.choice([1, 1000])
            ops.append("A%d-%d:%d" % (nxt, nxt + k - 1, base))
            live |= set(range(nxt, nxt + k))
            nxt += k + r.randrange(0, 5)
        ops.append("x")
        if r.random() < 0.3:
            ops.append("x")
    return "U | " + " ".join(ops)


UNIT_HAND = [
    "U | A0-3:7000 x A10-12:0 x R1-2 x x R0-0 R3-3 x",
    "U | A0-204:1000 x R3-5 A300-310:1000 x x R0-100 x A400-450:2000 x x",
    "U | A0-250:1 x R10-30 x A260-300:1 x R0-5 x",
    # three rounds over the cap (red-team seed 3: the re-sort of m_ut_pex_list in the capped branch)
    "U | A100-320:1000 x A0-20:1000 x R150-160 x A400-405:1000 x R0-3 x x",
]


def unit_oracle(case, impl):
    viol = []
    if "ERR:" in impl or impl.startswith("CRASH") or impl in ("MISSING", "BADCASE"):
        return [("crash", "implementation outcome %s" % impl[:120])]
    live = {}
    prev_lst = []
    outs = impl.split(" ; ")
    k = 0
    for op in case.split("|", 1)[1].split():
        if op[0] in "AR":
            rng, _, base = op[1:].partition(":")
            lo, hi = [int(x) for x in rng.split("-")]
            for p in range(lo, min(hi, 4095) + 1):
                if op[0] == "A":
                    if p not in live:
                        live[p] = 0 if not base or base == "0" else (int(base) + p) & 0xffff
                else:
                    live.pop(p, None)
        elif op == "x":
            if k >= len(outs):
                break
            seg = outs[k]
            k += 1
            conn = {"%d:%d" % (p, port) for p, port in live.items() if port != 0}

            def ents(t):
                return [] if t in (".", "-", "") else t.split(",")
            m = re.search(r"list=(\S+) ini=(\S+) del=(\S+)", seg)
            if not m:
                viol.append(("crash", "unparsable round output"))
                break
            lst = ents(m.group(1))
            for name, buf in (("initial", m.group(2)), ("delta", m.group(3))):
                if buf == "-":
                    continue
                a, _, d = buf.partition("/")
                for e in ents(a):
                    if e not in conn:
                        viol.append(("pex-added-not-connected", "round %d: %s message lists %s as added, not a connected peer with that listen port" % (k, name, e)))
                for e in ents(d):
                    if e in conn:
                        viol.append(("pex-dropped-connected", "round %d: %s message reports the connected peer %s as dropped" % (k, name, e)))
            for e in lst:
                if e not in conn:
                    viol.append(("pex-list-not-connected", "round %d: m_ut_pex_list keeps %s which is not connected" % (k, e)))
            # exact delta (theorems pex_dropped_exact / pex_added_exact): dropped = previous list minus the connected peers,
            # added = connected peers that were not listed (a subset of them when the round is over the 200 cap)
            dm = m.group(3)
            da, _, dd = dm.partition("/") if dm != "-" else ("", "", "")
            got_added, got_dropped = set(ents(da)), set(ents(dd))
            exp_dropped = {e for e in prev_lst if e not in conn}
            exp_added = conn - set(prev_lst)
            if got_dropped != exp_dropped:
                viol.append(("pex-dropped-inexact", "round %d: delta 'dropped' is %s, the listed entries without a connected peer are %s" % (
                    k, sorted(got_dropped)[:4], sorted(exp_dropped)[:4])))
            if not got_added <= exp_added or (len(conn) <= 200 and got_added != exp_added):
                viol.append(("pex-added-inexact", "round %d: delta 'added' is %s, the connected peers not yet listed are %s" % (
                    k, sorted(got_added)[:4], sorted(exp_added)[:4])))
            if len(lst) != len(set(lst)):
                viol.append(("pex-list-duplicate", "round %d: m_ut_pex_list has a repeated entry" % k))
            prev_lst = lst
            if len(lst) > 200:
                viol.append(("pex-list-over-cap", "round %d: m_ut_pex_list has %d entries" % (k, len(lst))))
    seen, out = set(), []
    for kk, t in viol:
        if kk not in seen:
            seen.add(kk)
            out.append((kk, t))
    return out


def gen_malformed(r, size, priv):
    g = Gen(r, size)
    g.connect(0)
    if r.random() < 0.5:
        g.connect(1)
    for _ in range(r.randrange(1, 6)):
        i = r.choice(sorted(g.used))
        c = r.random()
        if c < 0.3:
            g.batch(i, ["M%d.%s.%s" % (r.choice([3, 4, 20, 255, 0, 1]), r.choice(["0", "1", "2"]), rand_piece(r, size))])
        elif c < 0.5:
            g.batch(i, ["H" + r.choice(["s0", "s-1", "s%d" % (size + 1), "s%d" % size, "m1,s1", ""])])
        elif c < 0.7:
            g.batch(i, ["M2.%s.%s" % (r.choice(["3", "-1", "256", "1", "2"]), rand_piece(r, size))])
        elif c < 0.85:
            g.batch(i, ["M2.0." + rand_piece(r, size)])
        else:
            g.tick()
    return g.ops


HAND = [
    # (size, priv, minp, ops)
    (32768, True, 40, "c0 b0:Hm3,x1,p7000 b0:M2.0.0 b0:M2.0.1 b0:M2.0.2 b0:M2.0.0/M2.0.1 b0:M2.0.0 t t t t"),
    (32773, True, 40, "c0 b0:Hm3 b0:M2.0.0 b0:M2.0.1 b0:M2.0.2 b0:M2.0.3 b0:M2.0.-1 b0:M2.0.0/Hm9/M2.0.1/M2.0.2 b0:M2.0.0"),
    (20000, False, 40, "c0 b0:Hm3,x1,p7000 t c1 b1:Hm2,x5 t d0 t t c2 b2:Hx9 t t t"),
    (20000, False, 40, "c0 b0:Hx0,m0 b0:M2.0.0 t c1 b1:Hx256,m257,p65536 b1:M2.0.0 t b1:Hx0 t b1:Hx4 t"),
    (16384, False, 40, "c0 b0:M2.0.0 b0:M2.0.0/M2.0.0 t t t t"),
    (16383, False, 40, "c0 b0:Hx1 b0:M2.0.0 b0:M1.0.0 b0:M2.1.0 b0:M2.2.0 b0:M2.3.0 b0:M0.0.0 b0:M2.0.0 b0:M3.0.0 c1 b1:Hs5 c2 b2:Hs16383,m1 b2:M2.0.0"),
    (16385, False, 2, "c0 c1 c2 b0:Hx1,m1,p1 b1:Hx1,m1,p2 b2:Hx1,m1,p3 t t d1 t t d0 d2 t c3 b3:Hx1,p513 t t"),
    (16385, False, 4, "c0 c1 c2 c3 b0:Hx1,m1,p1 b1:Hx1,m1,p2 b2:Hx1,m1,p3 t c4 b4:Hx2 t t d1 d2 d3 d4 t t t"),
    (49152, False, 40, "c0 b0:Hm1 b0:M2.0.0 b0:M2.0.1 b0:M2.0.2 b0:M2.0.3"),
    (65536, True, 40, "c0 b0:Hm1 b0:M2.0.3 b0:M2.0.4 b0:M2.0.2"),
    (81920, True, 40, "c0 b0:Hm1 b0:M2.0.4 b0:M2.0.5"),
    (300, False, 40, "c0 b0:Hm1,p258 b0:M2.0.0 b0:M2.0.1 t c1 b1:Hx1,p513 t b0:Hp1 t t"),
    (16385, False, 1, "c0 b0:Hx1,p9 t c1 b1:Hx1,p8 t t d0 d1 t t c2 b2:Hx3 t"),
    # repaired tree: three requests in one segment (the third waits in the protocol buffer)
    (300, True, 40, "c0 b0:Hm3 b0:M2.0.0/M2.0.0/M2.0.0 t"),
    # in flight + pending + waiting: up_extension's read_done cannot proceed
    (300, True, 40, "c0 b0:Hm3 w0:0 b0:M2.0.0 b0:M2.0.0 b0:M2.0.0 w0:inf"),
    # PEX_DO with ut_pex id 0 while a write is in flight: send_pex_message returns true without writing
    (300, False, 40, "c0 b0:Hm3,x0 w0:0 b0:M2.0.0 b0:M2.0.0 t w0:inf b0:M2.0.0 t"),
    (300, False, 40, "c0 b0:Hm3,x1,p7000 t w0:0 c1 b1:Hx2,p5 t t w0:inf t d1 t"),
    (300, False, 40, "c0 b0:Hm3 w0:0 b0:M2.0.0 b0:Hm0 w0:inf b0:M2.0.0 b0:Hm4 b0:M2.0.0"),
    (300, False, 40, "c0 b0:Hm3 w0:0 b0:M2.0.0 b0:M2.0.0/Hm0 w0:inf b0:Hm5 b0:M2.0.0"),
    # RC4 streams: replies, shared (not owned) PEX buffers, partial writes of an encrypted message
    (40000, False, 40, "e0 b0:Hm3,x1,p7000 b0:M2.0.0 b0:M2.0.1 b0:M2.0.2 t c1 b1:Hx2,p5 t"),
    (40000, False, 40, "e0 b0:Hm3,x1,p7000 w0:0 b0:M2.0.0/M2.0.1/M2.0.2 w0:drip997 t e1 b1:Hx2,p5,m1 w0:0 w1:0 t b1:M2.0.2 w0:drip4096 w1:drip509 t"),
    (300, True, 40, "c0 b0:Hm3 w0:0 b0:M2.0.0/M2.0.0 w0:drip1"),
    # the client applies its PEX setting: a private torrent must stay silent (DownloadInfo::set_pex_enabled's guard)
    (300, True, 40, "P1 c0 b0:Hm3,x1,p7000 t c1 b1:Hx2,p5 t P0 P1 c2 b2:Hx3,p9 t t"),
    (300, False, 40, "P0 c0 b0:Hm3,x1,p7000 t P1 c1 b1:Hx2,p5 t t P0 t c2 b2:Hx3,p9 t P1 t t"),
    # piece indices congruent to a valid piece modulo 2^32 must be rejected (round-3 seed 1)
    (40000, True, 40, "c0 b0:Hm3 b0:M2.0.4294967296 b0:M2.0.4294967297 b0:M2.0.8589934594 b0:M2.0.-4294967295 b0:M2.0.-4294967294 b0:M2.0.1"),
    (16384, True, 40, "c0 b0:Hm3 b0:M2.0.4294967296 b0:M2.0.-4294967296 b0:M2.0.0"),
    # a ut_pex message still in flight (peer not accepting bytes) when PEX is switched off for that connection
    # at the next tick: do_peer_exchange must copy the shared buffer before clearing it
    (300, False, 4, "c0 b0:Hx1,p1 c1 b1:Hx1,p2 c2 b2:Hx1,p3 t w0:0 b2:Hp9 t c3 b3:Hx1,p4 t w0:inf t"),
    (300, False, 4, "e0 b0:Hx1,p1 c1 b1:Hx1,p2 c2 b2:Hx1,p3 t w0:0 b2:Hp9 t c3 b3:Hx1,p4 t w0:drip3 t"),
    (300, False, 40, "e0 b0:Hm3,x1,p7000 t w0:0 e1 b1:Hx2,p5 b0:M2.0.0/M2.0.0 t w0:drip7 t"),
]


# start-up window (no tick yet): a private torrent must not advertise ut_pex, must not count the connection
# in size_pex, and must not take peers from incoming ut_pex messages (round-3 seed 3)
STARTUP_HAND = [
    (300, True, 40, "c0 b0:Hm3,x1,p7000 b0:X7f0000c81e61 c1 b1:Hx2,p5 b1:X7f0000c91e617f0000ca1e62 t b0:X7f0000cb1e63 t"),
    (300, True, 40, "e0 b0:Hx1,p7000/X7f0000c81e61 t t"),
    (300, True, 40, "P1 c0 b0:Hx1,p7 b0:X7f0000c81e61 t"),
    (300, False, 40, "c0 b0:Hm3,x1,p7000 c1 b1:Hx2,p5 t t"),
    (300, False, 40, "P0 c0 b0:Hm3,x1,p7000 t P1 c1 b1:Hx2,p5 t t"),
]


def gen_startup(r, size, priv):
    g = Gen(r, size)
    if r.random() < 0.3:
        g.client_pex(r.random() < 0.7)
    for _ in range(r.randrange(2, 9)):
        c = r.random()
        if c < 0.35:
            if g.connect():
                i = int(g.ops[-1][1])
                g.batch(i, ["H" + ",".join(["x%d" % r.randrange(1, 6), "p%d" % r.randrange(1, 65536)] + (["m3"] if r.random() < 0.5 else []))])
        elif c < 0.6 and g.used and priv:
            i = r.choice(sorted(g.used))
            ents = "".join("7f0000%02x%04x" % (200 + r.randrange(0, 50), r.randrange(1, 65536)) for _ in range(r.randrange(1, 4)))
            g.batch(i, ["X" + ents])
        elif c < 0.8:
            g.tick()
        elif g.used:
            g.batch(r.choice(sorted(g.used)), ["M2.0." + rand_piece(r, size)])
    g.tick()
    return g.ops


def exhaustive_small(seed):
    """thorough tier: every op list of length <= 3 over a small alphabet after 'c0' (size 16384, non private)
    and length <= 2 for a two-peer alphabet"""
    out = []
    alpha = ["b0:Hm1,x1,p5", "b0:Hx0", "b0:M2.0.0", "b0:M2.0.1", "b0:M2.0.0/M2.0.0", "t", "c1", "b0:Hm0/M2.0.0"]
    for a in alpha:
        for b in alpha:
            for c in alpha:
                ops = ["c0", a, b, c]
                if ops.count("c1") > 1:
                    continue
                out.append(case(16384, False, seed % 7, 40, ops, tag="e"))
    return out


# ------------------------------------------------------------------------------------------------
# fetcher side (harness/c20f.cc): magnet download, scripted honest / lying providers

F_HAND = [
    (300, "c0:m1,s300 p0:0:ok t"),
    (40000, "c0:m3,s40000 p0:0:ok p0:1:ok p0:2:ok t"),
    (40000, "c0:m3,s40000 p0:2:ok p0:0:ok p0:1:ok"),
    (40000, "c0:m3,s40000 p0:0:bad p0:1:ok p0:2:ok t p0:0:ok p0:1:ok p0:2:ok t"),
    (40000, "c0:m3,s40000 p0:0:long p0:0:ok p0:1:short p0:1:ok p0:2:tot5"),
    (40000, "c0:m3,s40000 p0:0:ok p0:0:ok p0:1:ok p0:5:ok p0:2:ok"),
    (40000, "c0:m3,s40000 j0:0 p0:1:ok p0:2:ok t p0:0:ok t t"),
    (40000, "c0:m3,s39999 p0:0:ok p0:1:ok p0:2:len7231"),
    (40000, "c0:m3,s40001 p0:0:ok p0:1:ok p0:2:ok"),
    (40000, "c0:m3,s40000 c1:m4,s40000 p0:0:bad p1:1:ok p0:2:ok p1:0:ok p0:1:ok t p0:0:ok p1:0:ok t"),
    (300, "c0:m3,s0 c1:m3,s-1 c2:m3,s67108865"),
    (300, "c0:m0,s300 t c1:s300 t c2:m5 t h2:m5,s299 t"),
    (16384, "c0:m2,s16384 p0:0:ok"),
    (32768, "c0:m2,s32768 p0:1:ok p0:0:ok"),
    (300, "c0:m256,s300 t h0:m7 t p0:0:ok"),
    # the peer asks US (a magnet download rejects); requests split across TCP segments: header / body in
    # different read events, then more requests (round-2 seed 3: the reply must still be scheduled)
    (40000, "c0:m3,s40000 q0:0 q0:1,2,3 q0:0:split11 q0:1,2 q0:5:split3 q0:1,2:split40 q0:7"),
    (300, "c0:m0,s300 q0:0 h0:m4 q0:1:split20 q0:2"),
    (40000, "c0:m3,s40000 q0:0:split11 q0:1 q0:2"),
    (40000, "c0:m3,s40000 q0:0:split5 q0:1,2:split7 q0:3:split33 q0:4,5,6"),
]


def fcase(size, ops, seed=7):
    return "F " + head(size, False, seed, 40, "f") + " | " + ops


def gen_fetcher(r, size):
    n = (size + PS - 1) // PS
    ops = []
    np_ = r.choice([1, 1, 2, 3])
    liar_size = r.random() < 0.2
    for i in range(np_):
        f = []
        c = r.random()
        f.append("m" + (str(r.randrange(1, 9)) if c < 0.8 else r.choice(["0", "256", "-1", "255"])))
        sz = size
        if liar_size and i == 0:
            sz = r.choice([size - 1, size + 1, size + PS, max(1, size - PS), 1])
        if r.random() < 0.9:
            f.append("s%d" % sz)
        ops.append("c%d:%s" % (i, ",".join(f)))
    kinds = ["ok"] * 6 + ["bad", "short", "long", "len0", "tot1", "tot%d" % (size + 5)]
    for _ in range(r.randrange(n, 3 * n + 4)):
        i = r.randrange(np_)
        c = r.random()
        if c < 0.8:
            p = r.randrange(0, n) if r.random() < 0.9 else r.choice([n, n + 1, 99999])
            ops.append("p%d:%d:%s" % (i, p, r.choice(kinds)))
        elif c < 0.84:
            ops.append("j%d:%d" % (i, r.randrange(0, n + 1)))
        elif c < 0.9:
            k = r.choice([1, 1, 2, 3])
            q = "q%d:%s" % (i, ",".join(str(r.choice([0, 1, n, 5, -1, 99999])) for _ in range(k)))
            if r.random() < 0.6:
                q += ":split%d" % r.choice([1, 3, 4, 5, 6, 7, 11, 20, 33, 40, 45])
            ops.append(q)
        elif c < 0.95:
            ops.append("t")
        else:
            ops.append("h%d:m%s" % (i, r.choice(["0", "3", "9"])))
    # an honest tail so that completion is exercised after lies
    if r.random() < 0.6:
        ops.append("t")
        order = list(range(n))
        r.shuffle(order)
        for p in order:
            ops.append("p%d:%d:ok" % (r.randrange(np_), p))
    return " ".join(ops)


def gen_f(seed, tier):
    r = random.Random(seed * 7919 + 13)
    cases = [fcase(size, ops) for size, ops in F_HAND]
    for _ in range(60 if tier != "thorough" else 300):
        c = r.random()
        size = PS * r.randrange(1, 4) + r.choice([-1, 0, 1]) if c < 0.5 else r.randrange(MIN_SIZE, 3 * PS)
        cases.append(fcase(size, gen_fetcher(r, size), seed=r.randrange(1, 1000)))
    return cases


C_SNAP = re.compile(r"C(\d)\[([^\]]*)\]")
J_RE = re.compile(r"J(\d)\(id=(\d+),piece=(-?\d+)\)")
F_SNAP = re.compile(r"F\[size=(\d+) chunk=(\d+) done=(\d) have=(\d+) file=(\S+)\]")
Q_RE = re.compile(r"Q(\d)\(id=(\d+),piece=(-?\d+)\)")


def single_provider(case):
    """only peer 0 acts in the case: the class compared with the executable fetcher model"""
    return all(op == "t" or op[1] == "0" for op in case.split("|", 1)[1].split())


def fetch_compare_prefix(case, text):
    """the part of a fetcher output that is compared with the model: everything up to and including
    the first 2-minute tick (the RequestList's stall handling on a tick changes which requests are
    outstanding; that is delegator/RequestList territory and not modelled)"""
    ops = case.split("|", 1)[1].split()
    segs = text.split(" ; ")
    k = len(segs)
    if "t" in ops:
        k = min(k, ops.index("t") + 1)
    return " ; ".join(x.replace(" !hashfail", "") for x in segs[:k])


def fetch_cut(case, model_text):
    """number of leading op segments that are compared: up to the first tick, and up to the first failed hash of the
    assembled metadata (whether the provider is kept or dropped afterwards is the transfer list's bad-peer policy,
    which the property does not constrain)"""
    ops = case.split("|", 1)[1].split()
    segs = model_text.split(" ; ")
    k = len(segs)
    if "t" in ops:
        k = min(k, ops.index("t") + 1)
    for j, x in enumerate(segs):
        if "!hashfail" in x:
            k = min(k, j + 1)
            break
    return k


def fetch_model_input(case, impl):
    """the case with the delegator oracle attached: op@<peer>:<block>,... = the requests the
    implementation wrote during that op (taken from its own output)"""
    head_, ops = case.split("|", 1)
    segs = impl.split(" ; ")
    out = []
    for k, op in enumerate(ops.split()):
        seg = segs[k] if k < len(segs) else ""
        reqs = ",".join("%s:%s" % (m.group(1), m.group(3)) for m in Q_RE.finditer(seg.split("#")[0]))
        out.append(op + "@" + reqs)
    return head_ + "| " + " ".join(out)


def oracle_f(case, impl):
    """magnet_completes_only_verified + ext ids of the requests, on the implementation's output"""
    viol = []
    if impl == "HANG":
        return [("hang", "the implementation did not finish this case within the per-case watchdog (30 s)")]
    if "ERR:" in impl or impl.startswith("CRASH") or impl in ("MISSING", "BADCASE"):
        return [("crash", "implementation outcome %s" % impl[-160:])]
    info, _, _ = parse_head(case[2:].split("|")[0])
    want = "%d:%s" % (len(info), hashlib.md5(info).hexdigest())
    adv = {}
    for seg in impl.split(" ; "):
        opname = seg.split(" => ")[0].strip()
        if opname[:1] in "ch":
            i = int(opname[1])
            for f in opname[3:].split(","):
                if len(f) >= 2 and f[0] == "m":
                    adv.setdefault(i, []).append(int(f[1:]))
        # reads_resume on the metadata connection: at quiescence a connection is in the read set with nothing
        # pending, and every request of the peer got its reply
        for m in C_SNAP.finditer(seg):
            kv = dict(t.split("=", 1) for t in m.group(2).split() if "=" in t)
            if kv.get("rd") == "0" and kv.get("pend", "0") == "0":
                viol.append(("read-suspended-forever", "after '%s' metadata connection %s is out of the read set with nothing pending" % (opname, m.group(1))))
            if kv.get("pend") == "1" and kv.get("wr") == "0":
                viol.append(("pending-not-scheduled", "after '%s' metadata connection %s has a reply pending but is not in the write set%s" % (
                    opname, m.group(1), " nor in the read set: the peer is unread and unanswered" if kv.get("rd") == "0" else "")))
        if opname[:1] == "q":
            i = int(opname[1])
            conn_alive = ("C%d[" % i) in seg
            valid_now = [v for v in adv.get(i, [])[-1:] if 0 < v < 256]
            asked = [x for x in opname[3:].split(":")[0].split(",") if x]
            got = [m.group(3) for m in J_RE.finditer(seg) if int(m.group(1)) == i]
            if conn_alive and valid_now and len(got) != len(asked):
                viol.append(("request-unanswered", "after '%s' the peer's %d ut_metadata request(s) got %d repl(y/ies)" % (opname, len(asked), len(got))))
        for m in J_RE.finditer(seg):
            i, eid = int(m.group(1)), int(m.group(2))
            valid = [v for v in adv.get(i, []) if 0 < v < 256]
            if eid == 0 or eid not in valid:
                viol.append(("ext-id-not-advertised", "after '%s' a ut_metadata reject was written with id %d to peer %d which advertised ut_metadata=%s" % (opname, eid, i, adv.get(i))))
        for m in Q_RE.finditer(seg):
            i, eid = int(m.group(1)), int(m.group(2))
            valid = [v for v in adv.get(i, []) if 0 < v < 256]
            if eid == 0 or eid not in valid:
                viol.append(("ext-id-not-advertised",
                             "after '%s' a ut_metadata REQUEST was written with id %d to peer %d which advertised ut_metadata=%s" % (opname, eid, i, adv.get(i))))
        if seg.startswith("same=") and seg != "same=1":
            viol.append(("magnet-different-torrent",
                         "the Download loaded from the fetched metadata differs from the one the original info dictionary gives: %s" % seg[:300]))
        m = F_SNAP.search(seg)
        if m and m.group(3) == "1" and m.group(5) != want:
            viol.append(("magnet-completed-unverified",
                         "after '%s' the magnet download is done but the metadata file is %s, the info dictionary named by the magnet is %s" % (opname, m.group(5), want)))
    seen, out = set(), []
    for k, t in viol:
        if k not in seen:
            seen.add(k)
            out.append((k, t))
    return out


def gen(seed, tier):
    r = random.Random(seed)
    cases, stats = [], {"corpus": 0, "hand": 0, "sweep": 0, "burst": 0, "ids": 0, "pex": 0, "budget": 0, "malformed": 0, "exhaustive": 0,
                        "sizes_mod_16k": {"-1": 0, "0": 0, "+1": 0, "other": 0}, "private": 0}
    cdir = os.path.join(os.path.dirname(os.path.dirname(os.path.abspath(__file__))), "corpus", "C20")
    for f in sorted(glob.glob(os.path.join(cdir, "*.case"))):
        for line in open(f):
            line = line.strip()
            if line and not line.startswith("#"):
                cases.append(line)
                stats["corpus"] += 1
    for size, priv, minp, ops in HAND:
        cases.append(case(size, priv, 7, minp, ops.split(), tag="h"))
        stats["hand"] += 1
    big = tier == "thorough"
    kmax = 5 if big else 3

    def pick_size():
        c = r.random()
        if c < 0.6:
            k = r.randrange(1, kmax + 1)
            return PS * k + r.choice([-1, 0, 0, 1])
        if c < 0.75:
            return r.randrange(MIN_SIZE, 400)
        return r.randrange(MIN_SIZE, PS * kmax)

    plan = [("sweep", gen_provider_sweep, 60 if not big else 200), ("burst", gen_burst, 70 if not big else 300),
            ("ids", gen_ids, 90 if not big else 400), ("pex", gen_pex, 130 if not big else 600),
            ("budget", gen_budget, 110 if not big else 500),
            ("malformed", gen_malformed, 40 if not big else 150)]
    # every boundary size once with a full sweep
    for k in range(1, kmax + 1):
        for dlt in (-1, 0, 1):
            for priv in (False, True):
                ops = gen_provider_sweep(r, PS * k + dlt, priv)
                cases.append(case(PS * k + dlt, priv, r.randrange(1, 1000), 40, ops))
                stats["sweep"] += 1
    for name, fn, n in plan:
        for _ in range(n):
            size = pick_size()
            priv = r.random() < (0.25 if name == "pex" else 0.4)
            minp = r.choice([1, 2, 2, 4, 4, 6, 40]) if name == "pex" else 40
            ops = fn(r, size, priv)
            if not ops:
                continue
            cases.append(case(size, priv, r.randrange(1, 1000), minp, ops))
            stats[name] += 1
    for size, priv, minp, ops in STARTUP_HAND:
        cases.append(case(size, priv, 7, minp, ops.split(), tag="s", notick=True))
    for _ in range(40 if not big else 200):
        priv = r.random() < 0.7
        size = r.randrange(MIN_SIZE, 400)
        cases.append(case(size, priv, r.randrange(1, 1000), 40, gen_startup(r, size, priv), notick=True))
    stats["startup_window"] = sum(1 for c in cases if " notick=1" in c)
    for u in UNIT_HAND:
        cases.append(u)
    for _ in range(25 if not big else 120):
        cases.append(gen_unit(r, big))
    stats["unit_pex_rounds"] = sum(1 for c in cases if c.startswith("U "))
    if big:
        ex = exhaustive_small(seed)
        cases += ex
        stats["exhaustive"] = len(ex)
    for c in cases:
        if c.startswith("U "):
            continue
        info, priv, _ = parse_head(c.split("|")[0])
        m = len(info) % PS
        stats["sizes_mod_16k"]["0" if m == 0 else "-1" if m == PS - 1 else "+1" if m == 1 else "other"] += 1
        stats["private"] += 1 if priv else 0
    return cases, stats


# ------------------------------------------------------------------------------------------------
# property oracle on the implementation's output line

EV_RE = re.compile(r"E(\d)\(([^)]*)\)")
SNAP_RE = re.compile(r"S(\d)\[([^\]]*)\]")


def _fields(s):
    d = {}
    for t in s.split(","):
        if "=" in t:
            k, v = t.split("=", 1)
            d[k] = v
        else:
            d[t.split(":")[0]] = t
    return d


def oracle(case, impl):
    """returns a list of (class token, text) — empty when the property holds on this output"""
    if case.startswith("U "):
        return unit_oracle(case, impl)
    viol = []
    if impl == "HANG":
        return [("hang", "the implementation did not finish this case within the per-case watchdog (30 s)")]
    if "ERR:internal" in impl:
        viol.append(("up-extension-internal-error", "an internal_error escaped the library's event loop (the client would abort) after: %s" % impl[-200:]))
    elif impl.startswith("CRASH") or "ERR:" in impl or impl in ("BADCASE", "MISSING"):
        if impl != "BADCASE":
            viol.append(("crash", "implementation outcome %s" % impl[:120]))
        return viol
    info, priv, minp = parse_head(case.split("|")[0])
    size = len(info)
    npieces = (size + PS - 1) // PS
    adv = {}       # peer -> {"m": int or None, "x": int or None}
    segs = impl.split(" ; ")
    prev_conn = {}
    hist_ids, hist_conn, valid_ports = {}, {}, {}
    requested = {}   # peer -> exact piece indices it asked for
    for seg in segs:
        opname = seg.split(" => ")[0].strip()
        evs, _, snap = seg.partition("#")
        # A message is framed (id, content) when write_prepare_extension runs; while the peer does not
        # accept bytes it stays in flight (snapshot up=B). It is judged against everything the peer
        # advertised / every connection state since the connection was last idle.
        for j in range(NPEERS):
            if prev_conn.get(j, {}).get("up", "I") == "I" or j not in hist_ids:
                a0 = adv.get(j, {"m": None, "x": None})
                hist_ids[j] = {"m": [a0["m"]], "x": [a0["x"]]}
                hist_conn[j] = [prev_conn]
        cand = hist_ids
        if opname.startswith("b"):
            for item in opname[3:].split("/"):
                if item.startswith("M2.0."):
                    requested.setdefault(int(opname[1]), set()).add(int(item[5:]))
        if opname.startswith("b"):
            i = int(opname[1])
            went_deaf = re.search(r"S%d\[[^\]]* rd=0 " % i, snap) is not None
            nreq = 0
            a = adv.setdefault(i, {"m": None, "x": None})
            for item in opname[3:].split("/"):
                if item.startswith("H"):
                    for f in item[1:].split(","):
                        if len(f) >= 2 and f[0] in "mx":
                            a[f[0]] = int(f[1:])
                            cand[i][f[0]].append(a[f[0]])
                        if len(f) >= 2 and f[0] == "p" and 1 <= int(f[1:]) <= 65535:
                            valid_ports.setdefault(i, {0}).add(int(f[1:]))
        if opname[:1] in ("c", "e"):
            adv[int(opname[1])] = {"m": None, "x": None}
        mav = re.search(r" av=(\d+)\]", snap)
        if priv and mav and mav.group(1) != "0":
            viol.append(("pex-private-takes-peers", "after '%s' the available list of a private torrent holds %s peer(s): addresses from an incoming ut_pex message were added" % (opname, mav.group(1))))
        msp = re.search(r"D\[sp=(\d+) ", snap)
        if priv and msp and msp.group(1) != "0":
            viol.append(("pex-private", "after '%s' a private torrent counts %s connection(s) as PEX-enabled (size_pex)" % (opname, msp.group(1))))
        if "UAF" in snap:
            viol.append(("pex-buffer-use-after-free", "after '%s' a connection's extension message in flight points into freed memory (shared PEX buffer cleared by do_peer_exchange): %s" % (
                opname, snap[snap.index("UAF"):snap.index("UAF") + 80])))
        conn = {}
        for m in SNAP_RE.finditer(snap):
            kv = dict(t.split("=", 1) for t in m.group(2).split() if "=" in t)
            conn[int(m.group(1))] = kv
            if "lp" in kv and int(kv["lp"]) not in valid_ports.get(int(m.group(1)), {0}):
                viol.append(("listen-port-truncated",
                             "after '%s' the library holds listen port %s for peer %s, which the peer never advertised (a 'p' outside 1..65535 is truncated to 16 bits)" % (
                                 opname, kv["lp"], m.group(1))))
            idle = kv.get("pend") == "0" and kv.get("up", "I") == "I"
            if kv.get("rd") == "0" and idle:
                viol.append(("read-suspended-forever",
                             "after '%s' connection %s is out of the read set with nothing pending to write (peer left unread)" % (opname, m.group(1))))
            elif int(kv.get("buf", "0")) > 0 and idle:
                viol.append(("buffered-message-unread",
                             "after '%s' connection %s holds %s bytes of complete unparsed messages in its protocol buffer with nothing pending; "
                             "they are only parsed when the peer sends more bytes" % (opname, m.group(1), kv.get("buf"))))
            if kv.get("pend") == "1" and kv.get("wr") == "0" and kv.get("up", "I") == "I":
                viol.append(("pending-not-scheduled",
                             "after '%s' connection %s has a reply pending but is not in the write set (nothing will write it before the next tick)" % (opname, m.group(1))))
        for m in EV_RE.finditer(evs):
            i = int(m.group(1))
            f = _fields(m.group(2))
            eid = int(f.get("id", "-1"))
            a = adv.get(i, {"m": None, "x": None})
            if priv and f.get("m::ut_pex", "0") not in ("0",) and eid == 0 and "metadata_size" in f:
                viol.append(("pex-private", "after '%s' our extension handshake to peer %d advertises ut_pex=%s for a private torrent" % (opname, i, f.get("m::ut_pex"))))
            if "BADBENCODE" in m.group(2):
                if "BADBENCODE:64383a6d73675f74797065693265" in m.group(2):     # "d8:msg_typei2e..." cut short
                    viol.append(("reject-truncated", "after '%s' peer %d received an extended message that is not bencode: %s" % (opname, i, m.group(2)[:100])))
                else:
                    viol.append(("pex-buffer-use-after-free",
                                 "after '%s' peer %d received an extended message (id %d) whose bytes are not bencode — a ut_pex message written from a shared "
                                 "buffer that do_peer_exchange had already freed: %s" % (opname, i, eid, m.group(2)[:110])))
                continue
            if "msg_type" in f:
                # ut_metadata reply
                want = a["m"]
                if eid != 0 and eid in [v for v in cand.get(i, {}).get("m", [want]) if v is not None and 0 < v < 256]:
                    pass
                elif eid == 0 or want is None or want == 0:
                    viol.append(("ext-id-not-advertised", "after '%s' a ut_metadata message was written with id %d but peer %d advertised ut_metadata=%s" % (opname, eid, i, want)))
                elif not (0 < want < 256):
                    viol.append(("ext-id-truncated", "after '%s' a ut_metadata message was written with id %d; the peer advertised the out-of-range id %d" % (opname, eid, want)))
                elif eid != want:
                    viol.append(("ext-id-mismatch", "after '%s' ut_metadata id %d written, peer advertised %d" % (opname, eid, want)))
                p = int(f["piece"])
                plen, _, pmd5 = f["pay"].partition(":")
                if f["msg_type"] == "1" and p not in requested.get(i, set()):
                    asked = sorted(x for x in requested.get(i, set()) if x % (1 << 32) == p)
                    viol.append(("metadata-served-unservable-index",
                                 "after '%s' peer %d received DATA for piece %d which it never asked for; it asked for index %s, which is not a piece of this "
                                 "%d-piece metadata and must be rejected" % (opname, i, p, asked[:3] if asked else "(none congruent)", npieces)))
                if f["msg_type"] == "1":
                    exp = info[PS * p:PS * (p + 1)] if p < npieces else None
                    ok = exp is not None and int(f.get("total_size", "-1")) == size and int(plen) == len(exp) and \
                        (pmd5 == hashlib.md5(exp).hexdigest() if exp else pmd5 == "-")
                    if not ok:
                        kl = "metadata-last-piece-multiple-16k" if (size % PS == 0 and p == npieces - 1 and int(plen) == 0) else "metadata-slice"
                        viol.append((kl, "after '%s': data reply for piece %d of a %d-byte info dictionary has total_size=%s payload %s bytes (expected %s)" % (
                            opname, p, size, f.get("total_size"), plen, "reject" if exp is None else len(exp))))
                elif f["msg_type"] == "2":
                    if p < npieces:
                        viol.append(("metadata-reject-servable", "after '%s': piece %d of %d rejected" % (opname, p, npieces)))
            elif "added" in f:
                want = a["x"]
                if eid != 0 and eid in [v for v in cand.get(i, {}).get("x", [want]) if v is not None and 0 < v < 256]:
                    pass
                elif eid == 0 or want is None or want == 0:
                    viol.append(("ext-id-not-advertised", "after '%s' a ut_pex message was written with id %d but peer %d advertised ut_pex=%s" % (opname, eid, i, want)))
                elif not (0 < want < 256):
                    viol.append(("ext-id-truncated", "after '%s' a ut_pex message was written with id %d; the peer advertised the out-of-range id %d" % (opname, eid, want)))
                elif eid != want:
                    viol.append(("ext-id-mismatch", "after '%s' ut_pex id %d written, peer advertised %d" % (opname, eid, want)))
                if priv:
                    viol.append(("pex-private", "after '%s' a ut_pex message was sent for a private torrent" % opname))
                for key in ("added", "dropped"):
                    h = f.get(key, "-")
                    raw = b"" if h == "-" else bytes.fromhex(h)
                    if len(raw) % 6:
                        viol.append(("pex-partial-entry", "after '%s' ut_pex '%s' has %d bytes" % (opname, key, len(raw))))
                    if key == "added":
                        for k in range(0, len(raw) - 5, 6):
                            e = raw[k:k + 6]
                            idx = e[3] - 2
                            port = e[4] * 256 + e[5]
                            snaps = [conn, prev_conn] + hist_conn.get(i, [])
                            good = e[:3] == b"\x7f\x00\x00" and port != 0 and \
                                any(int(sn.get(idx, {}).get("lp", -1)) == port for sn in snaps)
                            if not good:
                                viol.append(("pex-added-not-connected",
                                             "after '%s' peer %d was told 'added' %s:%d which is not a currently connected peer with that listen port" % (
                                                 opname, i, ".".join(map(str, e[:4])), port)))
        prev_conn = conn
        for j in hist_conn:
            hist_conn[j].append(conn)
    # keep one report per class
    seen, out = set(), []
    for k, t in viol:
        if k not in seen:
            seen.add(k)
            out.append((k, t))
    return out
