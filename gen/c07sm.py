"""C07 static-map part: case generators + an independent python reference for what a static-map
read may store ("denotes"). Case lines are described in ocaml/c07sm_driver.ml.

Tables: the four real ones by name (H, P, M, D — the harness instantiates the real templates, the
model uses the tables re-extracted into ParamsGen.v) and inline tables `t=<idx>.<hexkey>,...`."""
import itertools
import os
import random
import re

from gen import c07 as B   # base C07 generators / reference codec

hx = B.hx

REAL = {
    "H": [(0, b"e"), (1, b"m::ut_metadata"), (2, b"m::ut_pex"), (3, b"metadata_size"), (4, b"p"), (5, b"reqq"), (6, b"v")],
    "P": [(0, b"added*S")],
    "M": [(0, b"msg_type"), (1, b"piece"), (2, b"total_size")],
    "D": [(0, b"a::id*S"), (1, b"a::info_hash*S"), (2, b"a::port"), (3, b"a::target*S"), (4, b"a::token*S"),
          (5, b"e[]*"), (6, b"e[]*"), (7, b"q*S"), (8, b"r::id*S"), (9, b"r::nodes*S"), (10, b"r::token*S"),
          (11, b"r::values*L"), (12, b"t*S"), (13, b"v*"), (14, b"y*S")],
}
# (the python copy of the real tables is only used to aim the generator and by the oracle; the
#  `T <name>` cases compare model and implementation tables, and props/c07sm.py compares both with this copy)

SYNTH = {
    # raw kinds, lists (typed and untyped), nested dictionaries, a list inside a dictionary
    "S1": [(0, b"a::b::c"), (1, b"a::b::d*S"), (2, b"a::e[]*"), (3, b"a::e[]*"), (4, b"f*M"), (5, b"g[]"),
           (6, b"g[]"), (7, b"g[]"), (8, b"h*L"), (9, b"z")],
    # the deepest nesting 15 key characters allow: seven "::" (stack index 7), 14/15 character keys
    "S2": [(0, b"a::::::::::::::"), (1, b"b::c::d::e::f"), (2, b"k2345678901234"), (3, b"k23456789012345"),
           (4, b"m::k2345678901"), (5, b"m::k23456789012")],
    # indices that are not positions, unsorted keys, keys that are prefixes of each other, '[]' before an upper-case sibling
    "S3": [(5, b"b"), (0, b"a*"), (3, b"ab"), (1, b"abc*S"), (4, b"aB"), (2, b"a[]*S"), (6, b"c::x"), (6, b"c::x*L")],
    # nested dictionaries FIRST, then outer keys of 12..15 characters (the room left in current_key must be
    # restored when a nested dictionary ends), a second nested dictionary after long keys
    "S4": [(0, b"a::b"), (1, b"a::c::d"), (2, b"b2345678901234"), (3, b"c23456789012345"), (4, b"d234567890123"),
           (5, b"e23456789012"), (6, b"f::g2345678901"), (7, b"f::h23456789012"), (8, b"g")],
}


def tspec(tbl):
    return "t=" + ",".join("%d.%s" % (i, hx(k)) for i, k in tbl)


TABLES = dict(REAL)
TSPEC = {n: n for n in REAL}
for n, t in SYNTH.items():
    TABLES[n] = t
    TSPEC[n] = tspec(t)


def parse_key(k):
    """b'a::e[]*S' -> ([(b'a','d'), (b'e','l')], b'', 'S')   path components, leaf name, raw kind
    raw kind: None (plain), 'B' ('*' + anything else), 'S', 'L', 'M'."""
    path = []
    pos = 0
    while True:
        m = re.compile(rb"[:\[*]").search(k, pos)
        if m is None:
            return path, k[pos:], None
        e = m.start()
        if k[e:e + 2] == b"::":
            path.append((k[pos:e], "d"))
            pos = e + 2
        elif k[e:e + 2] == b"[]":
            path.append((k[pos:e], "l"))
            pos = e + 2
        elif k[e:e + 1] == b"*":
            c = k[e + 1:e + 2]
            return path, k[pos:e], {b"S": "S", b"L": "L", b"M": "M"}.get(c, "B")
        else:
            return path, k[pos:], None   # a lone ':' or '[' : only exact matches


# ------------------------------------------------------------------ span-level reference parser

class Node:
    __slots__ = ("kind", "a", "b", "items", "val")


def span_parse(s, pos=0, depth=0):
    """Liberal bencode (as gen/c07.ref_decode) keeping byte spans. kind: i, s, l, d.
    items: list elements (l) or (key bytes, value node) pairs in input order (d)."""
    if depth > 1500 or pos >= len(s):
        raise B.NoParse
    n = Node()
    n.a = pos
    c = s[pos]
    if c == 0x69:
        q = pos + 1
        neg = s[q:q + 1] == b"-"
        if neg:
            q += 1
        d0 = q
        while q < len(s) and 48 <= s[q] <= 57:
            q += 1
        if q == d0 or s[q:q + 1] != b"e" or (neg and s[d0] == 48):
            raise B.NoParse
        n.kind, n.b, n.val = "i", q + 1, int(s[pos + 1:q])
        return n
    if 48 <= c <= 57:
        q = pos
        while q < len(s) and 48 <= s[q] <= 57:
            q += 1
        ln = int(s[pos:q])
        if s[q:q + 1] != b":" or q + 1 + ln > len(s):
            raise B.NoParse
        n.kind, n.b, n.val = "s", q + 1 + ln, s[q + 1:q + 1 + ln]
        return n
    if c == 0x6c or c == 0x64:
        n.kind = "l" if c == 0x6c else "d"
        n.items = []
        q = pos + 1
        while True:
            if q >= len(s):
                raise B.NoParse
            if s[q] == 0x65:
                n.b = q + 1
                return n
            if n.kind == "d":
                if not (48 <= s[q] <= 57):
                    raise B.NoParse
                kn = span_parse(s, q, depth + 1)
                vn = span_parse(s, kn.b, depth + 1)
                n.items.append((kn.val, vn))
                q = vn.b
            else:
                en = span_parse(s, q, depth + 1)
                n.items.append(en)
                q = en.b
    raise B.NoParse


def node_tree(s, n):
    """The tree a span denotes (dup keys: last wins), in gen/c07 python form."""
    t, _ = B.ref_decode(s[n.a:n.b])
    return t


def candidates(root, path, leaf, exact=True):
    """All value nodes (or lists of element nodes) the table key path can refer to in the input:
    every occurrence of every component counts (duplicates allowed). exact=False matches keys with
    C-string semantics (input key truncated at its first NUL)."""
    def keq(k, name):
        if exact:
            return k == name
        return k.split(b"\x00", 1)[0] == name
    cur = [root]
    lists = None
    for name, kind in path:
        nxt = []
        for d in cur:
            if d.kind != "d":
                continue
            for k, v in d.items:
                if keq(k, name):
                    nxt.append(v)
        if kind == "d":
            cur = nxt
        else:
            lists = [v for v in nxt if v.kind == "l"]
            return ("list", lists)
    out = []
    for d in cur:
        if d.kind != "d":
            continue
        for k, v in d.items:
            if keq(k, leaf):
                out.append(v)
    return ("leaf", out)


def stored_matches(s, node, sv):
    """does the stored entry `sv` (parsed result: ('V', unordered, tree) | ('B'|'S'|'L'|'M', bytes)) equal
    what the span `node` denotes?  Returns True/False, and a class hint for a type mismatch."""
    kind = sv[0]
    span = s[node.a:node.b]
    if kind == "V":
        try:
            return node_tree(s, node) == sv[2]
        except (B.NoParse, RecursionError):
            return False
    if kind == "B":
        return sv[1] == span
    if kind == "S":
        return node.kind == "s" and sv[1] == node.val
    if kind == "L":
        return node.kind == "l" and sv[1] == span[1:-1]
    if kind == "M":
        return node.kind == "d" and sv[1] == span[1:-1]
    return False


def key_runs(tbl):
    """maximal runs of equal consecutive keys: [(first position, [positions])]"""
    out = []
    pos = 0
    while pos < len(tbl):
        run = [pos]
        while pos + 1 < len(tbl) and tbl[pos + 1][1] == tbl[pos][1]:
            pos += 1
            run.append(pos)
        out.append(run)
        pos += 1
    return out


def projection(tbl, s, root):
    """What a static-map read of the CANONICAL dictionary s (sorted unique keys at every level) must
    store for a well-formed sorted table: the projection of the tree s denotes onto the key table.
    Entry = None (left untouched) when the path is absent or the value has the wrong type for the
    row's kind. List rows: the t-th row of a run of equal "x[]…" keys gets the t-th element."""
    out = [None] * len(tbl)

    def child(d, name):
        if d.kind != "d":
            return None
        for k, v in d.items:
            if k == name:
                return v
        return None

    for run in key_runs(tbl):
        key = tbl[run[0]][1]
        path, leaf, raw = parse_key(key)
        node = root
        lst = None
        ok = True
        for name, kind in path:
            c = child(node, name)
            if c is None:
                ok = False
                break
            if kind == "d":
                if c.kind != "d":
                    ok = False
                    break
                node = c
            else:
                lst = c
                break
        if not ok:
            continue
        if lst is not None:
            if lst.kind != "l":
                continue
            for t, p in enumerate(run):
                if t < len(lst.items):
                    el = lst.items[t]
                    out[tbl[p][0]] = ("B", s[el.a:el.b]) if raw else ("V", False, node_tree(s, el))
            continue
        c = child(node, leaf)
        if c is None:
            continue
        span = s[c.a:c.b]
        idx = tbl[run[0]][0]
        if raw is None:
            out[idx] = ("V", False, node_tree(s, c))
        elif raw == "B":
            out[idx] = ("B", span)
        elif raw == "S":
            if c.kind == "s":
                out[idx] = ("S", c.val)
        elif raw == "L":
            if c.kind == "l":
                out[idx] = ("L", span[1:-1])
        elif raw == "M":
            if c.kind == "d":
                out[idx] = ("M", span[1:-1])
    return out


# ------------------------------------------------------------------ message construction

def leaf_value(r, raw):
    """a python tree appropriate (mostly) for the raw kind"""
    k = r.random()
    if raw == "S":
        return B.rand_bytes(r, r.choice((0, 1, 2, 6, 20, 26)))
    if raw == "L":
        return [B.rand_bytes(r, 6) for _ in range(r.choice((0, 1, 2, 3)))]
    if raw == "M":
        return ("M", sorted({B.rand_key(r): B.rand_int(r) for _ in range(r.choice((0, 1, 2)))}.items()))
    if k < 0.4:
        return B.rand_int(r)
    if k < 0.7:
        return B.rand_bytes(r, r.choice((0, 1, 3, 10)))
    return B.rand_tree(r, 2)


def wrong_value(r):
    return r.choice((5, b"", b"xy", [], [1, b"a"], ("M", []), ("M", [(b"a", 1)]), [[]], -1))


def build_message(r, tbl, present, wrong=0.0, order="sorted", extra=0, nul=False):
    """Nested python structure for the chosen table positions -> bencoded bytes.
    Structure: dict name -> ('d', sub-dict) | ('l', [values]) | ('v', value)."""
    top = {}
    for pos in present:
        idx, k = tbl[pos]
        path, leaf, raw = parse_key(k)
        d = top
        ok = True
        for name, kind in path:
            if kind == "d":
                ent = d.setdefault(name, ("d", {}))
                if ent[0] != "d":
                    ok = False
                    break
                d = ent[1]
            else:
                ent = d.setdefault(name, ("l", []))
                if ent[0] != "l":
                    ok = False
                    break
                ent[1].append(wrong_value(r) if r.random() < wrong else leaf_value(r, "B" if raw else None))
                ok = False  # leaf consumed
                break
        if ok:
            if leaf not in d:
                d[leaf] = ("v", wrong_value(r) if r.random() < wrong else leaf_value(r, raw))

    def enc_struct(d, depth):
        items = []
        for name, ent in d.items():
            if ent[0] == "d":
                if r.random() < wrong:
                    body = B.ref_encode(B.normalize(wrong_value(r)))
                else:
                    body = enc_struct(ent[1], depth + 1)
            elif ent[0] == "l":
                if r.random() < wrong:
                    body = B.ref_encode(B.normalize(wrong_value(r)))
                else:
                    body = b"l" + b"".join(B.ref_encode(B.normalize(v)) for v in ent[1]) + b"e"
            else:
                body = B.ref_encode(B.normalize(ent[1]))
            items.append((name, body))
        for _ in range(extra):
            name = r.choice((b"", b"a", b"zz", b"m", b"e", b"q", b"unknown_key", b"k234567890123456", b"A", b"aa",
                             B.rand_bytes(r, r.choice((1, 2, 14, 15, 16, 17)))))
            items.append((name, B.ref_encode(B.normalize(B.rand_tree(r, 2)))))
        if nul and items:
            j = r.randrange(len(items))
            name, body = items[j]
            items.insert(r.randrange(len(items) + 1), (name + b"\x00" + r.choice((b"", b"x", b"::")), B.ref_encode(r.choice((7, b"nul", [])))))
        if order == "sorted":
            items.sort(key=lambda kv: kv[0])
        elif order == "shuffle":
            r.shuffle(items)
        elif order == "dup" and items:
            items.sort(key=lambda kv: kv[0])
            j = r.randrange(len(items))
            items.insert(r.randrange(len(items) + 1), (items[j][0], B.ref_encode(B.normalize(wrong_value(r)))))
        return b"d" + b"".join(B.ref_encode(k) + v for k, v in items) + b"e"

    return enc_struct(top, 0)


def rand_table(r):
    """small random table over a tiny alphabet: aims at prefix / blocking / equal-key quirks"""
    names = (b"a", b"b", b"ab", b"A", b"", b"ba", b"k23456789")
    n = r.choice((1, 2, 3, 4, 6))
    keys = []
    for _ in range(n):
        k = b""
        for _ in range(r.choice((0, 0, 1, 1, 2, 3))):
            k += r.choice(names) + r.choice((b"::", b"::", b"[]"))
        k += r.choice(names) + r.choice((b"", b"", b"*", b"*S", b"*L", b"*M", b"[]", b"[]*"))
        k = k[:15]
        keys.append(k)
    if r.random() < 0.6:
        keys.sort()
    if r.random() < 0.3 and keys:
        keys.insert(r.randrange(len(keys)), r.choice(keys))
    idxs = list(range(len(keys)))
    if r.random() < 0.3:
        r.shuffle(idxs)
    if r.random() < 0.15 and len(idxs) > 1:
        idxs[0] = idxs[1]
    return list(zip(idxs, keys))


def sval_line(r, raw, mismatch=0.0):
    """one `<kind> <payload>` for a W case, type-appropriate for the raw kind unless mismatch"""
    if r.random() < mismatch:
        raw = r.choice((None, "B", "S", "L", "M"))
    if raw is None:
        return "V " + B.tree_line(leaf_value(r, None))
    if raw == "B":
        return "B " + hx(B.ref_encode(B.normalize(B.rand_tree(r, 2))))
    if raw == "S":
        return "S " + hx(B.rand_bytes(r, r.choice((0, 1, 6, 20))))
    if raw == "L":
        return "L " + hx(b"".join(B.ref_encode(B.normalize(B.rand_tree(r, 1))) for _ in range(r.choice((0, 1, 2)))))
    return "M " + hx(b"".join(B.ref_encode(k) + B.ref_encode(B.normalize(B.rand_tree(r, 1)))
                              for k in sorted({B.rand_key(r) for _ in range(r.choice((0, 1, 2)))})))


HAND = [
    ("H", b""), ("H", b"d"), ("H", b"de"), ("H", b"e"), ("H", b"le"), ("H", b"i1e"), ("H", b"dee"), ("H", b"d1:ee"),
    ("H", b"d1:ei1e"), ("H", b"d1:ei1ee"), ("H", b"d1:ei1eei2e"),
    ("H", b"d3:v\x00x1:ae"), ("H", b"d2:m\x00d6:ut_pexi1eee"), ("H", b"d1:md7:ut_pex\x00i1eee"), ("H", b"d1:md9:ut_pex\x00::i1eee"),
    ("H", b"d1:md6:ut_pexi1ee1:md11:ut_metadatai2eee"), ("H", b"d1:mi5e1:v1:ae"), ("H", b"d1:m"), ("H", b"d1:md"),
    ("H", b"d1:md6:ut_pexi1e"), ("H", b"d1:vd1:ai1ee1:v1:be"), ("H", b"d1:v1:a1:e1:be"), ("H", b"d0:i1e1:v1:ae"),
    ("H", b"d1:md0:i1e6:ut_pexi1eee"), ("H", b"d13:metadata_sizei5e14:metadata_size_i6e12:metadata_sizi7ee"),
    ("H", b"d16:aaaaaaaaaaaaaaaai1e15:aaaaaaaaaaaaaaai2e1:v1:ae"), ("H", b"d1:md13:aaaaaaaaaaaaai1e12:aaaaaaaaaaaai1e6:ut_pexi3eee"),
    ("H", b"d1:md14:ut_metadata\x00\x00\x00i1eee"), ("H", b"d4294967297:vi1ee"), ("H", b"d1:vi99999999999999999999ee"),
    ("H", b"d1:pi-0ee"), ("H", b"d1:pie"), ("H", b"d2:m:d6:ut_pexi1eee"), ("H", b"d3:m::d6:ut_pexi1eee"), ("H", b"d9:m::ut_pexi1ee"),
    ("D", b"d1:ele1:t1:ae"), ("D", b"d1:el1:ae1:el1:bee"), ("D", b"d1:el1:a1:b1:cee"), ("D", b"d1:eli1e"), ("D", b"d1:el"),
    ("D", b"d1:ed1:ai1ee1:t1:ae"), ("D", b"d1:eli1ei2ei3ei4ee1:q4:ping1:t1:a1:v1:b1:y1:qe"), ("D", b"d1:eli1e1:"),
    ("D", b"d1:t1:a1:eli1eee"), ("D", b"d1:y1:q1:t1:ae"), ("D", b"d1:rd6:valuesi5eee"), ("D", b"d1:rd6:valuesd1:ai1eeee"),
    ("D", b"d1:rd6:values0:ee"), ("D", b"d1:vi5e1:yli1eee"), ("D", b"d1:v0:e"), ("D", b"d1:vlle"), ("D", b"d1:ad2:idi5eee"),
    ("D", b"d1:ad2:id0:e1:ad4:porti1eee"), ("D", b"d3:e[]li1eee"), ("D", b"d4:e[]*i1ee"), ("D", b"d5:a::id2:xxe"),
    ("P", b"d5:added0:e"), ("P", b"d5:added6:\x01\x02\x03\x04\x05\x06e"), ("P", b"d5:addedle7:added.f1:ae"), ("P", b"d7:added*S1:ae"),
    ("P", b"d5:added"), ("P", b"d5:added1:"), ("P", b"d6:added\x001:ae"),
    ("M", b"d8:msg_typei1e5:piecei0e10:total_sizei16384ee"), ("M", b"d8:msg_typei1e5:piecei0e10:total_sizei16384eeXXXX"),
    ("M", b"d5:piecei0e8:msg_typei1ee"),
    ("S1", b"d1:ad1:bd1:ci1e1:d2:xyee1:eli1e2:ab3:zzzee1:fd1:ai1ee1:gli1ei2ei3ei4ee1:hli1ee1:zi0ee"),
    ("S1", b"d1:fi5e1:hd1:ai1eee"), ("S1", b"d1:fli5ee1:h1:xe"), ("S1", b"d1:f3:abc1:hi7ee"), ("S1", b"d1:gle1:gli1eee"),
    ("S1", b"d1:gli1ee1:gli2ee1:gli3ee1:gli4eee"), ("S1", b"d1:ad1:el1:ae1:el1:b1:c1:deee"),
    ("S2", b"d1:a" + b"d0:" * 7 + b"i1e" + b"e" * 8), ("S2", b"d1:a" + b"d0:" * 8 + b"i1e" + b"e" * 9),
    ("S2", b"d1:a" + b"d0:" * 6 + b"d1:xi1e0:i2e" + b"e" * 8), ("S2", b"d1:a" + b"d0:" * 7),
    ("S2", b"d1:bd1:cd1:dd1:ed1:fi5eeeeee"), ("S2", b"d14:k2345678901234i1e15:k23456789012345i2e16:k234567890123456i3ee"),
    ("S2", b"d1:md11:k2345678901i1e12:k23456789012i2e13:k234567890123i3eee"),
    ("S3", b"d1:ai1e2:abi2e3:abc1:x1:bi3ee"), ("S3", b"d1:bi3e1:ai1ee"), ("S3", b"d1:ali1ei2eee"), ("S3", b"d2:aBi1e1:ali2eee"),
    ("S3", b"d1:cd1:xi1eee"), ("S3", b"d1:cd1:xli1eeee"),
]


def gen(seed, tier):
    r = random.Random(seed)
    cases = []
    stats = {"corpus": 0, "tables": 0, "hand": 0, "R_valid": 0, "R_unsorted_dup_unknown": 0, "R_wrong_type": 0, "R_nul": 0,
             "R_prefix": 0, "R_mutation": 0, "R_keylen": 0, "R_deep": 0, "R_random_table": 0, "W_roundtrip": 0,
             "W_mismatch": 0, "R_exhaustive": 0, "R_after_nested": 0, "RI_dirty": 0}
    # own directory: gen/c07.py feeds every file of corpus/C07 to the base drivers
    cdir = os.path.join(os.path.dirname(os.path.dirname(os.path.abspath(__file__))), "corpus", "C07SM")
    if os.path.isdir(cdir):
        for f in sorted(os.listdir(cdir)):
            for l in open(os.path.join(cdir, f)):
                l = l.strip()
                if l and not l.startswith("#"):
                    cases.append(l)
                    stats["corpus"] += 1
    for n in ("H", "P", "M", "D", "S1", "S2", "S3", "S4"):
        cases.append("T " + TSPEC[n])
        stats["tables"] += 1
    for n, s in HAND:
        cases.append("R %s %s" % (TSPEC[n], hx(s)))
        stats["hand"] += 1
        if len(s) <= 40:
            for i in range(1, len(s)):
                cases.append("R %s %s" % (TSPEC[n], hx(s[:i])))
                stats["R_prefix"] += 1

    def add_msg(name, tbl, msg, kind, prefixes=False, mutate=True):
        cases.append("R %s %s" % (name, hx(msg)))
        stats[kind] += 1
        if prefixes and len(msg) <= 120:
            for i in range(len(msg)):
                cases.append("R %s %s" % (name, hx(msg[:i])))
                stats["R_prefix"] += 1
            cases.append("R %s %s" % (name, hx(msg + b"d1:v1:ze")))
            stats["R_prefix"] += 1
        if mutate:
            for m in B.mutations(r, msg)[:3]:
                cases.append("R %s %s" % (name, hx(m)))
                stats["R_mutation"] += 1

    rounds = 40 if tier == "quick" else 400
    names = list(TABLES)
    for it in range(rounds):
        for n in names:
            tbl = TABLES[n]
            ts = TSPEC[n]
            allpos = list(range(len(tbl)))
            present = [p for p in allpos if r.random() < r.choice((0.3, 0.7, 1.0))]
            add_msg(ts, tbl, build_message(r, tbl, present), "R_valid", prefixes=(it % 8 == 0))
            add_msg(ts, tbl, build_message(r, tbl, present, order=r.choice(("shuffle", "dup", "table")), extra=r.choice((0, 1, 3))),
                    "R_unsorted_dup_unknown")
            add_msg(ts, tbl, build_message(r, tbl, present, wrong=0.4, extra=r.choice((0, 1))), "R_wrong_type")
            add_msg(ts, tbl, build_message(r, tbl, present, nul=True, order=r.choice(("sorted", "shuffle"))), "R_nul", mutate=False)
            # writer round trip: type-appropriate entries, "[]" groups filled from their first entry
            ents = []
            seen_list = {}
            for p in allpos:
                idx, k = tbl[p]
                path, leaf, raw = parse_key(k)
                is_list = any(kind == "l" for _, kind in path)
                grp = k.split(b"[]")[0] if is_list else None
                if is_list:
                    if seen_list.get(grp) is False:
                        continue
                    take = r.random() < 0.7
                    seen_list[grp] = take
                else:
                    take = r.random() < 0.6
                if take:
                    ents.append("%d %s" % (idx, sval_line(r, ("B" if raw else None) if is_list else raw)))
            cases.append("W %s %d %s" % (ts, len(ents), " ".join(ents)))
            stats["W_roundtrip"] += 1
            if it % 3 == 0:
                ents = ["%d %s" % (tbl[p][0], sval_line(r, parse_key(tbl[p][1])[2], mismatch=0.5)) for p in allpos if r.random() < 0.5]
                cases.append("W %s %d %s" % (ts, len(ents), " ".join(ents)))
                stats["W_mismatch"] += 1
    # every outer key after every nested dictionary (and after a list), canonical messages: the bound on the
    # key length depends on the nesting level and must be restored when a nested dictionary ends
    def after_nested(ts, tbl):
        firsts = []
        for p, (_, k) in enumerate(tbl):
            path, leaf, raw = parse_key(k)
            firsts.append((path[0][0] if path else leaf, bool(path)))
        for a in range(len(tbl)):
            if not firsts[a][1]:
                continue
            later = [b for b in range(a + 1, len(tbl)) if firsts[b][0] != firsts[a][0]]
            if not later:
                continue
            longest = max(later, key=lambda b: len(firsts[b][0]))
            for b in sorted(set(later[:3] + [longest])):
                cases.append("R %s %s" % (ts, hx(build_message(r, tbl, [a, b]))))
                stats["R_after_nested"] += 1
            cases.append("R %s %s" % (ts, hx(build_message(r, tbl, [a] + later))))
            stats["R_after_nested"] += 1
        cases.append("R %s %s" % (ts, hx(build_message(r, tbl, list(range(len(tbl)))))))
        stats["R_after_nested"] += 1

    for n in names:
        after_nested(TSPEC[n], TABLES[n])

    # destination independence: read into a map whose entries hold stale values (same kind as the row,
    # trees with the unordered flag set, other kinds)
    def stale(tbl, p):
        path, leaf, raw = parse_key(tbl[p][1])
        is_list = any(kind == "l" for _, kind in path)
        kind = ("B" if raw else None) if is_list else raw
        c = r.random()
        if c < 0.25:
            return "U " + B.tree_line(r.choice(([b"stale"], ("M", [(b"z", 1)]), b"old", 77)))
        if c < 0.4:
            return sval_line(r, r.choice((None, "B", "S", "L", "M")))
        if kind is None:
            return "V " + B.tree_line(r.choice(([b"stale", [1]], ("M", [(b"a", b"stale")]), b"stale-string", -7)))
        return sval_line(r, kind)

    def dirty(ts, tbl, msg):
        ents = ["%d %s" % (tbl[p][0], stale(tbl, p)) for p in range(len(tbl)) if r.random() < 0.7 and tbl[p][0] < len(tbl)]
        cases.append("RI %s %d %s %s" % (ts, len(ents), " ".join(ents), hx(msg)))
        stats["RI_dirty"] += 1

    for it in range(6 if tier == "quick" else 60):
        for n in names:
            tbl = TABLES[n]
            present = [p for p in range(len(tbl)) if r.random() < 0.7]
            dirty(TSPEC[n], tbl, build_message(r, tbl, present))
            dirty(TSPEC[n], tbl, build_message(r, tbl, present, wrong=0.4, order=r.choice(("sorted", "shuffle"))))
            dirty(TSPEC[n], tbl, b"de")

    # key lengths 13..17 at nesting offsets 0 and 3 (the "size >= 16 - next_key" boundary)
    for n in ("S2", "H"):
        for ln in range(11, 19):
            key = (b"k23456789012345678")[:ln]
            for wrap in (False, True):
                body = B.ref_encode(key) + b"i1e"
                msg = (b"d1:md" + body + b"ee") if wrap else (b"d" + body + b"e")
                cases.append("R %s %s" % (TSPEC[n], hx(msg)))
                stats["R_keylen"] += 1
    # a table key followed by NUL + padding up to exactly / around the room left in current_key
    for n in ("S2", "H", "D"):
        for _, k in TABLES[n]:
            path, leaf, raw = parse_key(k)
            name = (path[0][0] if path else leaf)
            for total in (14, 15, 16, 17):
                if len(name) + 1 > total:
                    continue
                key = name + b"\x00" + b"x" * (total - len(name) - 1)
                cases.append("R %s %s" % (TSPEC[n], hx(b"d" + B.ref_encode(key) + b"i7ee")))
                stats["R_keylen"] += 1
    # deep nesting under known and unknown keys: static-map stack 8, skip stack 128, decoder depth 1024
    for d in (6, 7, 8, 9, 126, 127, 128, 129, 1023, 1024):
        cases.append("R %s %s" % (TSPEC["S2"], hx(b"d1:a" + b"d0:" * d + b"i1e" + b"e" * (d + 1))))
        cases.append("R H %s" % hx(b"d1:v" + b"l" * d + b"e" * d + b"e"))
        cases.append("R H %s" % hx(b"d1:u" + b"l" * d + b"e" * d + b"e"))
        cases.append("R D %s" % hx(b"d1:v" + b"d1:k" * d + b"i1e" + b"e" * d + b"e"))
        cases.append("R D %s" % hx(b"d1:el" + b"l" * d + b"e" * d + b"ee"))
        stats["R_deep"] += 5
    # random tables
    for _ in range(150 if tier == "quick" else 2500):
        tbl = rand_table(r)
        ts = tspec(tbl)
        cases.append("T " + ts)
        present = [p for p in range(len(tbl)) if r.random() < 0.8]
        for order in ("sorted", "table", "shuffle"):
            add_msg(ts, tbl, build_message(r, tbl, present, order=order, extra=r.choice((0, 1)), wrong=r.choice((0, 0, 0.3))),
                    "R_random_table", mutate=(order == "sorted"))
        ents = ["%d %s" % (tbl[p][0], sval_line(r, parse_key(tbl[p][1])[2], mismatch=0.2)) for p in present]
        cases.append("W %s %d %s" % (ts, len(ents), " ".join(ents)))
        stats["W_roundtrip"] += 1
        after_nested(ts, tbl)
        dirty(ts, tbl, build_message(r, tbl, present))
    # exhaustive small scope: every body over a structural alphabet after the leading 'd'
    ex_tbl = [(0, b"a"), (1, b"a[]*"), (2, b"b::a*S"), (3, b"b::b*M")]
    ex_alpha = b"del1:ab0i"
    ex_len = 5 if tier == "quick" else 6
    ts = tspec(ex_tbl)
    for n in range(0, ex_len + 1):
        for tup in itertools.product(ex_alpha, repeat=n):
            cases.append("R %s %s" % (ts, hx(b"d" + bytes(tup))))
            stats["R_exhaustive"] += 1
    stats["exhaustive_scope"] = "table %s, inputs 'd' + all strings of length <= %d over %r" % (ts, ex_len, ex_alpha.decode())
    return cases, stats
